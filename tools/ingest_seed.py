#!/usr/bin/env python3
"""Confirm a seeded defect produced by a sub-agent and store it under /verif/seeded/<ID>-<x>/.

usage: ingest_seed.py <ID> <x> [--also C16,C13] [--recheck] [test paths...]
Steps (all in a scratch copy of /repo under /tmp, removed afterwards):
  1. patch applies to the current /repo tree (patch.rebased.diff is used when the original no longer applies because of a
     later fix: commit)                                   2. demo exits 0 on the clean copy
  3. demo exits 1 on the patched copy                     4. the given tests pass on the patched copy
  5. run ./check <P> quick against the patched copy for the seed's own property and every property given with --also,
     and record what each reports (caught = exit 1 with a VIOLATION line)
--recheck repeats only step 5 (after the checks were extended) and keeps the recorded results of steps 1-4.
"""
import json, os, shutil, subprocess, sys, tempfile

args = sys.argv[1:]
ID, X = args[0], args[1]
rest = args[2:]
also, recheck, TESTS = [], False, []
i = 0
while i < len(rest):
    if rest[i] == "--also":
        also = [p for p in rest[i + 1].split(",") if p]
        i += 2
    elif rest[i] == "--recheck":
        recheck = True
        i += 1
    else:
        TESTS.append(rest[i])
        i += 1
src = "/verif/seeded_inbox/%s/%s" % (ID, X)
if not os.path.isdir(src):
    src = "/tmp/seeds/%s/%s" % (ID, X)
dst = "/verif/seeded/%s-%s" % (ID, X)
PY = "/venv/bin/python"
claimed = {c["property_id"] for c in json.load(open("/verif/MANIFEST.json"))["checks"]}


def run(cmd, cwd, timeout=3000):
    p = subprocess.run(cmd, cwd=cwd, shell=True, capture_output=True, text=True, timeout=timeout)
    return p.returncode, (p.stdout + p.stderr)


os.makedirs(dst, exist_ok=True)
for f in ("patch.diff", "demo.py", "notes.md"):
    if os.path.exists(os.path.join(src, f)) and not (f == "patch.diff" and os.path.exists(os.path.join(dst, f))):
        shutil.copy(os.path.join(src, f), dst)
meta_path = os.path.join(dst, "meta.json")
meta = json.load(open(meta_path)) if os.path.exists(meta_path) else {}
meta.update({"property": ID, "seed": X})
meta.setdefault("ran", [])
if not recheck:
    meta["ran"] = []
patch = os.path.join(dst, "patch.rebased.diff") if os.path.exists(os.path.join(dst, "patch.rebased.diff")) else os.path.join(dst, "patch.diff")
meta["patch_used"] = os.path.basename(patch)
work = tempfile.mkdtemp(prefix="seedchk_", dir="/tmp")
try:
    clean, patched = os.path.join(work, "clean"), os.path.join(work, "patched")
    for d in (clean, patched):
        os.makedirs(d)
        subprocess.run("git -C /repo archive HEAD | tar -x -C %s" % d, shell=True, check=True)
    rc, out = run("patch -p1 -s < %s" % patch, patched)
    meta["patch_applies"] = rc == 0
    if rc != 0:
        meta["patch_error"] = out[-500:]
    else:
        meta.pop("patch_error", None)
        if not recheck or "demo_patched_exit" not in meta:
            demo = os.path.join(dst, "demo.py")
            rc0, out0 = run("%s %s" % (PY, demo), clean, 900)
            rc1, out1 = run("%s %s" % (PY, demo), patched, 900)
            meta["demo_clean_exit"], meta["demo_patched_exit"] = rc0, rc1
            meta["demo_patched_tail"] = out1[-600:]
            meta["ran"].append("demo.py on clean copy (exit %d) and patched copy (exit %d)" % (rc0, rc1))
            if TESTS:
                cmd = "%s -m pytest -q -p no:cacheprovider --timeout=900 -n 4 -k 'not grpc' %s 2>&1 | tail -3" % (PY, " ".join(TESTS))
                rcc, outc = run(cmd, clean, 3000)
                rct, outt = run(cmd, patched, 3000)
                meta["tests_cmd"] = cmd
                meta["tests_clean_tail"] = outc[-300:]
                meta["tests_patched_tail"] = outt[-300:]
                meta["ran"].append("pytest (non-gRPC) on clean copy: %s | on patched copy: %s" % (
                    (outc.strip().splitlines() or ["no output"])[-1][:150], (outt.strip().splitlines() or ["no output"])[-1][:150]))
        meta["checks"] = {}
        for pid in [ID] + [p for p in also if p != ID]:
            if pid not in claimed:
                meta["checks"][pid] = {"exit": None, "note": "property not claimed (not_applicable): no check to run"}
                continue
            env = dict(os.environ, VERIF_REPO=patched, VERIF_EVIDENCE_DIR=os.path.join(work, "ev"))
            p = subprocess.run(["./check", pid, "quick"], cwd="/verif", env=env, capture_output=True, text=True, timeout=6000)
            lines = [l for l in p.stdout.splitlines() if l.startswith(("VIOLATION", "KNOWN", "# " + pid, "# undecided", "# open"))][:8]
            meta["checks"][pid] = {"exit": p.returncode, "lines": [l[:300] for l in lines]}
        meta["caught_by"] = sorted(p for p, r in meta["checks"].items() if r.get("exit") == 1)
        meta["check_exit"] = (meta["checks"].get(ID) or {}).get("exit")
        meta["ran"] = [r for r in meta["ran"] if not r.startswith("VERIF_REPO=")]
        meta["ran"].append("VERIF_REPO=<patched copy> ./check <P> quick for P in %s -> caught by %s" % (
            ",".join(meta["checks"]), ",".join(meta["caught_by"]) or "none"))
finally:
    shutil.rmtree(work, ignore_errors=True)
ok = meta.get("patch_applies") and meta.get("demo_clean_exit") == 0 and meta.get("demo_patched_exit") == 1
meta["confirmed"] = bool(ok)
if os.path.exists(src + "/notes.md"):
    meta["needs"] = open(src + "/notes.md").read()[:1500]
json.dump(meta, open(meta_path, "w"), indent=1)
print(ID, X, "confirmed" if ok else "NOT CONFIRMED", "caught_by", meta.get("caught_by"), {k: v.get("exit") for k, v in meta.get("checks", {}).items()})
