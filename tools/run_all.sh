#!/bin/sh
# run every claimed check (quick) on /repo, in sequence; prints one summary line per property
cd /verif
for id in $(.venv/bin/python -c "import json;print(' '.join(c['property_id'] for c in json.load(open('MANIFEST.json'))['checks']))"); do
  out=$(./check $id ${1:-quick} 2>&1); rc=$?
  echo "$id rc=$rc $(echo "$out" | tail -1)"
  echo "$out" | grep -E "VIOLATION|KNOWN-FINDING|CHECKER|undecided|open:" | head -5
done
