"""Bounded stand-in (labelled bounded, never counted as proved) for the float/Decimal paths of C10/C11
that no SMT theory here decides: decimal rendering of binary floats in the high-adjustment, stepped
floats, ints beyond 2**53, log floats.  The SAME contract clauses as the deductive part are evaluated
at run time on the real functions over an enumerated lattice.

bound: low in {-3,-1,0,0.1,0.25,0.3,1,2.5}, span in {0,0.35,0.5,0.75,1,2.45,3,7.3}, step in {0.05,0.1,0.25,0.3,1,3}
       x 41 points of the transformed box each (quick: 11); int ranges incl. [0,2**62] step 3; log floats."""
from __future__ import annotations

import itertools
import json
import math
import random


def _ulps(a, b):
    if a == b:
        return 0
    n = 0
    x = a
    while x != b and n < 200:
        x = math.nextafter(x, b)
        n += 1
    return n


def run(pid, tier, seed):
    from pyvc.frontend import setup_repo_path
    setup_repo_path()
    import warnings
    warnings.simplefilter("ignore")
    import numpy as np
    import optuna
    from optuna import distributions as D
    from optuna._transform import _SearchSpaceTransform, _untransform_numerical_param, _transform_numerical_param
    optuna.logging.set_verbosity(optuna.logging.ERROR)
    rng = random.Random(seed)
    npts = 11 if tier == "quick" else 41
    lows = [-3.0, -1.0, 0.0, 0.1, 0.25, 0.3, 1.0, 2.5]
    spans = [0.0, 0.35, 0.5, 0.75, 1.0, 2.45, 3.0, 7.3]
    steps = [0.05, 0.1, 0.25, 0.3, 1.0, 3.0]
    viol, samples = [], []
    evals, nontrivial = 0, set()

    def bad(what, **inp):
        if len(viol) < 6:
            viol.append({"what": what, "input": inp})

    # ---- stepped floats: high adjustment, JSON round trip, containment, untransform ---------------
    for low, span, step in itertools.product(lows, spans, steps):
        high = low + span
        evals += 1
        try:
            d = D.FloatDistribution(low, high, step=step)
        except ValueError:
            continue
        if D._adjust_discrete_uniform_high(d.low, d.high, d.step) != d.high:
            bad("_adjust_discrete_uniform_high not idempotent", low=low, high=high, step=step, adjusted=d.high)
        if not (d.high <= high + 1e-12 and d.high > high - step - 1e-9):
            bad("adjusted high outside (high-step, high]", low=low, high=high, step=step, adjusted=d.high)
        j = D.distribution_to_json(d)
        d2 = D.json_to_distribution(j)
        if d2 != d or D.distribution_to_json(d2) != j:
            bad("FloatDistribution JSON round trip / idempotence", low=low, high=high, step=step, json=j,
                reparsed=D.distribution_to_json(d2))
        for v in (d.low, d.high):
            if not d._contains(v) or d2._contains(v) != d._contains(v):
                bad("endpoint not contained / containment differs after round trip", low=low, high=high, step=step, v=v)
        if d.high != high:
            nontrivial.add((low, high, step))
        # untransform: every point of the box [low - step/2, high + step/2] maps to a contained grid value
        for i in range(npts):
            t = (d.low - step / 2) + (d.high - d.low + step) * i / (npts - 1)
            r = _untransform_numerical_param(t, d, True)
            evals += 1
            if not (d.low <= r <= d.high and d._contains(r)):
                bad("_untransform_numerical_param(step float) outside domain/grid", low=d.low, high=d.high, step=step, t=t, result=r)
        tr = _SearchSpaceTransform({"x": d})
        for v in (d.low, d.high, d.low + step if d.low + step <= d.high else d.low):
            back = tr.untransform(tr.transform({"x": v}))["x"]
            evals += 1
            if abs(back - v) > 1e-8 * max(1.0, abs(v)) or not d._contains(back):
                bad("SearchSpaceTransform round trip (step float)", low=d.low, high=d.high, step=step, v=v, back=back)
    if len(samples) < 3:
        samples.append({"case": "FloatDistribution(low=0.1, high=0.85, step=0.1)", "checks": "adjust idempotent, JSON round trip, containment, untransform of %d box points" % npts})

    # ---- plain and log floats -------------------------------------------------------------------
    fl = [(0.0, 1.0, False), (-2.5, -2.5, False), (2.0, 2.0, False), (1e-8, 1e8, True), (1.0, 1.0 + 1e-9, True),
          (3.0, 3.0, True), (0.5, 2.0, True), (-1e6, 1e6, False)]
    for low, high, log in fl:
        d = D.FloatDistribution(low, high, log=log)
        j = D.distribution_to_json(d)
        if D.json_to_distribution(j) != d:
            bad("FloatDistribution JSON round trip", low=low, high=high, log=log)
        tr = _SearchSpaceTransform({"x": d})
        lo_t, hi_t = tr.bounds[0]
        for i in range(npts):
            t = lo_t + (hi_t - lo_t) * i / (npts - 1) if npts > 1 else lo_t
            r = tr.untransform(np.array([t]))["x"]
            evals += 1
            nontrivial.add((low, high, log, i))
            # exp(log(x)) carries a relative error of about |ln x| ulps: "a few ulps" is read as 4 + 2|ln x|
            tol_lo = _ulps(r, low) <= 4 + 2 * abs(math.log(low)) if (log and r < low) else r >= low
            tol_hi = _ulps(r, high) <= 4 + 2 * abs(math.log(high)) if (log and r > high) else r <= high
            if not (tol_lo and tol_hi):
                bad("untransform(float) outside [low, high]", low=low, high=high, log=log, t=float(t), result=r)
        for v in (low, (low + high) / 2 if not log else math.sqrt(low * high)):
            back = tr.untransform(tr.transform({"x": v}))["x"]
            evals += 1
            ok = back == v if not log else _ulps(back, v) <= 4 + 2 * abs(math.log(v))
            if not ok:
                bad("SearchSpaceTransform round trip (float)", low=low, high=high, log=log, v=v, back=back)

    # ---- ints (incl. ranges beyond 2**53: known finding F9) ---------------------------------------
    ints = [(0, 10, 1, False), (-7, 8, 3, False), (1, 1, 1, False), (1, 1024, 1, True), (5, 5, 2, False),
            (0, 10 ** 15, 3, False), (0, 2 ** 62, 3, False), (-2 ** 60, 2 ** 60, 7, False)]
    for low, high, step, log in ints:
        d = D.IntDistribution(low, high, log=log, step=step)
        if D.json_to_distribution(D.distribution_to_json(d)) != d:
            bad("IntDistribution JSON round trip", low=low, high=high, step=step, log=log)
        tr = _SearchSpaceTransform({"x": d})
        lo_t, hi_t = tr.bounds[0]
        for i in range(npts):
            t = lo_t + (hi_t - lo_t) * i / (npts - 1)
            r = tr.untransform(np.array([t]))["x"]
            evals += 1
            nontrivial.add((low, high, step, i))
            if not (isinstance(r, int) and d.low <= r <= d.high and (r - d.low) % d.step == 0):
                bad("untransform(int) outside domain/grid", low=d.low, high=d.high, step=step, log=log, t=float(t), result=r)
        for v in (d.low, d.high):
            back = tr.untransform(tr.transform({"x": v}))["x"]
            evals += 1
            if back != v:
                bad("SearchSpaceTransform round trip (int)", low=d.low, high=d.high, step=step, log=log, v=v, back=back)
            if d.to_external_repr(d.to_internal_repr(v)) != v:
                bad("to_external_repr(to_internal_repr(v)) != v", low=d.low, high=d.high, step=step, v=v)
    samples.append({"case": "IntDistribution(-7, 8, step=3): box points -> contained grid ints; endpoints round trip"})

    # ---- categorical ------------------------------------------------------------------------------
    cats = [("a", "b", "c"), (None, 1, 2.5, "x"), (float("nan"), 1.0), (True, False), (0.1, 0.2)]
    for ch in cats:
        d = D.CategoricalDistribution(ch)
        j = D.distribution_to_json(d)
        d2 = D.json_to_distribution(j)
        evals += 1
        same = all(D._categorical_choice_equal(a, b) for a, b in zip(d.choices, d2.choices)) and len(d.choices) == len(d2.choices)
        if not same:
            bad("CategoricalDistribution JSON round trip", choices=repr(ch))
        tr = _SearchSpaceTransform({"x": d})
        for c in ch:
            back = tr.untransform(tr.transform({"x": c}))["x"]
            evals += 1
            if not D._categorical_choice_equal(back, c):
                bad("SearchSpaceTransform round trip (categorical)", choices=repr(ch), v=repr(c), back=repr(back))
            i = d.to_internal_repr(c)
            if not D._categorical_choice_equal(d.to_external_repr(i), c) or not d._contains(i):
                bad("categorical value round trip", choices=repr(ch), v=repr(c))
    samples.append({"case": "CategoricalDistribution((nan, 1.0)): JSON round trip, one-hot transform round trip"})
    return {"name": "bounded.float_lattice", "function": "optuna/distributions.py + optuna/_transform.py (Decimal/stepped/log/huge-int paths)",
            "bound": __doc__.split("bound:")[1].strip(), "evaluations": evals, "distinct_nontrivial": len(nontrivial),
            "rule": "lattice product enumerated completely; a case is non-trivial when the high bound was adjusted or the "
                    "point lies strictly inside the transformed box", "exhaustive": True, "samples": samples, "violations": viol}
