#!/usr/bin/env python3
"""Mutant self-test: every hand-written mutant in mutants/*.diff is applied to a scratch copy of /repo (outside /repo and
/verif, removed afterwards) and the check of the property named in mutants/catalog.json must exit 1 on it (expected "0" marks
the mutants that deliberately do NOT break the property).  usage: tools/mutant_selftest.py [ID ...]  (-j N parallel, default 4)"""
import concurrent.futures as cf
import json, os, subprocess, sys

HERE = os.path.dirname(os.path.dirname(os.path.abspath(__file__)))
cat = json.load(open(os.path.join(HERE, "mutants", "catalog.json")))
ids = [a for a in sys.argv[1:] if not a.startswith("-")]
jobs = 4
if "-j" in sys.argv:
    jobs = int(sys.argv[sys.argv.index("-j") + 1])
    ids = [a for a in ids if a != str(jobs)]


def one(item):
    name, (pid, expect) = item
    p = subprocess.run([os.path.join(HERE, "tools", "run_on_patch.sh"), os.path.join(HERE, "mutants", name), pid, "quick"],
                       capture_output=True, text=True)
    first = next((l for l in p.stdout.splitlines() if l.startswith("# " + pid + ":")), "")
    return name, pid, expect, p.returncode, first[:160]


work = [(n, v) for n, v in sorted(cat.items()) if not ids or v[0] in ids]
bad = 0
with cf.ThreadPoolExecutor(max_workers=jobs) as ex:
    for name, pid, expect, rc, first in ex.map(one, work):
        ok = rc == expect
        bad += 0 if ok else 1
        print("%-28s %s expect=%d got=%d %s %s" % (name, pid, expect, rc, "ok" if ok else "MISMATCH", first))
print("mutants: %d, mismatches: %d" % (len(work), bad))
sys.exit(1 if bad else 0)
