"""Witness for the obligation Trial.__init__:post/any/ret2-3 (the Trial's working copy must be owned by the
Trial): run against the real code, returns a replay record."""


def run():
    import optuna
    optuna.logging.set_verbosity(optuna.logging.ERROR)
    study = optuna.create_study(storage=optuna.storages.InMemoryStorage())
    trial = study.ask()
    snap = study.get_trials(deepcopy=False)[0]          # an object read from the study
    before = dict(snap.params)
    trial.suggest_float("x", 0, 1)                      # a later write through the Trial
    after = dict(snap.params)
    return {"function": "optuna/trial/_trial.py:Trial.__init__", "script": __doc__,
            "steps": ["study.ask()", "snap = study.get_trials(deepcopy=False)[0]", "trial.suggest_float('x', 0, 1)"],
            "observed": "snap.params before=%r after=%r" % (before, after),
            "reproduced": before != after}
