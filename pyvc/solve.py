"""Obligation discharge: z3 (Python API) first, cvc5 (CLI, SMT-LIB2 dump) on unknown."""
from __future__ import annotations

import os
import subprocess
import tempfile
import time

import z3

# a runaway quantifier instantiation must end as `unknown`, not as an out-of-memory kill of some other process
z3.set_param("memory_max_size", 3000)

Z3_TIMEOUT_MS = int(os.environ.get("PYVC_Z3_TIMEOUT_MS", "60000"))
MAX_HARD = int(os.environ.get("PYVC_MAX_HARD", "3"))
INC_TIMEOUT_MS = int(os.environ.get("PYVC_INC_TIMEOUT_MS", "5000"))
EMATCH_TIMEOUT_MS = int(os.environ.get("PYVC_EMATCH_TIMEOUT_MS", "15000"))
CVC5_TIMEOUT_S = int(os.environ.get("PYVC_CVC5_TIMEOUT_S", "30"))
CVC5 = os.environ.get("PYVC_CVC5", "/usr/bin/cvc5")


_sk = [0]


def split_goal(g, hyps=(), depth=0):
    """Split a goal into subgoals (all must hold): TOP-LEVEL conjunctions are proved conjunct by conjunct and a
    top-level universal goal is skolemised by hand.  The body of a quantifier is kept whole: its conjuncts share the
    terms that trigger the hypotheses' quantifiers."""
    if depth > 6:
        return [(hyps, g)]
    if z3.is_and(g):
        out = []
        for ch in g.children():
            out.extend(split_goal(ch, hyps, depth + 1))
        return out
    if z3.is_quantifier(g) and g.is_forall():
        vs = []
        for i in range(g.num_vars()):
            _sk[0] += 1
            vs.append(z3.Const("sk!%s!%d" % (g.var_name(i), _sk[0]), g.var_sort(i)))
        body = z3.substitute_vars(g.body(), *reversed(vs))
        return [(hyps, body)]
    if z3.is_implies(g):
        a, b = g.children()
        if z3.is_and(b) or (z3.is_quantifier(b) and b.is_forall()):
            return split_goal(b, hyps + (a,), depth + 1)
    if z3.is_or(g):
        # Or(l1, .., lk, C) with exactly one conjunctive / universal disjunct C (the shape z3's simplifier gives an
        # implication): prove C under the negated other disjuncts
        big = [ch for ch in g.children() if z3.is_and(ch) or (z3.is_quantifier(ch) and ch.is_forall())]
        if len(big) == 1:
            rest = tuple(z3.Not(ch) for ch in g.children() if not z3.eq(ch, big[0]))
            return split_goal(big[0], hyps + rest, depth + 1)
    return [(hyps, g)]


class PathSolver:
    """Obligations of one path share an incremental E-matching solver (facts only grow along a
    path); whatever it leaves open is re-tried one-shot (E-matching, then MBQI, then cvc5)."""

    def __init__(self, facts, hard_names=None, hints=None):
        self.hints = hints or {}
        self.facts = facts
        self.hard = hard_names if hard_names is not None else set()
        self.n = 0
        self.s = z3.Solver()
        self.s.set("auto_config", False)
        self.s.set("mbqi", False)
        self.s.set("timeout", INC_TIMEOUT_MS)

    def discharge(self, ob, recheck_cvc5=False):
        t0 = time.time()
        if z3.is_true(ob.goal):
            ob.status, ob.backend, ob.time = "discharged", "syntactic", 0.0
            return ob
        while self.n < ob.nfacts:
            self.s.add(self.facts[self.n])
            self.n += 1
        subs = split_goal(ob.goal)
        r = z3.unsat
        if self.hints.get(ob.name) in ("mbqi", "reparse"):
            # known (from the committed baseline) to need the model-based / re-parsed pass: go there directly
            ob.pc = tuple(self.facts[:ob.nfacts])
            discharge(ob, recheck_cvc5=recheck_cvc5, mbqi_first=self.hints[ob.name] == "mbqi", reparse_first=self.hints[ob.name] == "reparse")
            ob.time = time.time() - t0
            if ob.status != "discharged":
                self.hard.add(ob.name)
            return ob
        for hyps, sg in subs:
            self.s.push()
            for h in hyps:
                self.s.add(h)
            self.s.add(z3.Not(sg))
            r1 = self.s.check()
            self.s.pop()
            if r1 != z3.unsat:
                r = r1
                break
        if r == z3.unsat:
            ob.status, ob.backend, ob.time = "discharged", "z3", time.time() - t0
            if recheck_cvc5:
                ob.pc = tuple(self.facts[:ob.nfacts])
                discharge(ob, recheck_cvc5=True)
            return ob
        if self.hints.get(ob.name) == "witness":
            # an obligation with a committed witness scenario (a known-false clause): the scenario decides, no escalation
            ob.status, ob.backend, ob.time = "unknown", "z3:left-to-witness", time.time() - t0
            return ob
        if ob.name in self.hard or len(self.hard) >= MAX_HARD:
            # an earlier path instance of this obligation already resisted every back end (or many obligations of this
            # function are open already: only the cheap incremental attempt is made for the rest)
            ob.status, ob.backend, ob.time = "unknown", "z3:skipped-after-earlier-unknown", time.time() - t0
            return ob
        ob.pc = tuple(self.facts[:ob.nfacts])
        discharge(ob, recheck_cvc5=recheck_cvc5)
        if ob.status != "discharged":
            self.hard.add(ob.name)
        ob.time = time.time() - t0
        return ob


def _reparsed_check(ob, g):
    try:
        s1 = z3.Solver()
        for p in ob.pc:
            s1.add(p)
        s1.add(z3.Not(g))
        ctx2 = z3.Context()
        s2 = z3.Solver(ctx=ctx2)
        s2.from_string(s1.to_smt2())
        s2.set("timeout", Z3_TIMEOUT_MS)
        return s2.check() == z3.unsat
    except z3.Z3Exception:
        return False


def discharge(ob, use_cvc5=True, recheck_cvc5=False, mbqi_first=False, reparse_first=False):
    """Sets ob.status in {'discharged','failed','unknown'} and ob.backend."""
    t0 = time.time()
    g = ob.goal
    if z3.is_true(g):
        ob.status, ob.backend = "discharged", "syntactic"
        ob.time = 0.0
        return ob
    if reparse_first and _reparsed_check(ob, g):
        ob.status, ob.backend, ob.time = "discharged", "z3-reparse", time.time() - t0
        return ob
    # pass 1: E-matching only (explicit patterns; fast and predictable); pass 2: default (MBQI)
    r = z3.unknown
    s = None
    subs = split_goal(g)
    for hyps, sg in subs:
        for mbqi, tmo in (((True, Z3_TIMEOUT_MS), (False, EMATCH_TIMEOUT_MS)) if mbqi_first else ((False, EMATCH_TIMEOUT_MS), (True, Z3_TIMEOUT_MS))):
            s = z3.Solver()
            s.set("timeout", tmo)
            if not mbqi:
                s.set("auto_config", False)
                s.set("mbqi", False)
            for p in ob.pc:
                s.add(p)
            for h in hyps:
                s.add(h)
            s.add(z3.Not(sg))
            r = s.check()
            if r != z3.unknown:
                break
        if r != z3.unsat:
            break
    if r == z3.unknown and not reparse_first:
        # last z3 attempt: the goal as one formula (not split, not skolemised by us), printed and re-read into a fresh
        # context (what the z3 command line would see), default configuration -- quantifier instantiation is sensitive
        # to term order, and the re-parsed problem is often decided at once where the in-memory one is not
        try:
            s1 = z3.Solver()
            for p in ob.pc:
                s1.add(p)
            s1.add(z3.Not(g))
            ctx2 = z3.Context()
            s2 = z3.Solver(ctx=ctx2)
            s2.from_string(s1.to_smt2())
            s2.set("timeout", Z3_TIMEOUT_MS)
            r2 = s2.check()
            if r2 == z3.unsat:
                r, mbqi = r2, "reparse"
        except z3.Z3Exception:
            pass
    ob.time = time.time() - t0
    if r == z3.unsat:
        ob.status, ob.backend = "discharged", ("z3-reparse" if mbqi == "reparse" else "z3-mbqi" if mbqi else "z3")
    elif r == z3.sat:
        ob.status, ob.backend = "failed", "z3"
        try:
            ob.model = s.model()
        except Exception:
            ob.model = None
    else:
        ob.status, ob.backend = "unknown", "z3:" + s.reason_unknown()
        if use_cvc5:
            r2 = run_cvc5(s)
            ob.time = time.time() - t0
            if r2 == "unsat":
                ob.status, ob.backend = "discharged", "cvc5"
            elif r2 == "sat":
                # cvc5 'sat' on a quantified problem is a genuine model; keep as failed without model
                ob.status, ob.backend = "failed", "cvc5"
    if recheck_cvc5 and ob.status == "discharged" and ob.backend == "z3":
        r2 = run_cvc5(s)
        ob.info["cvc5_recheck"] = r2
    return ob


def run_cvc5(solver) -> str:
    try:
        smt = solver.to_smt2()
    except Exception:
        return "error"
    # z3 prints our heap-array names (`H0|F:Class.field`) as |H0\|F:...|; cvc5 1.0 rejects a backslash inside a quoted
    # symbol, so the separator is renamed for cvc5 (a pure renaming of uninterpreted symbols)
    smt = "(set-logic ALL)\n" + smt.replace("\\|", "!")
    fd, path = tempfile.mkstemp(suffix=".smt2", prefix="pyvc_")
    try:
        with os.fdopen(fd, "w") as f:
            f.write(smt)
        try:
            p = subprocess.run([CVC5, "--tlimit=%d" % (CVC5_TIMEOUT_S * 1000), "--strings-exp", path],
                               capture_output=True, text=True, timeout=CVC5_TIMEOUT_S + 5)
        except subprocess.TimeoutExpired:
            return "timeout"
        out = (p.stdout or "").strip().splitlines()
        if out and out[0] in ("sat", "unsat", "unknown"):
            return out[0]
        if "timeout" in ((p.stdout or "") + (p.stderr or "")).lower():
            return "timeout"
        return "error"
    finally:
        try:
            os.unlink(path)
        except OSError:
            pass


def model_summary(model, limit=40):
    if model is None:
        return {}
    out = {}
    for d in model.decls()[:400]:
        nm = d.name()
        if nm.startswith("arg_") or nm in ("R0",) or nm.startswith("res_"):
            try:
                out[nm] = str(model[d])[:200]
            except Exception:
                pass
        if len(out) >= limit:
            break
    return out
