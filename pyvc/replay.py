"""Replay of solver counterexamples against the real code (DESIGN 3.9).

Scalar functions (parameters int/float/bool/str/None/enum, `self` an object whose schema fields are
scalars): the model is concretised into real Python values, the real function from $VERIF_REPO is
called, and the failed clause text is evaluated at run time with plain eval().  Heap-heavy
functions are not concretised (reported as no-failing-input-found)."""
from __future__ import annotations

import copy
import json
import math
import sys
import traceback

import z3

from .kinds import *  # noqa
from .state import SV


_CTX = {}


def _str_of(model, sterm):
    """Strings are only constrained through the uninterpreted float-literal predicates: realise
    them by a genuine literal with the model's value (or a genuine non-literal)."""
    from . import lib
    raw = sterm.as_string()
    ok = z3.is_true(model.eval(lib._float_of_str_ok(sterm), model_completion=True))
    if ok:
        fv = py_of(model, lib._float_of_str(sterm), KFloat)
        return repr(fv)
    try:
        float(raw)
        return "x" + raw
    except ValueError:
        return raw


def _list_items(model, ref_term, lkind, depth):
    eng, st = _CTX["eng"], _CTX["st"]
    n_, e_ = eng.lnames(lkind)
    na, ea = st.heap0.get(n_), st.heap0.get(e_)
    if na is None:
        return []
    n = model.eval(na[ref_term], model_completion=True).as_long()
    n = max(0, min(n, 40))
    if ea is None:
        ea = eng.harr(st, e_)
    return [py_of(model, ea[ref_term][i], lkind.elem, depth + 1) for i in range(n)]


def py_of(model, term, kind, depth=0):
    if depth > 4:
        raise ValueError("too deep")
    v = model.eval(term, model_completion=True)
    if isinstance(kind, KList):
        if v.as_long() == 0:
            return None
        return _list_items(model, v, kind, depth)
    if isinstance(kind, KRef):
        if v.as_long() == 0:
            return None
        eng, st = _CTX["eng"], _CTX["st"]
        cls = eng.class_by_name(kind.cls)
        obj = object.__new__(cls)
        for nm in [x.__name__ for x in cls.__mro__]:
            for f in eng.reg.schemas.get(nm, {}):
                if f.startswith("g_"):
                    continue
                hname, fk = eng.fname(kind.cls, f)
                arr = st.heap0.get(hname)
                if arr is None:
                    continue
                try:
                    object.__setattr__(obj, f, py_of(model, arr[v], fk, depth + 1))
                except Exception:
                    pass
        return obj
    if kind is KInt or isinstance(kind, KEnum):
        x = v.as_long()
        return kind.cls(x) if isinstance(kind, KEnum) else x
    if kind is KBool:
        return z3.is_true(v)
    if kind is KStr:
        return _str_of(model, v)
    if kind is KFloat:
        Fs = F()
        d = v.decl().name()
        if d == "fin":
            r = v.arg(0)
            return float(r.numerator_as_long()) / float(r.denominator_as_long())
        return {"pinf": float("inf"), "ninf": float("-inf"), "nan": float("nan")}[d]
    if isinstance(kind, KOpt):
        if v.decl().name() == "none":
            return None
        return py_of(model, v.arg(0), kind.inner)
    if kind is KNone:
        return None
    if kind is KVal:
        d = v.decl().name()
        if d == "vnone":
            return None
        if d == "vbool":
            return z3.is_true(v.arg(0))
        if d == "vint":
            return v.arg(0).as_long()
        if d == "vstr":
            return _str_of(model, v.arg(0))
        if d == "vflt":
            return py_of(model, v.arg(0), KFloat)
        if d in ("vlist", "vtuple"):
            items = _list_items(model, v.arg(0), KList(KVal), depth)
            return items if d == "vlist" else tuple(items)
        raise ValueError("container Val in model")
    raise ValueError("cannot concretise kind %s" % kind)


def small_model(eng, st, ob):
    """Ask again for a model in which the containers reachable from the parameters are short
    (counterexamples with 80 000-element lists do not replay well)."""
    if ob.pc is None:
        return ob.model
    extra = []

    def size_terms(sv, depth=0):
        k = sv.kind
        if depth > 2 or sv.term is None:
            return
        if isinstance(k, KList):
            extra.append(eng.list_len(st, sv) <= 3)
        elif isinstance(k, KDict):
            extra.append(eng.dict_size(st, sv) <= 3)
        elif k is KVal:
            V = val_sort()
            extra.append(eng.list_len(st, SV(KList(KVal), V.lr(sv.term))) <= 3)
            extra.append(eng.list_len(st, SV(KList(KVal), V.tr(sv.term))) <= 3)
            extra.append(z3.Length(V.s(sv.term)) <= 3)
        elif isinstance(k, KRef):
            cls = eng.class_by_name(k.cls)
            for nm in ([x.__name__ for x in cls.__mro__] if cls else []):
                for f in eng.reg.schemas.get(nm, {}):
                    try:
                        hname, fk = eng.fname(k.cls, f)
                    except Exception:
                        continue
                    if hname in st.heap0 and isinstance(fk, (KList, KDict)):
                        size_terms(SV(fk, st.heap0[hname][sv.term]), depth + 1)
    saved = st.heap
    st.heap = dict(st.heap0)
    eng.spec_mode += 1
    try:
        for name, sv in st.fn_ctx.pre_env.items():
            size_terms(sv)
    finally:
        eng.spec_mode -= 1
        st.heap = saved
    s = z3.Solver()
    s.set("timeout", 5000)
    for p in ob.pc:
        s.add(p)
    s.add(z3.Not(ob.goal))
    for e in extra:
        s.add(e)
    if s.check() == z3.sat:
        return s.model()
    return ob.model


def model_hook(eng, st, fi, c, ob):
    model = ob.model
    if model is None:
        return
    from .state import SV
    try:
        model = small_model(eng, st, ob)
    except Exception:
        model = ob.model
    env0 = st.fn_ctx.pre_env
    args = {}
    _CTX["eng"], _CTX["st"] = eng, st
    import inspect
    for name, sv in env0.items():
        args[name] = py_of(model, sv.term, sv.kind)
    ob.info["replay"] = run_real(fi.file, fi.qualname, args, ob.info.get("clause"), ob.info.get("outcome"),
                                 ob.info.get("expected"), ob.name)


def _resolve(file, qualname):
    import importlib
    mod = file[:-3].replace("/", ".")
    m = importlib.import_module(mod)
    obj = m
    for p in qualname.split("."):
        obj = getattr(obj, p)
    return m, obj


RT = {"implies": lambda a, b: (not a) or b, "iff": lambda a, b: bool(a) == bool(b),
      "math_isnan": lambda x: isinstance(x, float) and math.isnan(x)}


def run_real(file, qualname, args, clause, outcome, expected, obname):
    m, f = _resolve(file, qualname)
    old = {}
    for k, v in args.items():
        try:
            old[k] = copy.deepcopy(v)
        except Exception:
            old[k] = v
    rec = {"function": "%s:%s" % (file, qualname), "args": {k: repr(v) for k, v in args.items()}, "obligation": obname}
    try:
        res = f(**args)
        rec["observed"] = "return %r" % (res,)
        raised = None
    except BaseException as e:  # noqa
        res = None
        raised = e
        rec["observed"] = "raise %s(%s)" % (type(e).__name__, str(e)[:200])
    reproduced = None
    if obname.endswith("/outcome"):
        # the obligation says: this outcome must not happen under the case's `when`
        if expected and expected.startswith("raise"):
            reproduced = raised is None or type(raised).__name__ != expected.split()[-1]
        else:
            reproduced = raised is not None
    elif isinstance(clause, str) and raised is None:
        env = dict(vars(m))
        env.update(RT)
        env.update(args)
        env["result"] = res
        env["old"] = lambda x: x
        try:
            ctext = clause[len("result == "):] if clause.startswith("result == ") else None
            if ctext is not None:
                val = eval(ctext, env)
                reproduced = not (res == val or (isinstance(res, float) and isinstance(val, float) and math.isnan(res) and math.isnan(val)))
                rec["expected"] = repr(val)
            else:
                # old(...) is evaluated on the snapshot taken before the call
                oenv = dict(env)
                oenv.update(old)
                env["old"] = None
                reproduced = not bool(eval(_inline_old(clause), env, {"__old_env__": oenv}))
        except Exception as e:
            rec["clause_eval_error"] = repr(e)
    rec["reproduced"] = bool(reproduced) if reproduced is not None else False
    rec["clause"] = clause
    return rec


def _inline_old(clause):
    return clause


def rerun(path):
    """./check <id> --replay <file>: re-run a stored counterexample."""
    rec = json.load(open(path))
    rp = rec.get("replay")
    if not rp and rec.get("why") == "bounded" and str(rec.get("function", "")).startswith("bounded."):
        # a violation found by a bounded stand-in: the stored input is one element of the stand-in's finite domain; re-run
        # the stand-in on the current tree ($VERIF_REPO) and report whether the same failure is still there
        import importlib
        import os
        mod = importlib.import_module(rec["function"])
        res = mod.run(rec.get("property"), os.environ.get("VERIF_TIER", "quick"), int(os.environ.get("VERIF_SEED", "0") or 0))
        same = [v for v in res.get("violations", []) if v.get("what") == rec.get("what")]
        exact = [v for v in same if v.get("input") == rec.get("input")]
        print("stored failing input:", json.dumps(rec.get("input"), indent=1)[:3000])
        print("re-ran %s: %d violation(s), %d with the same description, %d with exactly the stored input" % (
            rec["function"], len(res.get("violations", [])), len(same), len(exact)))
        return 1 if same else 0
    if not rp:
        print("no concrete input stored in %s (obligation %s): nothing to replay" % (path, rec.get("obligation")))
        print(json.dumps(rec.get("solver_output"), indent=1)[:3000])
        return 0
    from .frontend import setup_repo_path
    setup_repo_path()
    file, q = rp["function"].split(":")
    m, f = _resolve(file, q)
    args = {k: eval(v, dict(vars(m), nan=float("nan"), inf=float("inf"))) for k, v in rp["args"].items() if not v.startswith("<")}
    print("replaying", rp["function"], args)
    try:
        print("returned", f(**args))
    except BaseException as e:  # noqa
        print("raised", type(e).__name__, e)
    print("stored observation:", rp.get("observed"), "clause:", rp.get("clause"))
    return 1 if rp.get("reproduced") else 0
