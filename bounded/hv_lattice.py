"""Bounded stand-in (the ONLY evidence for C15; labelled bounded, never counted as proved).

The contracts of the numpy kernels are expressible but not dischargeable deductively here
(np.unique / maximum.accumulate / fancy indexing would have to be re-modelled by hand = proving a
look-alike).  On integer lattices every float operation involved is exact, so a run-time check of
the contract against an independent exact oracle DECIDES it inside the bound:

  compute_hypervolume(P, r)         == grid_volume(P, r)          (coordinate-compressed union of boxes; inf if r infinite)
  _fast_non_domination_rank(L, pen) == peel_rank(L, pen)          (O(n^2) repeated front peeling incl. constrained order)
  _is_pareto_front(L, False)[i]     <=> no j: L[j] dominates L[i]
  _solve_hssp(L, idx, k, r)         : k distinct members of idx, HV(result) >= (1-1/e) * max_{|S|=k} HV(S)

bound (quick): all multisets of n<=3 points in {0,1,2}^d, d<=3, plus n=4 in d<=2; reference points in {3,inf}^d;
               all subset sizes; penalties in {None} + {-1, 1, 2, nan}^n for n<=3.
bound (thorough): n<=4 in {0,1,2,3}^d, d<=3; n<=5 in d=2; coordinates incl. -inf for the rank/front checks."""
from __future__ import annotations

import itertools
import math


def dominates(a, b):
    return all(x <= y for x, y in zip(a, b)) and any(x < y for x, y in zip(a, b))


def grid_volume(points, ref):
    """Exact dominated volume of the union of boxes [p, ref] by coordinate compression."""
    if any(math.isinf(r) for r in ref):
        return math.inf
    d = len(ref)
    pts = [p for p in points if all(not math.isinf(x) or x < 0 for x in p)]
    if any(any(math.isinf(x) for x in p) for p in pts):
        return math.inf
    if not pts:
        return 0.0
    coords = [sorted(set([p[i] for p in pts] + [ref[i]])) for i in range(d)]
    vol = 0.0
    for cell in itertools.product(*[range(len(c) - 1) for c in coords]):
        lo = [coords[i][cell[i]] for i in range(d)]
        hi = [coords[i][cell[i] + 1] for i in range(d)]
        if any(all(p[i] <= lo[i] for i in range(d)) for p in pts):
            v = 1.0
            for i in range(d):
                v *= hi[i] - lo[i]
            vol += v
    return vol


def peel(points):
    """Ranks by repeatedly peeling the non-dominated front (duplicates share a rank)."""
    n = len(points)
    rank = [-1] * n
    rest = set(range(n))
    r = 0
    while rest:
        front = [i for i in rest if not any(dominates(points[j], points[i]) for j in rest)]
        for i in front:
            rank[i] = r
        rest -= set(front)
        r += 1
    return rank


def peel_rank(points, penalty):
    n = len(points)
    if penalty is None:
        return peel(points)
    isnan = [isinstance(p, float) and math.isnan(p) for p in penalty]
    feas = [i for i in range(n) if not isnan[i] and penalty[i] <= 0]
    infe = [i for i in range(n) if not isnan[i] and penalty[i] > 0]
    unk = [i for i in range(n) if isnan[i]]
    rank = [-1] * n
    base = 0
    for grp, key in ((feas, lambda i: points[i]), (infe, lambda i: (penalty[i],)), (unk, lambda i: points[i])):
        if grp:
            rk = peel([key(i) for i in grp])
            for i, r in zip(grp, rk):
                rank[i] = base + r
        base = (max([rank[i] for i in range(n) if rank[i] >= 0], default=-1) + 1) if grp else base
    return rank


def _work(args):
    pid, tier, d, n, first = args
    from pyvc.frontend import setup_repo_path
    setup_repo_path()
    import warnings
    warnings.simplefilter("ignore")
    import numpy as np
    from optuna._hypervolume import compute_hypervolume, _solve_hssp
    from optuna.study._multi_objective import _fast_non_domination_rank, _is_pareto_front
    thorough = tier == "thorough"
    vals = [0, 1, 2, 3] if thorough else [0, 1, 2]
    viol = []
    evals = 0
    nontrivial = 0
    want = set(["hv", "rank", "front", "hssp"]) if pid == "C15" else set(["front"])

    def bad(what, **inp):
        if len(viol) < 6:
            viol.append({"what": what, "input": {k: repr(v) for k, v in inp.items()}})

    cube = list(itertools.product(vals, repeat=d))
    refs = list(itertools.product([max(vals), max(vals) + 1, math.inf] if thorough else [max(vals) + 1, math.inf], repeat=d))
    if not thorough and d == 3:
        refs = [r for r in refs if sum(1 for x in r if math.isinf(x)) <= 1]
    for rest in itertools.combinations_with_replacement(cube[first:], n - 1):
        pts = (cube[first],) + rest
        P = np.array(pts, dtype=float)
        mutual = sum(1 for i in range(n) if not any(dominates(pts[j], pts[i]) for j in range(n)))
        if mutual >= 2:
            nontrivial += 1
        if "front" in want:
            got = _is_pareto_front(P, assume_unique_lexsorted=False)
            exp = [not any(dominates(pts[j], pts[i]) for j in range(n)) for i in range(n)]
            evals += 1
            if list(map(bool, got)) != exp:
                bad("_is_pareto_front != non-dominated mask", points=pts, got=list(map(bool, got)), expected=exp)
        if "rank" in want:
            got = list(map(int, _fast_non_domination_rank(P)))
            exp = peel(list(pts))
            evals += 1
            if got != exp:
                bad("_fast_non_domination_rank != front peeling", points=pts, got=got, expected=exp)
            if n <= 3:
                for pen in itertools.product([-1.0, 0.0, 1.0, 2.0, math.nan] if thorough else [-1.0, 1.0, 2.0, math.nan], repeat=n):
                    got = list(map(int, _fast_non_domination_rank(P, penalty=np.array(pen))))
                    exp = peel_rank(list(pts), list(pen))
                    evals += 1
                    if got != exp:
                        bad("constrained _fast_non_domination_rank != constrained peeling", points=pts, penalty=pen, got=got, expected=exp)
        if "hv" in want:
            for ref in refs:
                got = compute_hypervolume(P, np.array(ref, dtype=float))
                exp = grid_volume(pts, ref)
                evals += 1
                if not (got == exp or (math.isinf(got) and math.isinf(exp))):
                    bad("compute_hypervolume != exact dominated volume", points=pts, ref=ref, got=got, expected=exp)
                if mutual < n or len(set(pts)) < n:
                    continue   # assume_pareto=True is only promised for genuinely Pareto (here: also duplicate-free) sets
                got2 = compute_hypervolume(P, np.array(ref, dtype=float), assume_pareto=True)
                evals += 1
                if not (got2 == exp or (math.isinf(got2) and math.isinf(exp))):
                    bad("compute_hypervolume(assume_pareto=True) != exact dominated volume", points=pts, ref=ref, got=got2, expected=exp)
        if "hssp" in want and n >= 2 and d >= 2:
            ref = tuple([max(vals) + 1] * d)
            idx = np.arange(n)
            for k in range(1, n + 1):
                sel = _solve_hssp(P, idx, k, np.array(ref, dtype=float))
                evals += 1
                sel = list(map(int, sel))
                if not (len(sel) == k and len(set(sel)) == k and all(0 <= i < n for i in sel)):
                    bad("_solve_hssp: not k distinct members", points=pts, k=k, got=sel)
                    continue
                hv_sel = grid_volume([pts[i] for i in sel], ref)
                best = max(grid_volume([pts[i] for i in S], ref) for S in itertools.combinations(range(n), k))
                if hv_sel < (1 - 1 / math.e) * best - 1e-12:
                    bad("_solve_hssp below (1-1/e) of the optimum", points=pts, k=k, got=sel, hv=hv_sel, optimum=best)
    return evals, nontrivial, viol


def run(pid, tier, seed):
    import multiprocessing as mp
    from pyvc.frontend import setup_repo_path
    setup_repo_path()
    thorough = tier == "thorough"
    vals = [0, 1, 2, 3] if thorough else [0, 1, 2]
    tasks = []
    for d in (1, 2, 3):
        nmax = (5 if thorough else 4) if d <= 2 else (4 if thorough else 3)
        for n in range(1, nmax + 1):
            for first in range(len(vals) ** d):
                tasks.append((pid, tier, d, n, first))
    ctx = mp.get_context("fork")
    with ctx.Pool(16) as pool:
        res = pool.map(_work, tasks, chunksize=1)
    evals = sum(r[0] for r in res)
    nontrivial = sum(r[1] for r in res)
    viol = [v for r in res for v in r[2]][:6]
    samples = []
    if thorough and pid == "C15":
        import numpy as np
        from optuna.study._multi_objective import _is_pareto_front
        ext = [-math.inf, 0, 1]
        for d in (2, 3):
            for pts in itertools.combinations_with_replacement(list(itertools.product(ext, repeat=d)), 3):
                P = np.array(pts, dtype=float)
                got = list(map(bool, _is_pareto_front(P, assume_unique_lexsorted=False)))
                exp = [not any(dominates(pts[j], pts[i]) for j in range(3)) for i in range(3)]
                evals += 1
                if got != exp and len(viol) < 6:
                    viol.append({"what": "_is_pareto_front with -inf coordinates", "input": {"points": repr(pts), "got": repr(got), "expected": repr(exp)}})
    samples.append({"points": [[0, 2], [1, 1], [1, 1], [2, 0]], "reference": [3, 3],
                    "checked": "hypervolume == exact grid volume, ranks == peeling ranks, front mask, HSSP bound for k=1..4"})
    samples.append({"points": [[0, 0, 2], [0, 0, 2], [1, 2, 0]], "penalty": [1.0, "nan", -1.0], "checked": "constrained rank == constrained peeling"})
    return {"name": "bounded.hv_lattice", "function": "optuna/_hypervolume/wfg.py, hssp.py; optuna/study/_multi_objective.py (_fast_non_domination_rank, _is_pareto_front)",
            "bound": __doc__.split("bound (quick):")[1].strip(), "evaluations": evals, "distinct_nontrivial": nontrivial,
            "rule": "all multisets of lattice points enumerated completely (each multiset once, by its smallest point); a case is "
                    "non-trivial when it has >= 2 mutually non-dominated points", "exhaustive": True, "samples": samples, "violations": viol}
