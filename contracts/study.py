"""Contracts for BaseStorage.get_best_trial (the generic scan used by journal/cached/gRPC storages) and
Study.best_trial incl. the constraint fallback (C12, C20)."""
import z3

from pyvc.contracts import Registry, case, loop
from pyvc.kinds import *  # noqa
from pyvc.state import SV
from contracts import storage_model

R = Registry()
R.merge(storage_model.R)
B = "optuna/storages/_base.py"
SY = "optuna/study/study.py"
I = z3.IntSort()


# --- abstract storage: the current trials of a study ---------------------------------------------------------------
def _as_trial(storage, sid, t):
    """Ghost predicate: t is (the storage's own object for) a current trial of study sid."""
    return uf("as_trial", I, I, I, z3.BoolSort())(storage, sid, t)


@R.specfunc()
def as_trial(eng, st, storage, sid, t):
    return SV(KBool, _as_trial(storage.term, sid.term, t.term))


def _value(eng, st, t):
    vs = eng.get_field(st, t, "_values")
    return eng.list_get(st, vs, z3.IntVal(0)).term


def _better(direction, a, b):
    return z3.If(direction == 2, f_lt(b, a), f_lt(a, b))


@R.specfunc()
def complete_wf(eng, st, storage, sid):
    """COMPLETE trials of a single-objective study carry exactly one non-NaN value (C02: _check_values_are_feasible)."""
    t = z3.Int("cw_t")
    tv = SV(KRef("FrozenTrial"), t)
    vs = eng.get_field(st, tv, "_values")
    vl = vs
    return SV(KBool, qforall([t], z3.Implies(z3.And(_as_trial(storage.term, sid.term, t), eng.get_field(st, tv, "state").term == 1),
                                             z3.And(t > 0, vs.term != 0, eng.list_len(st, vl) == 1, z3.Not(f_is_nan(eng.list_get(st, vl, z3.IntVal(0)).term)))),
                             patterns=[_as_trial(storage.term, sid.term, t)]))


@R.specfunc()
def selected_exactly(eng, st, storage, sid, result, states):
    """result lists exactly the current trials of the study whose state is in `states` (all of them if None)."""
    n = eng.list_len(st, result)
    i, t = z3.Int("se_i"), z3.Int("se_t")
    e = eng.list_get(st, result, i)
    tv = SV(KRef("FrozenTrial"), t)

    def sel(x):
        if states.kind is KNone:
            return z3.BoolVal(True)
        return z3.Or(eng.is_none(st, states), eng.contains(st, eng.coerce(st, states, states.kind.inner) if isinstance(states.kind, KOpt) else states,
                                                            eng.get_field(st, x, "state")))
    w = uf("sel_pos", I, I, I)(result.term, t)
    return SV(KBool, z3.And(
        qforall([i], z3.Implies(z3.And(0 <= i, i < n), z3.And(_as_trial(storage.term, sid.term, e.term), sel(e))), patterns=[e.term]),
        qforall([t], z3.Implies(z3.And(_as_trial(storage.term, sid.term, t), sel(tv)),
                                z3.And(0 <= w, w < n, eng.list_get(st, result, w).term == t)), patterns=[_as_trial(storage.term, sid.term, t)])))


R.spec(B, "BaseStorage.get_all_trials", trusted=True, types={"states": "list[TrialState] | None"}, returns_kind="list[FrozenTrial]",
       requires=["not deepcopy"],
       cases=[case("missing", when="nondet()", raises="KeyError"),
              case("ok", ensures=["fresh(result)", "selected_exactly(self, study_id, result, states)"])],
       note="assumed AS contract (proved for InMemoryStorage under C01): with deepcopy=False the result lists exactly the "
            "study's current trial objects whose state is selected")
R.spec(B, "BaseStorage.get_study_directions", trusted=True, returns_kind="list[StudyDirection]",
       cases=[case("missing", when="nondet()", raises="KeyError"),
              case("ok", ensures=["len(result) >= 1", "result is as_directions(self, study_id)",
                                  "forall(lambda i: implies(0 <= i and i < len(result), result[i] != StudyDirection.NOT_SET), trigger=result[i])"])])


@R.specfunc()
def as_directions(eng, st, storage, sid):
    return SV(KList(KEnum(optuna_direction())), uf("as_directions", I, I, I)(storage.term, sid.term))


def optuna_direction():
    import optuna
    return optuna.study.StudyDirection


@R.specfunc()
def unbeaten(eng, st, storage, sid, res, direction, only_feasible):
    """No current COMPLETE (feasible, if only_feasible) trial of the study has a strictly better value than res."""
    t = z3.Int("ub_t")
    tv = SV(KRef("FrozenTrial"), t)
    cond = z3.And(_as_trial(storage.term, sid.term, t), eng.get_field(st, tv, "state").term == 1)
    if only_feasible.term is not None and not z3.is_false(only_feasible.term):
        cond = z3.And(cond, z3.Implies(only_feasible.term, _feasible(eng, st, tv)))
    return SV(KBool, qforall([t], z3.Implies(cond, z3.Not(_better(direction.term, _value(eng, st, tv), _value(eng, st, res)))),
                             patterns=[_as_trial(storage.term, sid.term, t)]))


def _feasible(eng, st, t):
    return uf("feasible_trial", I, z3.BoolSort())(t.term)


R.spec("optuna/trial/_frozen.py", "FrozenTrial.value", inline=True)

R.spec(B, "BaseStorage.get_best_trial", props=["C12"],
       requires=["complete_wf(self, study_id)"],
       cases=[case("missing", when="nondet()", raises="KeyError", any_outcome=True),
              case("ok", any_outcome=True, ensures_return=[
                  "as_trial(self, study_id, result) and result.state == TrialState.COMPLETE",
                  "len(as_directions(self, study_id)) == 1",
                  "unbeaten(self, study_id, result, as_directions(self, study_id)[0], False)"])],
       modifies=["L:*:list<ref:FrozenTrial>", "L:*:list<enum:TrialState>", "L:*:list<enum:StudyDirection>", "G:is_tuple"])


# --- constraint fallback ---------------------------------------------------------------------------------------------
CO = "optuna/study/_constrained_optimization.py"
FEAS = "(%s.system_attrs.get(_CONSTRAINTS_KEY) is not None and all(x <= 0.0 for x in %s.system_attrs.get(_CONSTRAINTS_KEY)))"
R.spec("optuna/trial/_frozen.py", "FrozenTrial.system_attrs", inline=True)


def feas(x):
    return FEAS % (x, x)


R.spec(CO, "_get_feasible_trials", trusted=True, types={"trials": "list[FrozenTrial]"}, returns_kind="list[FrozenTrial]",
       cases=[case("ok", ensures=[
           "fresh(result)", "only_fresh_modified()",
           "forall(lambda i: implies(0 <= i and i < len(result), feasible_trial(result[i]) and 0 <= src_pos(result, i) and "
           "src_pos(result, i) < len(trials) and result[i] is trials[src_pos(result, i)]), trigger=result[i])",
           "forall(lambda j: implies(0 <= j and j < len(trials) and feasible_trial(trials[j]), 0 <= dst_pos(result, j) and "
           "dst_pos(result, j) < len(result) and result[dst_pos(result, j)] is trials[j]), trigger=trials[j])"])],
       modifies=["L:*:list<ref:FrozenTrial>", "G:is_tuple"],
       note="assumed: returns exactly the trials of the argument whose recorded constraints are all <= 0 (feasible_trial is "
            "uninterpreted: the Any-typed constraint list makes the loop's obligations time out; not counted as proved)")


@R.specfunc()
def feasible_trial(eng, st, t):
    return SV(KBool, _feasible(eng, st, t))


@R.specfunc()
def src_pos(eng, st, lst, i):
    return SV(KInt, uf("src_pos", I, I, I)(lst.term, i.term))


@R.specfunc()
def dst_pos(eng, st, lst, j):
    return SV(KInt, uf("dst_pos", I, I, I)(lst.term, j.term))


# --- Study.best_trial ------------------------------------------------------------------------------------------------
R.spec(SY, "Study._is_multi_objective", inline=True)
R.spec(SY, "Study.directions", inline=True)
R.spec(SY, "Study.get_trials", inline=True)
R.spec(SY, "Study._get_trials", inline=True)
R.spec(SY, "Study.direction", inline=True)


@R.specfunc()
def copy_of_best(eng, st, self_sv, result):
    """result is a deep copy of a current COMPLETE trial t* of the study that no COMPLETE trial beats, or -- constraint
    fallback -- a feasible one that no feasible COMPLETE trial beats."""
    storage = eng.get_field(st, self_sv, "_storage")
    sid = eng.get_field(st, self_sv, "_study_id")
    d = eng.list_get(st, eng.get_field(st, self_sv, "_directions"), z3.IntVal(0))
    t = z3.Int("cb_t")
    tv = SV(KRef("FrozenTrial"), t)
    same = z3.And(eng.get_field(st, tv, "_number").term == eng.get_field(st, result, "_number").term,
                  eng.get_field(st, tv, "_trial_id").term == eng.get_field(st, result, "_trial_id").term,
                  _value(eng, st, tv) == _value(eng, st, result))
    u_all = R.specfuncs["unbeaten"](eng, st, storage, sid, tv, d, SV(KBool, z3.BoolVal(False))).term
    u_feas = R.specfuncs["unbeaten"](eng, st, storage, sid, tv, d, SV(KBool, z3.BoolVal(True))).term
    ctx = eng.spec_stack[-1]
    return SV(KBool, z3.Exists([t], z3.And(t > 0, _as_trial(storage.term, sid.term, t), eng.get_field(st, tv, "state").term == 1, same,
                                           z3.Or(u_all, z3.And(_feasible(eng, st, tv), u_feas)))))


R.spec(SY, "Study.best_trial", props=["C12", "C20"],
       requires=["complete_wf(self._storage, self._study_id)", "len(self._directions) >= 1",
                 "self._directions is as_directions(self._storage, self._study_id)"],
       cases=[case("multi", when="len(self._directions) > 1", raises="RuntimeError"),
              case("ok", any_outcome=True, ensures_return=[
                  # C20: what the caller gets is a fresh deep copy (the frame obligations show nothing old was written)
                  "fresh(result)", "fresh(result._params) and fresh(result._user_attrs) and fresh(result._system_attrs) and "
                  "fresh(result.intermediate_values) and fresh(result._distributions)",
                  "result.state == TrialState.COMPLETE",
                  # C12
                  "copy_of_best(self, result)"])],
       modifies=["L:*", "D:*", "F:FrozenTrial.*", "G:is_tuple"])


# --- C20: attribute dictionaries handed out by the Study API are private copies -------------------------------------------------
R.spec(B, "BaseStorage.get_study_user_attrs", trusted=True, returns_kind="dict[str, Any]",
       cases=[case("missing", when="nondet()", raises="KeyError"), case("ok", ensures=["result is not None"])],
       note="assumed: returns the study's attribute dict (possibly the storage's own object)")
R.spec(B, "BaseStorage.get_study_system_attrs", trusted=True, returns_kind="dict[str, Any]",
       cases=[case("missing", when="nondet()", raises="KeyError"), case("ok", ensures=["result is not None"])],
       note="assumed: returns the study's attribute dict (possibly the storage's own object)")


@R.specfunc()
def same_entries(eng, st, a, b):
    k = z3.String("se_k")
    key = SV(KStr, k)
    ha, hb = eng.dict_has(st, a, key), eng.dict_has(st, b, key)
    return SV(KBool, qforall([k], z3.And(ha == hb, z3.Implies(ha, eng.dict_get(st, a, key).term == eng.dict_get(st, b, key).term)), patterns=[ha, hb]))


for _nm in ("user_attrs", "system_attrs"):
    R.spec(SY, "Study." + _nm, props=["C20"], returns_kind="dict[str, Any]",
           cases=[case("any", any_outcome=True, ensures_return=[
               # a later write to the study's attributes (a new dict or an in-place update of the storage's own) cannot show
               # through: the caller holds a fresh dict object
               "fresh(result)"])],
           modifies=["D:*:dict<str,val>", "L:*:list<val>", "G:is_tuple"])


# --- best_value / best_params: read off the best trial ------------------------------------------------------------------------
@R.specfunc()
def value_of_best(eng, st, self_sv, x):
    """x is the objective value of a current COMPLETE trial of the study that no COMPLETE trial beats -- or, in the constraint
    fallback, of a feasible one that no feasible COMPLETE trial beats."""
    storage = eng.get_field(st, self_sv, "_storage")
    sid = eng.get_field(st, self_sv, "_study_id")
    d = eng.list_get(st, eng.get_field(st, self_sv, "_directions"), z3.IntVal(0))
    t = z3.Int("vb_t")
    tv = SV(KRef("FrozenTrial"), t)
    u_all = R.specfuncs["unbeaten"](eng, st, storage, sid, tv, d, SV(KBool, z3.BoolVal(False))).term
    u_feas = R.specfuncs["unbeaten"](eng, st, storage, sid, tv, d, SV(KBool, z3.BoolVal(True))).term
    xt = eng.coerce(st, x, KFloat).term
    return SV(KBool, z3.Exists([t], z3.And(t > 0, _as_trial(storage.term, sid.term, t), eng.get_field(st, tv, "state").term == 1,
                                           _value(eng, st, tv) == xt, z3.Or(u_all, z3.And(_feasible(eng, st, tv), u_feas)))))


R.contracts[(SY, "Study.best_trial")].no_self_inline = True
R.spec(SY, "Study.best_value", props=["C12"], returns_kind="float",
       requires=list(R.contracts[(SY, "Study.best_trial")].requires),
       cases=[case("any", any_outcome=True, ensures_return=["value_of_best(self, result)"])],
       modifies=["L:*", "D:*", "F:FrozenTrial.*", "G:is_tuple"])
