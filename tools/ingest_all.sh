#!/bin/sh
# (re-)confirm every seeded change in seeded_inbox/ and record which checks catch it; pass --recheck to repeat only the checks
cd /verif
P=.venv/bin/python
R="$1"
$P tools/ingest_seed.py C01 a $R tests/storages_tests/test_storages.py
$P tools/ingest_seed.py C01 b $R tests/storages_tests/journal_tests tests/storages_tests/test_storages.py
$P tools/ingest_seed.py C02 a $R tests/study_tests/test_optimize.py tests/study_tests/test_study.py
$P tools/ingest_seed.py C02 b $R tests/study_tests/test_optimize.py tests/study_tests/test_study.py
$P tools/ingest_seed.py C03 a $R --also C12 tests/storages_tests/test_storages.py
$P tools/ingest_seed.py C03 b $R --also C12 tests/storages_tests/test_storages.py
$P tools/ingest_seed.py C04 a $R tests/storages_tests/journal_tests tests/study_tests/test_study.py
$P tools/ingest_seed.py C04 b $R tests/storages_tests/test_storages.py tests/study_tests/test_study.py
$P tools/ingest_seed.py C05 a $R --also C07 tests/storages_tests/journal_tests
$P tools/ingest_seed.py C05 b $R tests/storages_tests/test_storages.py
$P tools/ingest_seed.py C06 a $R tests/storages_tests/journal_tests
$P tools/ingest_seed.py C06 b $R tests/storages_tests/journal_tests
$P tools/ingest_seed.py C07 a $R --also C05 tests/storages_tests/journal_tests
$P tools/ingest_seed.py C07 b $R --also C05 tests/storages_tests/journal_tests
$P tools/ingest_seed.py C08 a $R tests/storages_tests/test_cached_storage.py tests/storages_tests/test_storages.py
$P tools/ingest_seed.py C08 b $R tests/storages_tests/test_storages.py
$P tools/ingest_seed.py C09 a $R tests/samplers_tests/tpe_tests
$P tools/ingest_seed.py C09 b $R --also C16 tests/pruners_tests
$P tools/ingest_seed.py C10 a $R tests/trial_tests tests/samplers_tests/test_samplers.py
$P tools/ingest_seed.py C10 b $R tests/trial_tests tests/study_tests/test_study.py
$P tools/ingest_seed.py C11 a $R --also C10 tests/test_distributions.py tests/test_transform.py tests/trial_tests
$P tools/ingest_seed.py C11 b $R --also C10 tests/test_distributions.py tests/test_transform.py tests/samplers_tests/test_samplers.py
$P tools/ingest_seed.py C12 a $R --also C20 tests/study_tests/test_study.py
$P tools/ingest_seed.py C12 b $R --also C03 tests/storages_tests/test_storages.py tests/study_tests/test_study.py
$P tools/ingest_seed.py C13 a $R --also C16 tests/pruners_tests
$P tools/ingest_seed.py C13 b $R --also C16 tests/pruners_tests
$P tools/ingest_seed.py C14 a $R tests/samplers_tests/test_brute_force.py tests/samplers_tests/test_grid.py
$P tools/ingest_seed.py C14 b $R tests/samplers_tests/test_brute_force.py tests/samplers_tests/test_grid.py
$P tools/ingest_seed.py C16 a $R tests/pruners_tests
$P tools/ingest_seed.py C16 b $R --also C13 tests/pruners_tests
$P tools/ingest_seed.py C17 a $R tests/search_space_tests
$P tools/ingest_seed.py C17 b $R tests/search_space_tests
$P tools/ingest_seed.py C19 a $R tests/storages_tests/test_heartbeat.py
$P tools/ingest_seed.py C19 b $R tests/storages_tests/test_heartbeat.py
$P tools/ingest_seed.py C20 a $R --also C02 tests/study_tests/test_study.py tests/study_tests/test_optimize.py
$P tools/ingest_seed.py C20 b $R --also C12 tests/study_tests/test_study.py
