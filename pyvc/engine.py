"""pyvc engine: symbolic execution of the real Python AST with path splitting, a Burstall heap,
behaviour-case contracts, loop invariants, and obligation generation.

See DESIGN.md section 3 / appendix D.  The engine is deliberately a *direct-style* interpreter: one
State per path, control flow through Python exceptions, paths enumerated by re-execution along
recorded decision prefixes (State.decide / State.branch).
"""
from __future__ import annotations

import ast
import enum
import inspect
import math
import re

import z3

from .kinds import *  # noqa
from .state import *  # noqa
from .contracts import Contract, Case, LoopSpec, Registry
from .frontend import Frontend, FuncInfo


class EmptyLit:
    def __init__(self, what):
        self.what = what

    def __repr__(self):
        return "EmptyLit(%s)" % self.what


class BoundMethod:
    def __init__(self, recv: SV, name: str, func=None):
        self.recv = recv
        self.name = name
        self.func = func


class Frame:
    def __init__(self, fi: FuncInfo | None, env: dict, module, contract: Contract | None = None):
        self.fi = fi
        self.env = env
        self.module = module
        self.contract = contract
        self.loop_ord = 0
        self.ann: dict = {}


_LOGGER_NAMES = {"_logger", "logger", "warnings", "logging"}


class Engine:
    def __init__(self, registry: Registry, frontend: Frontend):
        self.reg = registry
        self.fe = frontend
        self.builtins: dict = {}
        self.methods: dict = {}
        self.spec_mode = 0
        self.inline_depth = 0
        self.max_inline = 7
        self.lazy_empty = True
        self.class_ids: dict = {}
        from . import lib
        lib.install(self)
        for fn, h in self.reg.rt_helpers.get("builtins", {}).items():
            self.builtins[fn] = h
        for key, h in self.reg.rt_helpers.get("methods", {}).items():
            self.methods[key] = h
        self.preregister()

    def preregister(self):
        """Register the heap arrays of every schema field (and of the container kinds they mention)
        so that `modifies` patterns can be expanded before the arrays are first touched."""
        self._heap_kinds.setdefault("G:is_tuple", KBool)
        self._heap_kinds.setdefault("G:dynclass", KInt)

        def reg_kind(k):
            if isinstance(k, KList):
                self.lnames(k)
                reg_kind(k.elem)
            elif isinstance(k, KDict):
                self.dnames(k)
                reg_kind(k.v)
            elif isinstance(k, KSet):
                self.snames(k)
        for cls, fields in list(self.reg.schemas.items()):
            for f in fields:
                try:
                    name, kind = self.fname(cls, f)
                    reg_kind(kind)
                except Unsupported:
                    pass

    # ---------------------------------------------------------------------------------------
    # kinds / types

    def class_by_name(self, name):
        if name in self.reg.classes:
            return self.reg.classes[name]
        return None

    def register_class(self, cls):
        self.reg.classes.setdefault(cls.__name__, cls)
        return cls.__name__

    def kind_of_class(self, cls) -> Kind:
        if inspect.isclass(cls) and issubclass(cls, enum.Enum):
            return KEnum(cls)
        self.register_class(cls)
        return KRef(cls.__name__)

    def parse_type(self, t, module=None) -> Kind:
        if isinstance(t, Kind):
            return t
        if isinstance(t, str):
            region = ""
            s = t.strip()
            m = re.match(r"^(.*)@(\w+)$", s)
            if m and "[" not in m.group(2):
                s, region = m.group(1).strip(), m.group(2)
            node = ast.parse(s, mode="eval").body
            k = self._parse_type_node(node, module)
            if region:
                k = self._with_region(k, region)
            return k
        if isinstance(t, ast.AST):
            return self._parse_type_node(t, module)
        raise Unsupported("type %r" % (t,))

    def _with_region(self, k, region):
        if isinstance(k, KDict):
            return KDict(k.k, k.v, region)
        if isinstance(k, KList):
            return KList(k.elem, region)
        if isinstance(k, KSet):
            return KSet(k.elem, region)
        return k

    def _parse_type_node(self, n, module) -> Kind:
        if isinstance(n, ast.Constant):
            if n.value is None:
                return KNone
            if isinstance(n.value, str):
                return self.parse_type(n.value, module)
        if isinstance(n, ast.BinOp) and isinstance(n.op, ast.BitOr):
            ks = [self._parse_type_node(x, module) for x in self._flatten_or(n)]
            return self._union(ks)
        if isinstance(n, ast.BinOp) and isinstance(n.op, ast.MatMult):
            k = self._parse_type_node(n.left, module)
            return self._with_region(k, n.right.id)
        if isinstance(n, ast.Name) or isinstance(n, ast.Attribute):
            name = n.id if isinstance(n, ast.Name) else n.attr
            simple = {"int": KInt, "float": KFloat, "bool": KBool, "str": KStr, "None": KNone,
                      "Any": KVal, "JSONSerializable": KVal, "object": KVal, "bytes": KStr,
                      "Real": KFloat}
            if name in simple:
                return simple[name]
            if name in ("Callable",):
                return KRef("callable")
            if name in ("datetime",):
                return KRef("datetime")
            if name in ("dict", "Dict", "Mapping"):
                return KDict(KStr, KVal)
            if name in ("list", "List", "Sequence"):
                return KList(KVal)
            cls = self.class_by_name(name)
            if cls is None and module is not None:
                obj = getattr(module, name, None)
                if obj is None and isinstance(n, ast.Attribute):
                    try:
                        base = self._resolve_static(n.value, module)
                        obj = getattr(base, name, None)
                    except Exception:
                        obj = None
                if inspect.isclass(obj):
                    cls = obj
            if cls is not None:
                return self.kind_of_class(cls)
            return KRef(name)
        if isinstance(n, ast.Subscript):
            base = n.value.id if isinstance(n.value, ast.Name) else n.value.attr
            sl = n.slice
            args = list(sl.elts) if isinstance(sl, ast.Tuple) else [sl]
            if base in ("Optional",):
                return self._union([self._parse_type_node(args[0], module), KNone])
            if base in ("Union",):
                return self._union([self._parse_type_node(a, module) for a in args])
            if base in ("list", "List", "Sequence", "Container", "Iterable", "Collection"):
                return KList(self._parse_type_node(args[0], module))
            if base in ("dict", "Dict", "Mapping"):
                return KDict(self._parse_type_node(args[0], module), self._parse_type_node(args[1], module))
            if base in ("set", "Set", "frozenset"):
                return KSet(self._parse_type_node(args[0], module))
            if base in ("tuple", "Tuple"):
                if len(args) == 2 and isinstance(args[1], ast.Constant) and args[1].value is Ellipsis:
                    return KList(self._parse_type_node(args[0], module))
                return KTuple([self._parse_type_node(a, module) for a in args])
            if base in ("Callable", "type"):
                return KRef("callable")
            if base == "ref":
                nm = args[0].id if isinstance(args[0], ast.Name) else args[0].value
                return KRef(nm)
        raise Unsupported("type annotation %s" % ast.dump(n))

    def _flatten_or(self, n):
        if isinstance(n, ast.BinOp) and isinstance(n.op, ast.BitOr):
            return self._flatten_or(n.left) + self._flatten_or(n.right)
        return [n]

    def _union(self, ks):
        non = [k for k in ks if k is not KNone]
        has_none = len(non) != len(ks)
        uniq = []
        for k in non:
            if k not in uniq:
                uniq.append(k)
        if len(uniq) == 0:
            return KNone
        if len(uniq) > 1:
            if set(u.key() for u in uniq) <= {"int", "float"}:
                base = KFloat
            else:
                base = KVal
        else:
            base = uniq[0]
        if has_none and not is_refkind(base) and base is not KVal:
            return KOpt(base)
        if has_none and is_refkind(base):
            import copy as _c
            base = _c.copy(base)
            base.nullable = True
        return base

    def _resolve_static(self, n, module):
        if isinstance(n, ast.Name):
            return getattr(module, n.id)
        if isinstance(n, ast.Attribute):
            return getattr(self._resolve_static(n.value, module), n.attr)
        raise Unsupported("static resolve")

    # ---------------------------------------------------------------------------------------
    # class schema

    def field_decl(self, clsname, field):
        """Return (declaring class name, Kind) of an instance field, searching the MRO."""
        cls = self.class_by_name(clsname)
        names = [c.__name__ for c in cls.__mro__] if cls is not None else [clsname]
        for nm in names:
            sch = self.reg.schemas.get(nm)
            if sch and field in sch:
                c = self.class_by_name(nm)
                mod = inspect.getmodule(c) if c is not None else None
                return nm, self.parse_type(sch[field], mod)
        # no sidecar schema: fall back to the annotation the real class itself declares (`self.f: T = ...` in a
        # method, or a class-level `f: T`), read from the source on every run
        for c in (cls.__mro__ if cls is not None else ()):
            ann = self._auto_schema(c)
            if field in ann:
                try:
                    return c.__name__, self.parse_type(ann[field], inspect.getmodule(c))
                except Unsupported:
                    return None, None
        return None, None

    def _auto_schema(self, c):
        cache = self.__dict__.setdefault("_auto_schemas", {})
        if c in cache:
            return cache[c]
        out = {}
        cache[c] = out
        try:
            fi = self.fe.class_ast(c)
        except Exception:
            fi = None
        if fi is None:
            return out
        import ast as _ast
        for n in _ast.walk(fi):
            if isinstance(n, _ast.AnnAssign) and isinstance(n.target, _ast.Attribute) and isinstance(n.target.value, _ast.Name) \
                    and n.target.value.id == "self":
                out.setdefault(n.target.attr, _ast.unparse(n.annotation))
        # un-annotated `self.f = <literal>`: the literal's type
        lit = {int: "int", bool: "bool", float: "float", str: "str"}
        for n in _ast.walk(fi):
            if isinstance(n, _ast.Assign) and len(n.targets) == 1 and isinstance(n.targets[0], _ast.Attribute) \
                    and isinstance(n.targets[0].value, _ast.Name) and n.targets[0].value.id == "self" \
                    and isinstance(n.value, _ast.Constant) and type(n.value.value) in lit:
                out.setdefault(n.targets[0].attr, lit[type(n.value.value)])
        return out

    # ---------------------------------------------------------------------------------------
    # heap

    def heap_sort(self, name):
        tag = name.split(":", 1)[0]
        I = z3.IntSort()
        if tag == "F":
            k = self._heap_kinds[name]
            return z3.ArraySort(I, sort_of(k))
        k = self._heap_kinds[name]
        sub = name.split(":")[1]
        if tag == "L":
            if sub == "n":
                return z3.ArraySort(I, I)
            return z3.ArraySort(I, z3.ArraySort(I, sort_of(k.elem)))
        if tag == "D":
            if sub == "n":
                return z3.ArraySort(I, I)
            if sub == "h":
                return z3.ArraySort(I, z3.ArraySort(sort_of(k.k), z3.BoolSort()))
            return z3.ArraySort(I, z3.ArraySort(sort_of(k.k), sort_of(k.v)))
        if tag == "S":
            if sub == "n":
                return z3.ArraySort(I, I)
            return z3.ArraySort(I, z3.ArraySort(sort_of(k.elem), z3.BoolSort()))
        if tag == "G":
            return z3.ArraySort(I, sort_of(k))
        raise Unsupported("heap array " + name)

    _heap_kinds: dict = {}

    def harr(self, st: State, name: str, kind: Kind = None):
        if name not in st.heap:
            if kind is not None:
                self._heap_kinds.setdefault(name, kind)
            if name not in self._heap_kinds:
                raise Unsupported("unknown heap array " + name)
            arr = z3.Const("H0|" + name, self.heap_sort(name))
            st.heap[name] = arr
            st.heap0[name] = arr
            self.wf_axioms(st, name, arr, st.nref0)
        return st.heap[name]

    def set_harr(self, st, name, arr):
        self.harr(st, name)
        st.heap[name] = arr

    def havoc_harr(self, st, name):
        self.harr(st, name)
        arr = st.fresh("H|" + name, self.heap_sort(name))
        st.heap[name] = arr
        self.wf_axioms(st, name, arr, st.nref)
        return arr

    def wf_axioms(self, st, name, arr, bound):
        """Well-formed heap: stored references are allocated (0 <= r < allocation pointer),
        lengths and sizes are non-negative."""
        k = self._heap_kinds[name]
        tag, sub = name.split(":")[0], name.split(":")[1]
        r = z3.Int("wf_r")
        i = z3.Int("wf_i")
        def enum_ok(t, kk):
            return z3.Or([t == int(m.value) for m in kk.cls])
        if tag in ("F", "G") and isinstance(k, KEnum):
            st.assume(qforall([r], enum_ok(arr[r], k), patterns=[arr[r]]), quantified=True)
        elif tag == "L" and sub == "e" and isinstance(k.elem, KEnum):
            st.assume(qforall([r, i], enum_ok(arr[r][i], k.elem), patterns=[arr[r][i]]), quantified=True)
        elif tag == "D" and sub == "v" and isinstance(k.v, KEnum):
            kk = z3.Const("wf_k", sort_of(k.k))
            st.assume(qforall([r, kk], enum_ok(arr[r][kk], k.v), patterns=[arr[r][kk]]), quantified=True)
        if tag in ("F", "G") and k is KVal:
            st.assume(qforall([r], val_wf(arr[r], bound), patterns=[arr[r]]), quantified=True)
        elif tag == "L" and sub == "e" and k.elem is KVal:
            st.assume(qforall([r, i], val_wf(arr[r][i], bound), patterns=[arr[r][i]]), quantified=True)
        elif tag == "D" and sub == "v" and k.v is KVal:
            kk = z3.Const("wf_k", sort_of(k.k))
            st.assume(qforall([r, kk], val_wf(arr[r][kk], bound), patterns=[arr[r][kk]]), quantified=True)
        if tag in ("F", "G"):
            if is_refkind(k):
                body = z3.And((arr[r] >= 0) if k.nullable else (arr[r] > 0), arr[r] < bound)
                st.assume(qforall([r], body, patterns=[arr[r]]), quantified=True)
        elif sub == "n":
            st.assume(qforall([r], arr[r] >= 0, patterns=[arr[r]]), quantified=True)
        elif tag == "L" and sub == "e":
            if is_refkind(k.elem):
                body = z3.And((arr[r][i] >= 0) if k.elem.nullable else (arr[r][i] > 0), arr[r][i] < bound)
                st.assume(qforall([r, i], body, patterns=[arr[r][i]]), quantified=True)
        elif tag == "D" and sub == "v":
            if is_refkind(k.v):
                kk = z3.Const("wf_k", sort_of(k.k))
                body = z3.And((arr[r][kk] >= 0) if k.v.nullable else (arr[r][kk] > 0), arr[r][kk] < bound)
                st.assume(qforall([r, kk], body, patterns=[arr[r][kk]]), quantified=True)

    def alloc(self, st: State) -> z3.ExprRef:
        r = st.nref
        st.nref = z3.simplify(st.nref + 1)
        return r

    # object fields -------------------------------------------------------------------------
    def fname(self, clsname, field):
        decl, kind = self.field_decl(clsname, field)
        if decl is None:
            raise Unsupported("no schema for field %s.%s" % (clsname, field))
        name = "F:%s.%s" % (decl, field)
        self._heap_kinds.setdefault(name, kind)
        return name, kind

    def get_field(self, st, obj: SV, field: str, node=None) -> SV:
        name, kind = self.fname(obj.kind.cls, field)
        self.check_guard(st, obj, field, node, write=False)
        arr = self.harr(st, name)
        t = arr[obj.term]
        sv = SV(kind, t)
        if is_refkind(kind) and not self.spec_mode:
            st.assume(z3.And((t >= 0) if kind.nullable else (t > 0), t < st.nref))
        self.propagate_guard(obj, sv, field)
        return sv

    def set_field(self, st, obj: SV, field: str, val: SV, node=None):
        name, kind = self.fname(obj.kind.cls, field)
        self.check_guard(st, obj, field, node, write=True)
        v = self.coerce(st, val, kind, node)
        arr = self.harr(st, name)
        st.heap[name] = z3.Store(arr, obj.term, v.term)

    # guarded-by discipline (C03) ------------------------------------------------------------
    def check_guard(self, st, obj: SV, field, node, write):
        if self.spec_mode:
            return
        g = getattr(obj, "guard", None) if hasattr(obj, "guard") else None
        cls = obj.kind.cls if isinstance(obj.kind, KRef) else None
        lock = None
        if cls is not None:
            c = self.class_by_name(cls)
            names = [x.__name__ for x in c.__mro__] if c is not None else [cls]
            for nm in names:
                if nm in self.reg.guarded:
                    spec = self.reg.guarded[nm]
                    if field != spec["lock"] and (spec.get("fields", "*") == "*" or field in spec["fields"]):
                        lock = nm + "." + spec["lock"]
                    break
        if lock is None:
            lock = _guard_of(obj)
        if lock is None:
            return
        if not getattr(st, "guard_active", False):
            return
        held = lock in st.held
        line = getattr(node, "lineno", 0)
        st.oblige("guarded-by/%s.%s@%s" % (cls or obj.kind.key(), field, "w" if write else "r"),
                  z3.BoolVal(held), kind="guarded-by",
                  where="line %s" % line, info={"lock": lock, "line": line, "field": field, "write": write},
                  assume_after=False)

    def propagate_guard(self, src: SV, dst: SV, field=None):
        """Values read from a lock-guarded object stay guarded while they are mutable containers or
        objects owned by it (FrozenTrial snapshots are replaced, never mutated: not guarded)."""
        lock = src.guard
        cls = src.kind.cls if isinstance(src.kind, KRef) else None
        if cls is not None:
            c = self.class_by_name(cls)
            names = [x.__name__ for x in c.__mro__] if c is not None else [cls]
            for nm in names:
                if nm in self.reg.guarded and field != self.reg.guarded[nm]["lock"]:
                    lock = nm + "." + self.reg.guarded[nm]["lock"]
                    break
        if lock is not None and is_refkind(dst.kind):
            if isinstance(dst.kind, KRef) and dst.kind.cls in self.reg.guard_stop:
                return
            dst.guard = lock

    # lists ----------------------------------------------------------------------------------
    def lnames(self, kind: KList):
        key = kind.key()
        n, e = "L:n:" + key, "L:e:" + key
        self._heap_kinds.setdefault(n, kind)
        self._heap_kinds.setdefault(e, kind)
        return n, e

    def list_len(self, st, l: SV):
        n, _ = self.lnames(l.kind)
        return self.harr(st, n)[l.term]

    def list_get(self, st, l: SV, i) -> SV:
        _, e = self.lnames(l.kind)
        t = self.harr(st, e)[l.term][i]
        sv = SV(l.kind.elem, t)
        if is_refkind(l.kind.elem) and not self.spec_mode:
            st.assume(z3.And((t >= 0) if l.kind.elem.nullable else (t > 0), t < st.nref))
        _copy_guard(l, sv)
        return sv

    def list_set(self, st, l: SV, i, v: SV, node=None):
        _, e = self.lnames(l.kind)
        v = self.coerce(st, v, l.kind.elem, node)
        arr = self.harr(st, e)
        st.heap[e] = z3.Store(arr, l.term, z3.Store(arr[l.term], i, v.term))

    def list_append(self, st, l: SV, v: SV, node=None):
        n, e = self.lnames(l.kind)
        ln = self.harr(st, n)
        cur = ln[l.term]
        self.list_set(st, l, cur, v, node)
        st.heap[n] = z3.Store(self.harr(st, n), l.term, cur + 1)

    def new_list(self, st, kind: KList, length=None) -> SV:
        r = self.alloc(st)
        n, e = self.lnames(kind)
        ln = self.harr(st, n)
        self.harr(st, e)
        st.heap[n] = z3.Store(ln, r, z3.IntVal(0) if length is None else length)
        return SV(kind, r)

    # dicts ----------------------------------------------------------------------------------
    def dnames(self, kind):
        key = kind.key()
        names = ("D:h:" + key, "D:v:" + key, "D:n:" + key)
        for x in names:
            self._heap_kinds.setdefault(x, kind)
        return names

    def dict_has(self, st, d: SV, k: SV):
        h, _, _ = self.dnames(d.kind)
        return self.harr(st, h)[d.term][k.term]

    def dict_get(self, st, d: SV, k: SV) -> SV:
        _, v, _ = self.dnames(d.kind)
        t = self.harr(st, v)[d.term][k.term]
        sv = SV(d.kind.v, t)
        if is_refkind(d.kind.v) and not self.spec_mode:
            st.assume(z3.And((t >= 0) if d.kind.v.nullable else (t > 0), t < st.nref))
        _copy_guard(d, sv)
        return sv

    def dict_size(self, st, d: SV):
        _, _, n = self.dnames(d.kind)
        return self.harr(st, n)[d.term]

    def dict_set(self, st, d: SV, k: SV, val: SV, node=None):
        h, v, n = self.dnames(d.kind)
        val = self.coerce(st, val, d.kind.v, node)
        ha, va, na = self.harr(st, h), self.harr(st, v), self.harr(st, n)
        had = ha[d.term][k.term]
        st.heap[n] = z3.Store(na, d.term, na[d.term] + z3.If(had, 0, 1))
        st.heap[h] = z3.Store(ha, d.term, z3.Store(ha[d.term], k.term, z3.BoolVal(True)))
        st.heap[v] = z3.Store(va, d.term, z3.Store(va[d.term], k.term, val.term))

    def dict_del(self, st, d: SV, k: SV):
        h, v, n = self.dnames(d.kind)
        ha, na = self.harr(st, h), self.harr(st, n)
        had = ha[d.term][k.term]
        st.heap[n] = z3.Store(na, d.term, na[d.term] - z3.If(had, 1, 0))
        st.heap[h] = z3.Store(ha, d.term, z3.Store(ha[d.term], k.term, z3.BoolVal(False)))

    def new_dict(self, st, kind: KDict) -> SV:
        r = self.alloc(st)
        h, v, n = self.dnames(kind)
        ha, na = self.harr(st, h), self.harr(st, n)
        self.harr(st, v)
        st.heap[h] = z3.Store(ha, r, z3.K(sort_of(kind.k), z3.BoolVal(False)))
        st.heap[n] = z3.Store(na, r, z3.IntVal(0))
        return SV(kind, r)

    def copy_dict(self, st, d: SV) -> SV:
        r = self.alloc(st)
        h, v, n = self.dnames(d.kind)
        ha, va, na = self.harr(st, h), self.harr(st, v), self.harr(st, n)
        st.heap[h] = z3.Store(ha, r, ha[d.term])
        st.heap[v] = z3.Store(va, r, va[d.term])
        st.heap[n] = z3.Store(na, r, na[d.term])
        return SV(d.kind, r)

    def copy_list(self, st, l: SV) -> SV:
        r = self.alloc(st)
        n, e = self.lnames(l.kind)
        na, ea = self.harr(st, n), self.harr(st, e)
        st.heap[n] = z3.Store(na, r, na[l.term])
        st.heap[e] = z3.Store(ea, r, ea[l.term])
        return SV(l.kind, r)

    # sets -----------------------------------------------------------------------------------
    def snames(self, kind):
        key = kind.key()
        names = ("S:h:" + key, "S:n:" + key)
        for x in names:
            self._heap_kinds.setdefault(x, kind)
        return names

    def new_set(self, st, kind: KSet) -> SV:
        r = self.alloc(st)
        h, n = self.snames(kind)
        ha, na = self.harr(st, h), self.harr(st, n)
        st.heap[h] = z3.Store(ha, r, z3.K(sort_of(kind.elem), z3.BoolVal(False)))
        st.heap[n] = z3.Store(na, r, z3.IntVal(0))
        return SV(kind, r)

    def set_has(self, st, s: SV, k: SV):
        h, _ = self.snames(s.kind)
        return self.harr(st, h)[s.term][k.term]

    def set_add(self, st, s: SV, k: SV):
        h, n = self.snames(s.kind)
        ha, na = self.harr(st, h), self.harr(st, n)
        had = ha[s.term][k.term]
        st.heap[n] = z3.Store(na, s.term, na[s.term] + z3.If(had, 0, 1))
        st.heap[h] = z3.Store(ha, s.term, z3.Store(ha[s.term], k.term, z3.BoolVal(True)))

    def set_discard(self, st, s: SV, k: SV):
        h, n = self.snames(s.kind)
        ha, na = self.harr(st, h), self.harr(st, n)
        had = ha[s.term][k.term]
        st.heap[n] = z3.Store(na, s.term, na[s.term] - z3.If(had, 1, 0))
        st.heap[h] = z3.Store(ha, s.term, z3.Store(ha[s.term], k.term, z3.BoolVal(False)))

    # objects ---------------------------------------------------------------------------------
    def new_object(self, st, clsname) -> SV:
        r = self.alloc(st)
        return SV(KRef(clsname), r)

    def copy_object(self, st, obj: SV) -> SV:
        """copy.copy of a schema object: fresh object, every declared field equal."""
        r = self.alloc(st)
        cls = self.class_by_name(obj.kind.cls)
        names = [c.__name__ for c in cls.__mro__] if cls is not None else [obj.kind.cls]
        seen = set()
        for nm in names:
            for f in self.reg.schemas.get(nm, {}):
                if f in seen or f.startswith("ghost:"):
                    continue
                seen.add(f)
                name, _ = self.fname(obj.kind.cls, f)
                arr = self.harr(st, name)
                st.heap[name] = z3.Store(arr, r, arr[obj.term])
        return SV(obj.kind, r)

    # ---------------------------------------------------------------------------------------
    # coercions

    def lift(self, v) -> SV:
        """Python constant -> SV."""
        if v is None:
            return NONE
        if isinstance(v, bool):
            return SV(KBool, z3.BoolVal(v))
        if isinstance(v, enum.Enum):
            if not isinstance(v.value, int):
                return SV(KConst, None, const=v)        # e.g. grpc.StatusCode (tuple-valued): an opaque constant
            return SV(KEnum(type(v)), z3.IntVal(int(v.value)))
        if isinstance(v, int):
            return SV(KInt, z3.IntVal(v))
        if isinstance(v, float):
            return SV(KFloat, f_const(v))
        if isinstance(v, str):
            return SV(KStr, z3.StringVal(v))
        if isinstance(v, tuple):
            items = [self.lift(x) for x in v]
            return SV(KTuple([i.kind for i in items]), None, items=items)
        return SV(KConst, None, const=v)

    def tuple_term(self, st, sv: SV):
        if sv.term is None:
            srt = sort_of(sv.kind)
            sv.term = srt.mk(*[self.coerce(st, it, k).term for it, k in zip(sv.items, sv.kind.items)])
        return sv.term

    def tuple_items(self, sv: SV):
        if sv.items is None:
            srt = sort_of(sv.kind)
            sv.items = [SV(k, srt.accessor(0, i)(sv.term)) for i, k in enumerate(sv.kind.items)]
        return sv.items

    def box(self, st, sv: SV) -> SV:
        V = val_sort()
        k = sv.kind
        if k is KVal:
            return sv
        if k is KNone:
            return SV(KVal, V.vnone)
        if k is KBool:
            return SV(KVal, V.vbool(sv.term))
        if k is KInt or isinstance(k, KEnum):
            return SV(KVal, V.vint(sv.term))
        if k is KFloat:
            return SV(KVal, V.vflt(sv.term))
        if k is KStr:
            return SV(KVal, V.vstr(sv.term))
        if isinstance(k, KOpt):
            O = sort_of(k)
            inner = self.box(st, SV(k.inner, O.v(sv.term)))
            return SV(KVal, z3.If(O.is_none(sv.term), V.vnone, inner.term))
        if isinstance(k, KList) and k.elem is KVal:
            return SV(KVal, z3.If(sv.term == 0, V.vnone, V.vlist(sv.term)))
        if isinstance(k, KDict) and k.k is KStr and k.v is KVal:
            return SV(KVal, z3.If(sv.term == 0, V.vnone, V.vdict(sv.term)))
        if isinstance(k, KList) and k.elem in (KFloat, KInt, KStr, KBool):
            # a typed list seen as a dynamic value: a fresh Val-list with the boxed elements
            n = self.list_len(st, sv)
            out = self.new_list(st, KList(KVal), n)
            _, e_src = self.lnames(k)
            _, e_dst = self.lnames(out.kind)
            arr = st.fresh("boxl", z3.ArraySort(z3.IntSort(), val_sort()))
            i = z3.Int("box_i")
            src = self.harr(st, e_src)[sv.term]
            boxed = self.box(st, SV(k.elem, src[i])).term
            st.assume(qforall([i], arr[i] == boxed, patterns=[arr[i]]), quantified=True)
            st.heap[e_dst] = z3.Store(self.harr(st, e_dst), out.term, arr)
            self.set_is_tuple(st, out, False)
            return SV(KVal, z3.If(sv.term == 0, V.vnone, V.vlist(out.term)))
        if isinstance(k, (KRef, KList, KDict, KSet)):
            return SV(KVal, z3.If(sv.term == 0, V.vnone, V.vobj(sv.term)))
        if k is KConst and isinstance(sv.const, EmptyLit):
            return self.box(st, self.materialize(st, sv, KList(KVal) if sv.const.what == "list" else KDict(KStr, KVal)))
        if isinstance(k, KTuple):
            items = self.tuple_items(sv)
            l = self.new_list(st, KList(KVal), z3.IntVal(len(items)))
            for i, it in enumerate(items):
                self.list_set(st, l, z3.IntVal(i), self.box(st, it))
            return SV(KVal, V.vtuple(l.term))
        raise Unsupported("cannot box %r" % (k,))

    def materialize(self, st, sv: SV, kind: Kind) -> SV:
        """Allocate the empty container now; the SV is updated in place so that aliases agree."""
        what = sv.const.what
        if what == "list" and isinstance(kind, KList):
            new = self.new_list(st, kind)
            self.set_is_tuple(st, new, False)
        elif what == "dict" and isinstance(kind, KDict):
            new = self.new_dict(st, kind)
        elif what == "set" and isinstance(kind, KSet):
            new = self.new_set(st, kind)
        elif what == "tuple" and isinstance(kind, KList):
            new = self.new_list(st, kind)
            self.set_is_tuple(st, new, True)
        else:
            raise Unsupported("cannot materialize empty %s as %s" % (what, kind))
        sv.kind, sv.term, sv.const = new.kind, new.term, None
        return sv

    def type_ob(self, st, cond, what, node):
        """A dynamic type test that must hold for the operation not to raise TypeError."""
        if self.spec_mode:
            return
        cond = z3.simplify(cond)
        if z3.is_true(cond):
            return
        if st.branch(cond, "type:" + what):
            return
        import builtins
        raise PyRaise(PyExc(builtins.TypeError, where="type:%s@%s" % (what, getattr(node, "lineno", "?"))))

    def coerce(self, st, sv: SV, kind: Kind, node=None) -> SV:
        k = sv.kind
        if k == kind:
            if isinstance(kind, KTuple) and sv.term is None:
                self.tuple_term(st, sv)
            return sv
        V = val_sort()
        if kind is KVal:
            return self.box(st, sv)
        if k is KConst and isinstance(sv.const, EmptyLit):
            if isinstance(kind, (KList, KDict, KSet)) and not kind.region and self.lazy_empty:
                return sv   # stays polymorphic until it meets a region (or is used)
            return self.materialize(st, sv, kind)
        if kind is KFloat and (k is KInt or isinstance(k, KEnum)):
            return SV(KFloat, f_fin(z3.ToReal(sv.term)))
        if kind is KFloat and k is KBool:
            return SV(KFloat, f_fin(z3.If(sv.term, z3.RealVal(1), z3.RealVal(0))))
        if kind is KInt and k is KBool:
            return SV(KInt, z3.If(sv.term, 1, 0))
        if kind is KInt and isinstance(k, KEnum):
            return SV(KInt, sv.term)
        if isinstance(kind, KEnum) and k is KInt:
            return SV(kind, sv.term)
        if isinstance(kind, KOpt):
            O = sort_of(kind)
            if k is KNone:
                return SV(kind, O.none)
            if k is KVal:
                inner = self.coerce_val_unchecked(st, sv, kind.inner)
                return SV(kind, z3.If(V.is_vnone(sv.term), O.none, O.some(inner.term)))
            inner = self.coerce(st, sv, kind.inner, node)
            return SV(kind, O.some(inner.term))
        if isinstance(k, KOpt):
            O = sort_of(k)
            self.type_ob(st, O.is_some(sv.term), "not-None", node)
            return self.coerce(st, SV(k.inner, O.v(sv.term)), kind, node)
        if is_refkind(kind) and k is KNone:
            return SV(kind, z3.IntVal(0))
        if isinstance(kind, KRef) and kind.cls == "exc" and k is KConst and isinstance(sv.const, PyExc):
            return self.new_object(st, "exc")
        if isinstance(kind, KRef) and isinstance(k, KRef):
            # keep the more derived static class (dynamic dispatch needs it)
            ca, cb = self.class_by_name(k.cls), self.class_by_name(kind.cls)
            if ca is not None and cb is not None and issubclass(ca, cb):
                return sv
            out = SV(kind, sv.term)
            out.guard = sv.guard
            return out
        if isinstance(kind, KList) and isinstance(k, KList):
            if kind.elem == k.elem and not kind.region:
                return sv
            if kind.elem == k.elem and not k.region and kind.region:
                r = self.alloc(st)
                ns_, es_ = self.lnames(k)
                nd_, ed_ = self.lnames(kind)
                st.heap[nd_] = z3.Store(self.harr(st, nd_), r, self.harr(st, ns_)[sv.term])
                st.heap[ed_] = z3.Store(self.harr(st, ed_), r, self.harr(st, es_)[sv.term])
                return SV(kind, z3.If(sv.term == 0, 0, r) if k.nullable else r)
        if isinstance(kind, KDict) and isinstance(k, KDict):
            if kind.k == k.k and kind.v == k.v and not kind.region:
                return sv       # a region is a refinement of the plain kind
            if kind.k == k.k and kind.v == k.v and not k.region and kind.region:
                # a plain (freshly built, e.g. by a display or comprehension) dict stored where a region is
                # declared: re-homed into the region with the same content
                r = self.alloc(st)
                hs, vs, ns = self.dnames(k)
                hd, vd, nd = self.dnames(kind)
                st.heap[hd] = z3.Store(self.harr(st, hd), r, self.harr(st, hs)[sv.term])
                st.heap[vd] = z3.Store(self.harr(st, vd), r, self.harr(st, vs)[sv.term])
                st.heap[nd] = z3.Store(self.harr(st, nd), r, self.harr(st, ns)[sv.term])
                return SV(kind, z3.If(sv.term == 0, 0, r) if k.nullable else r)
            if kind.k == k.k and kind.v is KVal and (k.v in (KFloat, KInt, KStr, KBool) or isinstance(k.v, KEnum)) and not k.region:
                # typed values seen as dynamic values: same keys, boxed values
                r = self.alloc(st)
                hs, vs, ns = self.dnames(k)
                hd, vd, nd = self.dnames(kind)
                st.heap[hd] = z3.Store(self.harr(st, hd), r, self.harr(st, hs)[sv.term])
                st.heap[nd] = z3.Store(self.harr(st, nd), r, self.harr(st, ns)[sv.term])
                va = st.fresh("boxd", z3.ArraySort(sort_of(kind.k), sort_of(kind.v)))
                kk = z3.Const("boxd_k", sort_of(kind.k))
                src = self.harr(st, vs)[sv.term]
                st.assume(qforall([kk], va[kk] == self.box(st, SV(k.v, src[kk])).term, patterns=[va[kk]]), quantified=True)
                st.heap[vd] = z3.Store(self.harr(st, vd), r, va)
                return SV(kind, r)
            if kind.k == k.k and k.v is KVal and kind.v in (KFloat, KInt, KStr, KBool) and not k.region:
                # dynamic values stored where typed values are declared (JSON numbers): same keys, unboxed values
                r = self.alloc(st)
                hs, vs, ns = self.dnames(k)
                hd, vd, nd = self.dnames(kind)
                st.heap[hd] = z3.Store(self.harr(st, hd), r, self.harr(st, hs)[sv.term])
                st.heap[nd] = z3.Store(self.harr(st, nd), r, self.harr(st, ns)[sv.term])
                va = st.fresh("unboxd", z3.ArraySort(sort_of(kind.k), sort_of(kind.v)))
                kk = z3.Const("unboxd_k", sort_of(kind.k))
                src = self.harr(st, vs)[sv.term]
                st.assume(qforall([kk], va[kk] == self.coerce_val_unchecked(st, SV(KVal, src[kk]), kind.v).term, patterns=[va[kk]]), quantified=True)
                st.heap[vd] = z3.Store(self.harr(st, vd), r, va)
                return SV(kind, r)
            raise Unsupported("dict region mismatch %s -> %s (line %s)" % (k, kind, getattr(node, "lineno", "?")))
        if isinstance(kind, KSet) and isinstance(k, KSet):
            if kind.elem == k.elem and not kind.region:
                return sv
        if isinstance(kind, KList) and isinstance(k, KList) and k.elem is KVal and kind.elem in (KFloat, KInt) and not kind.region and not k.region:
            # dynamic values where numbers are declared (a list built from Any-typed attributes): same length, unboxed
            # elements (unchecked: a non-numeric element would only fail later, where it is used as a number)
            n = self.list_len(st, sv)
            out = self.new_list(st, kind, n)
            _, e_src = self.lnames(k)
            _, e_dst = self.lnames(kind)
            arr = st.fresh("unboxl", z3.ArraySort(z3.IntSort(), sort_of(kind.elem)))
            i = z3.Int("unboxl_i")
            src = self.harr(st, e_src)[sv.term]
            st.assume(qforall([i], arr[i] == self.coerce_val_unchecked(st, SV(KVal, src[i]), kind.elem).term, patterns=[arr[i], src[i]]), quantified=True)
            st.heap[e_dst] = z3.Store(self.harr(st, e_dst), out.term, arr)
            return out
        if isinstance(kind, KList) and isinstance(k, KTuple):
            items = self.tuple_items(sv)
            l = self.new_list(st, kind, z3.IntVal(len(items)))
            for i, it in enumerate(items):
                self.list_set(st, l, z3.IntVal(i), it, node)
            self.set_is_tuple(st, l, True)
            return l
        if k is KVal:
            return self.unbox(st, sv, kind, node)
        if isinstance(kind, KTuple) and isinstance(k, KTuple) and len(kind.items) == len(k.items):
            items = [self.coerce(st, it, kk, node) for it, kk in zip(self.tuple_items(sv), kind.items)]
            out = SV(kind, None, items=items)
            self.tuple_term(st, out)
            return out
        raise Unsupported("cannot coerce %s to %s (line %s)" % (k, kind, getattr(node, "lineno", "?")))

    def coerce_val_unchecked(self, st, sv: SV, kind: Kind) -> SV:
        V = val_sort()
        t = sv.term
        if kind is KInt or isinstance(kind, KEnum):
            return SV(kind, V.i(t))
        if kind is KFloat:
            return SV(kind, z3.If(V.is_vint(t), f_fin(z3.ToReal(V.i(t))), V.f(t)))
        if kind is KBool:
            return SV(kind, V.b(t))
        if kind is KStr:
            return SV(kind, V.s(t))
        if isinstance(kind, KList):
            return SV(kind, z3.If(V.is_vnone(t), 0, z3.If(V.is_vlist(t), V.lr(t), V.tr(t))))
        if isinstance(kind, KDict):
            return SV(kind, z3.If(V.is_vnone(t), 0, V.dr(t)))
        if isinstance(kind, KRef):
            return SV(kind, z3.If(V.is_vnone(t), 0, V.o(t)))
        raise Unsupported("unbox to %s" % kind)

    def unbox(self, st, sv: SV, kind: Kind, node=None) -> SV:
        V = val_sort()
        t = sv.term
        if kind is KInt or isinstance(kind, KEnum):
            self.type_ob(st, V.is_vint(t), "int", node)
        elif kind is KFloat:
            self.type_ob(st, z3.Or(V.is_vflt(t), V.is_vint(t)), "float", node)
        elif kind is KBool:
            self.type_ob(st, V.is_vbool(t), "bool", node)
        elif kind is KStr:
            self.type_ob(st, V.is_vstr(t), "str", node)
        elif isinstance(kind, KList):
            self.type_ob(st, z3.Or(V.is_vlist(t), V.is_vtuple(t), V.is_vnone(t)), "list", node)
            if kind.elem is not KVal:
                if kind.elem not in (KFloat, KInt, KStr, KBool):
                    raise Unsupported("unbox Val to %s" % kind)
                # a dynamic list seen as a typed list: a fresh typed list with the unboxed elements
                src = SV(KList(KVal), z3.If(V.is_vlist(t), V.lr(t), V.tr(t)))
                n = self.list_len(st, src)
                out = self.new_list(st, KList(kind.elem), n)
                _, e_dst = self.lnames(out.kind)
                _, e_src = self.lnames(src.kind)
                arr = st.fresh("unboxl", z3.ArraySort(z3.IntSort(), sort_of(kind.elem)))
                i = z3.Int("unbox_i")
                el = self.coerce_val_unchecked(st, SV(KVal, self.harr(st, e_src)[src.term][i]), kind.elem).term
                st.assume(qforall([i], arr[i] == el, patterns=[arr[i]]), quantified=True)
                st.heap[e_dst] = z3.Store(self.harr(st, e_dst), out.term, arr)
                res = SV(kind, z3.If(V.is_vnone(t), 0, out.term))
                return res
        elif isinstance(kind, KDict):
            self.type_ob(st, z3.Or(V.is_vdict(t), V.is_vnone(t)), "dict", node)
        elif isinstance(kind, KRef):
            self.type_ob(st, z3.Or(V.is_vobj(t), V.is_vnone(t)), "object", node)
        return self.coerce_val_unchecked(st, sv, kind)

    # tuple-ness ghost of sequence objects (so that `states == (WAITING,)` is exact)
    def set_is_tuple(self, st, l: SV, flag: bool):
        name = "G:is_tuple"
        self._heap_kinds.setdefault(name, KBool)
        arr = self.harr(st, name)
        st.heap[name] = z3.Store(arr, l.term, z3.BoolVal(flag))

    def is_tuple(self, st, l: SV):
        name = "G:is_tuple"
        self._heap_kinds.setdefault(name, KBool)
        return self.harr(st, name)[l.term]


def _guard_of(sv):
    return sv.guard


def _set_guard(sv, lock):
    if lock is not None:
        sv.guard = lock


def _copy_guard(src, dst):
    if src.guard is not None:
        dst.guard = src.guard
