"""Witness for F10 (C13): NSGA-II elite selection broke ties between equal crowding distances (e.g. the two boundary
individuals of the cut rank, both +inf) by the sort order of the LAST objective, so maximising f2 instead of minimising
-f2 selected a different elite: population {(0,0), (1.25,3), (2,1.5)}, population_size 2."""


def run():
    import warnings
    warnings.simplefilter("ignore")
    import optuna
    from optuna.samplers.nsgaii._elite_population_selection_strategy import NSGAIIElitePopulationSelectionStrategy
    from optuna.trial import TrialState, create_trial
    optuna.logging.set_verbosity(optuna.logging.ERROR)
    pts = [(0.0, 0.0), (1.25, 3.0), (2.0, 1.5)]
    out = {}
    for flip in (False, True):
        study = optuna.create_study(directions=["minimize", "maximize" if flip else "minimize"])
        pop = [create_trial(state=TrialState.COMPLETE, values=[a, -b if flip else b]) for a, b in pts]
        for k, t in enumerate(pop):
            t.number = k
        out[flip] = [t.number for t in NSGAIIElitePopulationSelectionStrategy(population_size=2)(study, pop)]
    bad = out[False] != out[True]
    return {"function": "optuna/samplers/nsgaii/_elite_population_selection_strategy.py:_crowding_distance_sort",
            "steps": ["population (0,0), (1.25,3), (2,1.5): trial 0 dominates; trials 1 and 2 form the cut rank, both with crowding distance inf",
                      "elite of size 2 with directions (minimize, minimize)", "same with the second objective negated and maximised"],
            "observed": "elite (min,min) = %s, elite (min,max on -f2) = %s" % (out[False], out[True]), "reproduced": bad}


if __name__ == "__main__":
    print(run())
