"""Property table: which contract modules, lemmas and bounded stand-ins decide each property."""

LIB_ASSUMPTIONS = [
    "Python semantics assumed by the encoding: see DESIGN.md 3.3 (ints mathematical = exact; floats: IEEE order "
    "semantics, arithmetic on finite values exact real arithmetic; dict iteration order unspecified; "
    "logging/warnings calls are no-ops whose arguments are not evaluated; f-strings uninterpreted)",
    "heap well-formedness: values stored in a field/element have the declared (annotation/schema) type; "
    "non-Optional references are not None; dict/list regions (DESIGN 3.3) do not alias across fields",
    "trusted library contracts of pyvc/lib.py for every entry listed in coverage.trusted_base",
]

PROPS = {}

PROPS["C01"] = dict(
    modules=["contracts.in_memory"],
    assumptions=LIB_ASSUMPTIONS + [
        "uuid4 never returns the name suffix of an existing study (assume_after in create_new_study)",
        "nested JSON-like attribute values (lists/dicts inside Any) are treated as immutable by deepcopy",
    ],
    not_covered=["RDBStorage and cached RDB (SQLAlchemy/SQL semantics): only the BOUNDED differential stand-in bounded.storage_lattice "
                 "(random finite call histories replayed on sqlite and compared with the proved in-memory storage)",
                 "gRPC transport and protobuf containers", "Redis backend", "MySQL/PostgreSQL dialects"],
    bounded=["bounded.storage_lattice"],
)


def _rel_mem(pid, contract, ob):
    """Which obligations of the InMemoryStorage contracts are reported under which property."""
    kind, name, clause = ob["kind"], ob["name"], str(ob.get("clause") or "")
    if getattr(contract, "file", "") == "optuna/study/_tell.py" and pid == "C20":
        return ob["kind"] == "frame"      # tell never writes to a trial object that existed before the call
    if getattr(contract, "file", "") != "optuna/storages/_in_memory.py":
        return True     # functions outside the in-memory storage are tagged per property in their contracts
    if kind == "guarded-by":
        # an unguarded access to the best-trial cache also breaks C12 (lost update under concurrency)
        return pid == "C03" or (pid == "C12" and (ob.get("info") or {}).get("field") == "best_trial_id")
    if pid == "C03":
        return False
    is_r5 = "R5(" in clause or "get_best_trial" in name or "better(" in clause
    is_r4 = "R4(" in clause
    is_frame = kind == "frame"
    if pid == "C12":
        return is_r5
    if pid == "C04":
        return is_r4 or "/lost/" in name or "set_trial_state_values" in name or "get_all_trials" in name
    if pid == "C20":
        return is_frame or "fresh(" in clause or "same_storage" in clause or "get_all_trials" in name or "get_trial:" in name
    if pid == "C01":
        return not is_r5 and not is_r4
    return True


PROPS["C01"]["relevant"] = _rel_mem

PROPS["C03"] = dict(
    modules=["contracts.in_memory"], relevant=_rel_mem,
    assumptions=LIB_ASSUMPTIONS + [
        "meta-theorem (not mechanised): if every access to the state a class owns happens inside one critical "
        "section of one mutex per public method, then the method is atomic and the sequential contracts of C01 "
        "give linearizability",
        "lock objects: `with lock:` acquires/releases; RLock re-entrancy is modelled as a counter",
    ],
    not_covered=["the schedules themselves", "OS processes sharing SQLite or a journal file", "RDB transactions",
                 "_CachedStorage backend-call/cache-update pairs (C08)"],
)
PROPS["C04"] = dict(
    modules=["contracts.in_memory"], relevant=_rel_mem,
    assumptions=LIB_ASSUMPTIONS + ["atomicity of each storage call (C03)"],
    not_covered=["RDB compare-and-set (SQL)", "schedules (via C03)"],
)
PROPS["C12"] = dict(
    modules=["contracts.in_memory", "contracts.study"], relevant=_rel_mem,
    assumptions=LIB_ASSUMPTIONS + ["COMPLETE trials carry one non-NaN value per objective (precondition discharged at "
                                   "tell/add_trial call sites: _check_values_are_feasible, FrozenTrial._validate)"],
    not_covered=["RDB SQL ranking (models.py:189-237)"],
)
PROPS["C20"] = dict(
    modules=["contracts.in_memory", "contracts.study", "contracts.tell"], relevant=_rel_mem,
    assumptions=LIB_ASSUMPTIONS + ["nested JSON-like attribute values are treated as immutable by deepcopy"],
    not_covered=["RDB/cached/gRPC getters (ORM/protobuf object construction)", "concurrent mutation during deepcopy"],
)

PROPS["C02"] = dict(
    modules=["contracts.tell", "contracts.queue"],
    claim="_check_values_are_feasible is total (never raises) and returns None exactly when the value(s) are "
          "float-convertible, NaN-free and one per objective, for every Python value incl. str/None/huge ints; "
          "_tell_with_warning: on every exit, normal or exceptional, past argument validation "
          "set_trial_state_values was called exactly once with a finished state, COMPLETE iff feasible, FAIL "
          "carries no values, stored values are the float conversions; a finished trial is never altered. "
          "All obligations discharged by z3 for all inputs.",
    note="storage behind the BaseStorage interface contract (assumed; proved for in-memory); unknown hooks may "
         "raise anything; n_jobs pool and async KeyboardInterrupt not covered",
    assumptions=LIB_ASSUMPTIONS + [
        "assumed interface contract of BaseStorage (contracts/storage_model.py): compare-and-set semantics of "
        "set_trial_state_values, get_trial returns the stored state (proved for InMemoryStorage under C01)",
        "unknown callables (objective, sampler hooks, callbacks) may return any value or raise any Exception but "
        "change trial states only through the storage API",
        "float(str)/math.isnan follow the per-type table of pyvc/lib.py (numeric-literal strings convert; "
        "math.isnan rejects non-real arguments with TypeError; |int| >= 2**1024-2**970 overflows)",
        "comprehension element expressions are evaluated without exception paths",
    ],
    not_covered=["n_jobs>1 thread pool (each future runs the sequential loop with n_trials=1)",
                 "asynchronous KeyboardInterrupt raised inside _tell_with_warning",
                 "Study.ask failing inside sampler.before_trial after the trial was created"],
)

_NUM_ASSUME = LIB_ASSUMPTIONS + [
    "machine arithmetic treated as mathematical: finite float arithmetic is exact real arithmetic, float(int) exact "
    "(|int| < 2**53), so no claim about ulps or rounding is proved; order-only facts (clip/min/max) also hold for doubles",
    "float granularity assumption: for doubles low < high, nextafter(high, -inf) >= low",
    "math.exp / math.log uninterpreted (exp > 0); np.round is round-half-even; np.clip propagates NaN",
]
PROPS["C11"] = dict(
    modules=["contracts.transform"], bounded=["bounded.float_lattice"],
    claim="IntDistribution: high adjustment is on the grid, within (high-step, high], >= low and idempotent; "
          "to_external_repr(to_internal_repr(v)) == v and containment is preserved for every contained int (lemma over "
          "the two contracts); scalar transform/untransform are inverse on contained ints and on step-less linear floats "
          "below high (lemma). All obligations discharged by z3 for all inputs (exact-real float model). Decimal/stepped-"
          "float/JSON/categorical/one-hot paths: BOUNDED stand-in only (lattice, labelled bounded, not counted as proved).",
    note="exact-real float model (no ulp claims); JSON (json.dumps/loads, cls(**attrs)) and Decimal paths only bounded; "
         "ints beyond 2**53 are known finding F9",
    assumptions=_NUM_ASSUME,
    not_covered=["'within a few ulps' for log-scaled floats (bounded check with tolerance 4+2|ln x| ulps only)",
                 "json_to_distribution/distribution_to_json deductively (**kwargs construction, json module)"],
)
PROPS["C10"] = dict(
    modules=["contracts.transform"], bounded=["bounded.float_lattice"],
    claim="_untransform_numerical_param maps every point of the transformed box into [low, high] for Int (result an int; "
          "on the step grid proved for step 1) and Float distributions (upper bound in every branch, lower bound except "
          "exp(log(.)) of log floats); IntDistribution/FloatDistribution containment and value conversions meet their "
          "contracts. Discharged by z3 for all inputs under the exact-real float model; stepped floats, general int "
          "steps, log floats and huge ints: BOUNDED lattice stand-in. Trial._suggest: a re-suggested name returns the stored "
          "value and writes nothing; a fixed (enqueued) value wins verbatim; otherwise the value lies in the distribution "
          "(abstract contains) and what is written to the storage is its internal representation. Trial.suggest_int / "
          "suggest_float (no step) at the user API: a freshly suggested value lies in [low, high] (and on the int step grid).",
    note="the samplers' own sampling code is not under contract (sampler interface contract assumed); exact-real float model",
    assumptions=_NUM_ASSUME,
    not_covered=["TPE/GP/NSGA/QMC samplers' sampling code (numpy)", "suggest_categorical and stepped suggest_float at the API level",
                 "log-float lower bound (exp(log(low)) may undershoot by a few ulps: allowed by the statement)"],
)

PROPS["C19"] = dict(
    modules=["contracts.heartbeat"], bounded=["bounded.heartbeat_lattice"],
    claim="fail_stale_trials: for every trial the failure callback runs at most once per sweep, and only for a trial "
          "that THIS call moved from an unfinished state to FAIL (its compare-and-set returned True); finished trials "
          "are never touched; ids are collected without duplicates (loop invariants, all iterations). "
          "RetryFailedTrialCallback: enqueues exactly when max_retry is None or len(history)+1 <= max_retry; the "
          "WAITING retry carries the failed trial's params/distributions/user attrs, retry_history = history ++ "
          "[number], failed_trial = first number of the chain. All obligations discharged by z3.",
    note="storage behind the assumed BaseStorage/heartbeat interface (SQL stale-id query and SQL compare-and-set "
         "assumed; the stale-id query and a whole sweep are additionally checked by the BOUNDED stand-in bounded.heartbeat_lattice on "
         "sqlite, labelled bounded, not proved); at most one winner per trial across workers follows from the CAS contract plus atomicity",
    assumptions=LIB_ASSUMPTIONS + [
        "RDBStorage._get_stale_trial_ids returns ids of RUNNING trials with an expired heartbeat (SQL, assumed; BOUNDED stand-in "
        "bounded.heartbeat_lattice on sqlite, labelled bounded, not proved)",
        "RDBStorage.set_trial_state_values implements the AS compare-and-set contract (assumed; proved for in-memory)",
        "create_trial / Study.add_trial build and store the trial they are given (assumed contracts)",
        "the failure callback may enqueue trials and raise, but does not change states of existing trials",
    ],
    not_covered=["worker death in the middle of the sweep", "the stale-id SQL query and DB clock",
                 "interleavings of several sweeping workers (reduced to the CAS contract)"],
)

PROPS["C15"] = dict(
    modules=[], bounded=["bounded.hv_lattice"], level="exploration",
    technique="bounded stand-in only: run-time check of the kernels' contracts against exact oracles on an exhaustively "
              "enumerated integer lattice (no deductive proof within reach for numpy kernels)",
    claim="BOUNDED ONLY (nothing about C15 is proved): the contracts compute_hypervolume == exact dominated volume, "
          "_fast_non_domination_rank == front peeling (constrained variant included), _is_pareto_front == non-dominated "
          "mask, _solve_hssp returns k distinct members with HV >= (1-1/e) optimum, checked at run time against independent "
          "exact oracles for EVERY multiset of lattice points inside the stated bound (float arithmetic is exact on the lattice).",
    note="numpy-vectorised kernels are outside the VC generator's reach (np.unique, maximum.accumulate, fancy indexing); "
         "inside the bound the check is exhaustive and exact, outside it nothing is claimed",
    assumptions=["numpy semantics are whatever the installed numpy does (the real kernels are executed)",
                 "assume_pareto=True is exercised only on genuinely Pareto, duplicate-free inputs (its documented "
                 "precondition); the docstring's claim that a wrongly given flag does not change the result is FALSE "
                 "for tied first coordinates (observation, not part of C15's statement)"],
    not_covered=["point sets outside the lattice bound, dimensions 4-5, non-integer coordinates"],
)
PROPS["C12"]["bounded"] = ["bounded.hv_lattice"]


# --- Trial-level contracts join C10 / C04 / C20 ---------------------------------------------------
for _p in ("C10", "C04", "C20"):
    PROPS[_p]["modules"] = PROPS[_p]["modules"] + ["contracts.trial"]
    PROPS[_p]["assumptions"] = PROPS[_p]["assumptions"] + [
        "sampler interface contract (assumed): sample_independent returns a value contained in the distribution",
        "dynamic dispatch over distribution classes abstracted by uninterpreted functions (dist_contains, "
        "internal_repr, dist_single, single_value, dist_compatible); the concrete Int/Float methods are proved "
        "against their own contracts under C10/C11"]
PROPS["C20"]["witnesses"] = {"Trial.__init__:post/any/ret2": "witnesses.f8", "Trial.__init__:post/any/ret3": "witnesses.f8"}


def _rel_mixed(pid, contract, ob):
    if contract.file.endswith("_in_memory.py"):
        return _rel_mem(pid, contract, ob)
    if contract.file == "optuna/study/_tell.py" and pid == "C20":
        return ob["kind"] == "frame"      # tell never writes to a trial object that existed before the call
    if ob["kind"] == "guarded-by":
        return pid == "C03"
    name, clause = ob["name"], str(ob.get("clause") or "")
    if contract.qualname == "Trial.__init__":
        return pid in ("C20", "C04")
    if contract.qualname == "Trial._suggest":
        if pid == "C20":
            return ob["kind"] == "frame" or "dicts_same_except" in clause
        if pid == "C04":
            return "fixed_" in clause
        return pid == "C10"
    return True


for _p in ("C10", "C04", "C20"):
    PROPS[_p]["relevant"] = _rel_mixed

_J_ASSUME = LIB_ASSUMPTIONS + [
    "record schema: each record carries the fields its op code writes (discharged where JournalStorage builds the "
    "record, assumed for records written by other versions/tools)",
    "json_to_distribution / to_external_repr / check_distribution_compatibility abstracted by uninterpreted functions "
    "of their arguments (deterministic: the same record gives the same result on every worker)",
    "datetime.fromisoformat deterministic; pickle/JSON round trips preserve records (assumed)",
    "W4 (dom(params) == dom(distributions)) of stored trials is a stated precondition of _apply_set_trial_param",
]
PROPS["C06"] = dict(
    modules=["contracts.journal"],
    claim="Every journal replay handler (_apply_* x10) is proved, for all shared states satisfying the representation "
          "invariant J1-J4 and all records, to (a) compute the new shared state as a function of (shared state, record) "
          "that does not mention the worker id, (b) raise only when the record was issued by this worker, (c) leave the "
          "shared state unchanged on every rejection path, and (d) preserve J1-J4; private state (ownership, last created "
          "id) changes only at the issuer. Two workers that applied the same records therefore hold equal shared state.",
    note="batching/snapshot equivalence follows from the per-record contracts by induction (meta-argument); pickle/JSON "
         "round trips and the file backend (C07) assumed",
    assumptions=_J_ASSUME,
    not_covered=["Redis backend", "pickle snapshot round trip (axiom)", "dict iteration order (the handlers use membership and explicit id lists only)"],
    witnesses={"JournalStorageReplayResult._apply_delete_study:post/deleted/2": "witnesses.f3",
               "JournalStorageReplayResult._apply_set_trial_state_values:post/already-running/2": "witnesses.f4"},
)


# --- journal contracts join C01 / C03 / C04 / C20 ------------------------------------------------------
def _rel_all(pid, contract, ob):
    if "journal" in contract.file:
        kind, name, clause = ob["kind"], ob["name"], str(ob.get("clause") or "")
        if kind == "guarded-by":
            return pid == "C03"
        if pid == "C03":
            return False
        if pid == "C04":
            return "set_trial_state_values" in name or "create_trial" in name or "owns(" in clause
        if pid == "C20":
            return kind == "frame" or "j_others_same" in clause or "shared_unchanged" in clause or "is old(" in clause \
                or "j_selected" in clause or "fresh(" in clause
        return True
    return _rel_mixed(pid, contract, ob)


PROPS["C04"]["modules"] = PROPS["C04"]["modules"] + ["contracts.queue"]
PROPS["C10"]["modules"] = PROPS["C10"]["modules"] + ["contracts.queue"]           # user-facing suggest_int / suggest_float
PROPS["C10"]["assumptions"] = PROPS["C10"]["assumptions"] + [
    "dynamic dispatch made explicit at the user API (contracts/queue.py int_dispatch / float_dispatch): for the distribution "
    "object suggest_int / suggest_float constructs, `contains` and `to_internal_repr` are the IntDistribution / "
    "FloatDistribution methods (each proved against that reading under C10/C11)",
    "int(s) accepted for a string implies float(s) accepted with the same value"]
PROPS["C03"]["modules"] = PROPS["C03"]["modules"] + ["contracts.grpc_cache"]      # lock discipline of the gRPC client cache
for _p in ("C01", "C03", "C04", "C20"):
    PROPS[_p]["modules"] = PROPS[_p]["modules"] + ["contracts.journal"]
    PROPS[_p]["relevant"] = _rel_all
    PROPS[_p]["assumptions"] = PROPS[_p]["assumptions"] + [a for a in _J_ASSUME if a not in PROPS[_p]["assumptions"]] + [
        "journal: abstract backend contract (append_logs appends in order, read_logs(k) returns records k..); single "
        "client between two syncs for the method-level (C01) contracts; JSON round trip value-preserving"]
    PROPS[_p]["witnesses"] = dict(PROPS[_p].get("witnesses", {}), **PROPS["C06"]["witnesses"])

_FILE_ASSUME = LIB_ASSUMPTIONS + [
    "ghost file model (contracts/journal_file.py): a file is a sequence of lines; line iteration yields maximal "
    "newline-terminated chunks from the seek position; only the last line may lack the newline; stat().st_size <= "
    "the length seen by the read loop (append-only growth); json.loads(line) succeeds exactly on complete valid records",
    "writers only write complete valid records (WF: a complete line is valid JSON; a torn tail has no newline)",
    "callers read from the number of records they have consumed (log_number_from <= number of valid records)",
]
PROPS["C07"] = dict(
    modules=["contracts.journal_file"],
    claim="JournalFileBackend.read_logs, for every file satisfying WF, every cache state satisfying the cache invariant and "
          "every stat size: raises nothing, returns exactly the complete records k..m that lie inside the stat'ed size in "
          "append order (never a partly written record), and re-establishes the cache invariant (every cached record "
          "number maps to the byte offset of that record and is preceded by valid records only). One loop with "
          "break/continue/raise/del, proved with a loop invariant for all iterations.",
    note="sequential contract over a ghost file model; preemption at arbitrary lines, chunked delivery of one write and "
         "the stale-lock takeover are schedule/timing questions outside contracts",
    assumptions=_FILE_ASSUME,
    not_covered=["arbitrary preemption between source lines", "OS-level chunked delivery of a single write",
                 "grace-period takeover of a stale lock (release() without owning the lock, by design)"],
)

PROPS["C07"]["bounded"] = ["bounded.truncate_lattice"]
PROPS["C05"] = dict(
    modules=["contracts.journal_file", "contracts.journal"], bounded=["bounded.truncate_lattice", "bounded.txn_lattice"],
    relevant=lambda pid, c, ob: (c.file.endswith("_file.py") or c.qualname.startswith("JournalStorage.")) and ob["kind"] != "guarded-by",
    claim="Crash points are a universally quantified torn tail: WF admits a final record cut at any byte (no newline). "
          "(L5.1 survival) read_logs on such a file raises nothing, returns every acknowledged record and never the torn one, "
          "and keeps every reader's cache valid -- an instance of the read_logs contract. (L5.2 continuation) append_logs on "
          "such a file yields a WF file whose new records are complete and valid and in which no earlier record changed "
          "(torn tail removed under the lock). (L5.3 write-through) every JournalStorage method returns only after "
          "append_logs returned and the record was replayed (method contracts against the abstract backend).",
    note="journal file backend proved; SQLite/RDB: only a BOUNDED stand-in (bounded.txn_lattice: every mutating RDBStorage call "
         "writes inside ONE transaction; SQLite's own atomicity assumed); the stale-lock takeover and fsync durability semantics are "
         "not covered; _truncate_incomplete_log's byte scan is assumed and bounded-checked",
    assumptions=_FILE_ASSUME + ["an interrupted write leaves file ++ p for some prefix p of the bytes being written",
                                "_truncate_incomplete_log removes exactly a torn tail (assumed; bounded stand-in)"] + _J_ASSUME,
    not_covered=["SQLite/RDB transactions (storage.py:70-99): bounded only (one transaction per call), SQLite atomicity assumed",
                 "grace-period takeover of a stale lock (timing)",
                 "durability semantics of flush/fsync", "_CachedStorage persistence ordering (pass-through, C08 pending)"],
    witnesses={"JournalFileBackend.append_logs:post/ok/0": "witnesses.f5"},
)

PROPS["C08"] = dict(
    modules=["contracts.cached", "contracts.grpc_cache"],
    claim="_CachedStorage: the cache invariant K (a cached trial not marked unfinished is finished and IS the backend's "
          "snapshot; every backend trial of a cached study with id <= last_finished_trial_id is cached or marked unfinished; "
          "the id maps agree with the per-study dicts) is preserved by create_new_trial, by the sync "
          "(_read_trials_from_remote_storage, two loops with invariants), get_all_trials and get_trial, for every backend "
          "history other clients can produce (ghost backend evolving under storage-contract transitions at every backend "
          "call). After a sync every backend trial of the study is cached and every cached trial is the backend's current "
          "snapshot; get_all_trials returns cached trials whose state matches, strictly ordered by number; get_trial "
          "returns the backend's snapshot. Guard discipline (C03) for the cache fields. GrpcClientCache: "
          "_add_trial_to_cache has its exact effect (file under the number; unfinished ids stay in the re-fetch set; a finished "
          "trial raises the watermark to at least its id; nothing else changes); _read_trials_from_remote_storage asks for "
          "exactly (re-fetch set, ids above the watermark), files every trial of the reply, forgets the study on NOT_FOUND "
          "and leaves the cache alone on other RPC errors; get_all_trials serves, after the fetch, only trials cached under their "
          "own number whose state is selected, ordered by number; delete_study_cache removes exactly that entry; every access "
          "to the study table happens under the cache lock (C03).",
    note="the SQL of RDBStorage._get_trials/_create_new_trial/get_trial is assumed to implement the stated contracts; "
         "for GrpcClientCache the multi-client view argument (evolving backend) is not repeated; completeness of the list built by get_all_trials from the "
         "cache (no cached matching trial dropped) is not proved",
    assumptions=LIB_ASSUMPTIONS + [
        "backend contracts (assumed, SQL): _get_trials returns the current snapshots of exactly the trials with id in the "
        "given set or above the given id, ordered by id; _create_new_trial returns the snapshot of a new trial whose id is "
        "larger than every existing id; get_trial returns the current snapshot",
        "other clients change the backend only by storage-contract transitions (ids grow, finished trials are frozen, "
        "(study, number) unique)", "sorted(): ordered permutation (library contract)"],
    not_covered=["the servicer's GetTrials filter", "study deletion by another client (admitted by the class docstring)",
                 "thread interleavings inside one cached client beyond the guard discipline"],
    witnesses={"_CachedStorage.create_new_trial:post/all/2": "witnesses.f2"},
)

PROPS["C16"] = dict(
    modules=["contracts.pruners"],
    claim="ThresholdPruner.prune returns True EXACTLY when the gate is open (a step was reported, step >= warm-up, first "
          "report in its interval) and the checked value is NaN or outside [lower, upper]; NopPruner never prunes; "
          "_is_first_in_interval_step equals its set-level specification (functools.reduce proved as a loop with invariant); "
          "PercentilePruner/MedianPruner.prune: True implies >= max(1, n_startup) completed trials, step >= warm-up, first in "
          "interval; and a trial whose every reported value is strictly better than everything the completed trials "
          "reported at that step is never pruned (both directions). PatientPruner.prune: False while at most patience+1 "
          "steps are reported; True implies the position-free patience test over the steps ORDERED BY STEP NUMBER (rank = "
          "number of reported steps below) and, with a wrapped pruner, that pruner's own decision. "
          "_is_trial_promotable_to_next_rung: a value no competing value beats is promotable. "
          "HyperbandPruner._get_bracket_id: result is the bracket whose budget interval contains "
          "crc32(study_name_number) mod total budget -- a function of name and number only -- and the method is pure (empty frame). "
          "SuccessiveHalvingPruner.prune (rung loop, partial correctness): True implies the step reached a rung "
          "(step >= min_resource * reduction_factor**e for some e >= min_early_stopping_rate), and without bootstrap a non-NaN value "
          "that beats every value recorded at any rung by the listed trials is never pruned; helpers _get_current_rung, "
          "_get_competing_values, _estimate_min_resource under their own contracts. HyperbandPruner.prune: a True decision is the "
          "decision of the successive-halving pruner of the trial's OWN bracket, hence never before a rung of that bracket. "
          "Discharged by z3 for all histories.",
    note="numpy-lite library contracts (nanmin/nanmax/nanpercentile/asarray/sort: order and rank facts only); Study.get_trials "
         "assumed; Hyperband initialisation and the bracket-study view are assumed contracts; Wilcoxon not covered",
    assumptions=LIB_ASSUMPTIONS + ["np.nanmin/nanmax return the value of an entry no non-NaN entry beats (NaN iff all NaN); "
                                   "np.nanpercentile lies between the smallest and largest non-NaN entry",
                                   "Study.get_trials(states=S) returns exactly the trials with state in S (AS)",
                                   "functools.reduce(f, it, init) is the left fold (executed as a loop)",
                                   "list.sort()/ndarray.sort() yields an ordered permutation; for duplicate-free int input the "
                                   "j-th output has exactly j input elements below it (count_less rank fact)",
                                   "binascii.crc32 and str.format are deterministic functions of their arguments",
                                   "the wrapped pruner of PatientPruner is an arbitrary pure decision function of (pruner, study, trial)"],
    not_covered=["WilcoxonPruner (scipy)", "HyperbandPruner._try_initialization (log/ceil arithmetic) and _BracketStudy filtering "
                 "(assumed contracts)", "termination of the rung loops (partial correctness only)"],
)

PROPS["C13"] = dict(
    modules=["contracts.mirror"], bounded=["bounded.mirror_lattice"],
    claim="Direction handling is proved mirror-symmetric where it is implemented behind a function boundary: each such "
          "function has a direction-parametric contract proved against the real code, and a mirror lemma (a program that "
          "calls the function twice, through its contract, on a maximise input and on the negated minimise input) proves "
          "equal outcomes for ALL inputs: ThresholdPruner.prune with mirrored bounds; PatientPruner.prune (exact iff "
          "contract); _is_trial_promotable_to_next_rung (exact count-of-better-values contract, mirror by induction over "
          "the list); _get_best_intermediate_result_over_steps; _normalize_value/_dominates under flipping any subset of "
          "objectives; InMemoryStorage.get_best_trial (same best trial number for pairwise-distinct values).  The numpy "
          "parts (np.nanpercentile mirroring, TPE / NSGA-II / QMC direction handling, Wilcoxon pruner) only by a BOUNDED "
          "run-time stand-in that runs the real code twice, mirrored (labelled bounded, not proved).",
    note="GP sampler (torch) is not covered; TPE/NSGA-II/QMC direction handling and PercentilePruner's percentile mirroring "
         "(np.nanpercentile interpolation is not modelled) only bounded; the lemma for get_best_trial relies on the storage "
         "invariant R5 proved under C12",
    assumptions=LIB_ASSUMPTIONS + [
        "floats: negation is exact and order-reversing; x + d rounding is monotone (arithmetic modelled as exact reals, "
        "IEEE behaviour on infinities)",
        "list.sort order-statistic facts (pyvc/lib.py m_list_sort); count_lt_f/count_gt_f defining equations",
        "storage invariant R1-R5 of InMemoryStorage (proved under C01/C12)",
        "wrapped pruners of PatientPruner are themselves mirror-symmetric (hypothesis of the lemma)",
    ],
    not_covered=["TPESampler split by direction (_tpe/sampler.py:613-745): bounded only", "GPSampler sign (_gp/sampler.py:218-219)",
                 "NSGA-II elite selection: bounded only; NSGA-III, CMA-ES: not at all",
                 "PercentilePruner percentile mirroring (100 - q) and np.nanpercentile: bounded only",
                 "WilcoxonPruner: bounded only", "Study.best_trial constraint fallback", "RDB/journal/cached get_best_trial"],
)

PROPS["C17"] = dict(
    modules=["contracts.search_space"],
    claim="_calculate (the incremental intersection scan) is proved, for all trial lists sorted by number, all cursors and "
          "all cached search spaces satisfying the ghost invariant (`accounted` = the finished trials already intersected: "
          "includes every finished trial of interest below the cursor; nothing below the cursor is WAITING/RUNNING), to "
          "return exactly the from-scratch intersection over ALL finished trials of interest of the current list (soundness: "
          "every entry occurs with an equal distribution in each of them; completeness: a missing name is missing from, or "
          "disputed between, two of them; None iff there is none), a cursor that never skips a trial that may still finish, "
          "and a search space that never grows; the returned pair re-establishes the invariant for the next call.",
    note="history assumption: finished trials never change and trial numbers are stable (C01/C02/C20); distribution equality "
         "is an abstract equivalence relation",
    assumptions=LIB_ASSUMPTIONS + ["BaseDistribution.__eq__ is an equivalence relation (uninterpreted)",
                                   "Study.get_trials returns the trials sorted by number (C01)",
                                   "finished trials are immutable between calls (C02/C20): the ghost set `accounted` of the "
                                   "previous call is still a set of finished trials with unchanged distributions"],
    not_covered=["that every group key stems from some trial (the converse inclusion of the cover) across calls",
                 "termination; trials deleted from a live study"],
)
PROPS["C17"]["claim"] += (
    " IntersectionSearchSpace.calculate (the stateful wrapper) is proved to return a fresh dict that is the from-scratch "
    "intersection over the study's current trials and to re-establish the ghost invariant on the object (other-study -> ValueError)."
    " Group decomposition: _SearchSpaceGroup.add_distributions keeps the groups a partition (non-empty, pairwise disjoint) whose "
    "union is the old union plus the new trial's parameter names (loop invariant over the old groups; set algebra, dict "
    "comprehensions over sets and filter() modelled), and _GroupDecomposedSearchSpace.calculate returns a fresh deep copy whose "
    "groups cover every parameter of every CURRENT trial of interest read from the (abstract) storage, and the parameter set of "
    "every such trial is a union of groups (refinement clause of add_distributions: each new group lies inside one old group "
    "and on one side of the new key set, or consists of new keys only; the witness is the filter position).")


PROPS["C14"] = dict(
    modules=["contracts.exhaustive"], bounded=["bounded.exhaustive_lattice"], level="exploration",
    technique="contract-based deductive verification (pyvc: VCs from the real AST, z3) for the integer/categorical candidate "
              "enumeration; everything else of C14 only by a BOUNDED run-time stand-in on the real code (labelled bounded, not proved)",
    claim="Proved for all inputs: _enumerate_candidates of an IntDistribution is exactly low, low+step, ... <= high in order, each "
          "once, and of a CategoricalDistribution exactly the indices 0..n-1; GridSampler._get_unvisited_grid_ids returns only grid "
          "indices in range that no FINISHED trial of this grid carries, and returns nothing only if every grid index is carried "
          "by a finished trial (so the sampler neither re-issues a finished point nor lets after_trial stop early). BOUNDED (not proved): stepped-float candidates equal "
          "the exact rational grid on a lattice of 280 (low, high, step) triples; BruteForceSampler evaluates every reachable "
          "combination exactly once and stops by itself on 7 tree-shaped define-by-run programs x seeds x {plain, failing trials, "
          "run split across two sampler objects}; GridSampler evaluates every grid point once, also when interrupted and "
          "resumed with a fresh default-seed sampler.",
    note="the _TreeNode reconstruction (numpy, recursion over trial history) and itertools grids are outside the VC generator; "
         "inside the stated bound the run is exhaustive, outside it nothing is claimed",
    assumptions=LIB_ASSUMPTIONS + ["range(a, b, s) is the arithmetic progression (library contract)",
                                   "bounded part: the real sampler code is executed under the installed numpy"],
    not_covered=["programs/grids outside the bound", "pruned trials and n_jobs>1", "termination argument for arbitrary trees"],
)
PROPS["C09"] = dict(
    modules=["contracts.exhaustive", "contracts.pruners"], bounded=["bounded.seed_lattice"],
    claim="Storage-independence of what samplers/pruners remember about trials, where it sits behind a function boundary: "
          "HyperbandPruner._get_bracket_id is a pure function of (study name, trial NUMBER, budgets) -- proved for all inputs; "
          "BaseGASampler.get_parent_population must return the trials whose storage ids were cached on every storage -- this "
          "obligation FAILS on the unchanged tree (known finding F6: the cache is read back by list position) and is proved "
          "under the restriction 'every trial id equals its number'.  Whole-run reproducibility (storage backends, id offsets, "
          "split optimize calls, PYTHONHASHSEED, copy_study) only by a BOUNDED run-time stand-in on the real code (labelled "
          "bounded, not proved).",
    note="seeded RNG determinism, sampler numerics and whole-run reproducibility across backends are outside contract reach "
         "(bounded stand-in only); copy_study is not under contract (bounded only); gRPC proxy not run",
    assumptions=LIB_ASSUMPTIONS + ["Study._get_trials(deepcopy=False) lists all current trials ordered by number (C01)",
                                   "parent-cache entries hold ids of current trials (what get_parent_population itself stores)",
                                   "comprehension elements are evaluated without exception paths (an out-of-range index inside the "
                                   "comprehension is an arbitrary element, not IndexError)"],
    not_covered=["RNG/float determinism of every sampler: bounded only", "TPE group ordering (set iteration order, PYTHONHASHSEED): bounded only",
                 "copy_study: bounded only", "GridSampler/QMC id memory: bounded only", "split of a run into several optimize calls: bounded only",
                 "gRPC proxy, GP / CMA-ES samplers, n_jobs > 1"],
    witnesses={"BaseGASampler.get_parent_population:post/ok/ret0": "witnesses.f6"},
)

# technique field of the manifest: name the deciding method, including bounded stand-ins where a part is only bounded
_TECH = ("contract-based deductive verification: VCs generated from the real Python AST by symbolic execution (pyvc), "
         "discharged by z3 / cvc5")
for _p, _extra in (
        ("C01", "RDB(sqlite)/cached RDB: bounded differential stand-in against the proved in-memory storage (bounded.storage_lattice)"),
        ("C05", "torn-tail scan and SQLite transaction boundaries: bounded stand-ins (bounded.truncate_lattice, bounded.txn_lattice)"),
        ("C09", "whole seeded runs across storages / id offsets / split calls / PYTHONHASHSEED and copy_study: bounded stand-in (bounded.seed_lattice)"),
        ("C13", "numpy parts (percentile mirroring, TPE/NSGA-II/QMC/Wilcoxon): bounded mirrored runs of the real code (bounded.mirror_lattice)"),
        ("C19", "SQL stale-id query and a sweep on sqlite: bounded stand-in (bounded.heartbeat_lattice)")):
    if "technique" not in PROPS[_p]:
        PROPS[_p]["technique"] = _TECH + "; " + _extra + " -- labelled bounded, never counted as proved"
for _p, _extra in (
        ("C07", "_truncate_incomplete_log's byte scan: bounded stand-in (bounded.truncate_lattice)"),
        ("C10", "float/Decimal arithmetic of stepped and log domains: bounded stand-in (bounded.float_lattice)"),
        ("C11", "JSON / float / categorical round trips: bounded stand-in (bounded.float_lattice)"),
        ("C12", "Pareto front (best_trials): bounded stand-in (bounded.hv_lattice)")):
    if "technique" not in PROPS[_p] and PROPS[_p].get("bounded"):
        PROPS[_p]["technique"] = _TECH + "; " + _extra + " -- labelled bounded, never counted as proved"
