"""Witness for _apply_delete_study:post/deleted/2 (a deleted study's trials are gone), journal backend."""


def run():
    import os, tempfile
    import optuna
    from optuna.storages.journal import JournalStorage, JournalFileBackend
    optuna.logging.set_verbosity(optuna.logging.ERROR)
    d = tempfile.mkdtemp(prefix="verif_f3_")
    try:
        st = JournalStorage(JournalFileBackend(os.path.join(d, "j.log")))
        sid = st.create_new_study([optuna.study.StudyDirection.MINIMIZE], "s")
        tid = st.create_new_trial(sid)
        st.delete_study(sid)
        observed = []
        try:
            t = st.get_trial(tid)
            observed.append("get_trial(%d) after delete_study returned trial number %d" % (tid, t.number))
        except KeyError:
            observed.append("get_trial raised KeyError")
        try:
            st.set_trial_user_attr(tid, "k", 1)
            observed.append("set_trial_user_attr on the deleted study's trial succeeded")
        except KeyError:
            observed.append("set_trial_user_attr raised KeyError")
        bad = not all("KeyError" in o for o in observed)
        return {"function": "optuna/storages/journal/_storage.py:JournalStorageReplayResult._apply_delete_study",
                "steps": ["create_new_study", "create_new_trial", "delete_study", "get_trial / set_trial_user_attr on the old trial id"],
                "observed": "; ".join(observed), "reproduced": bad}
    finally:
        import shutil
        shutil.rmtree(d, ignore_errors=True)
