"""Bounded stand-in (labelled bounded, never counted as proved) for the part of C19 the contracts only ASSUME: the SQL side of
stale-trial detection, `RDBStorage._get_stale_trial_ids` / `record_heartbeat`, and a whole `fail_stale_trials` sweep on a
real sqlite storage.  Heartbeat rows are aged by rewriting their timestamp relative to the database clock; the oracle is
the contract assumed in contracts/heartbeat.py: the stale ids are exactly the RUNNING trials of this study whose heartbeat
is older than the grace period, and a sweep fails exactly those, once.

bound: heartbeat_interval in {30, 120} x grace_period in {None (= 2 x interval), 60, 3600} x heartbeat ages in
       {0, grace-30, grace+2, 1 day + 2 s, 1 day + grace + 2 s, 3 days - 2 s} seconds (fresh heartbeats stay 30 s clear of the
       boundary because the database clock keeps running while the harness works; stale ones only get staler) x trial kinds {RUNNING with heartbeat, RUNNING without heartbeat, COMPLETE with an old
       heartbeat, WAITING, RUNNING with an old heartbeat in ANOTHER study}; then fail_stale_trials twice (second sweep must
       change nothing); sqlite only."""
from __future__ import annotations

import datetime
import itertools


def run(pid, tier, seed):
    from pyvc.frontend import setup_repo_path
    setup_repo_path()
    import warnings
    warnings.simplefilter("ignore")
    import optuna
    import sqlalchemy
    from optuna.storages import RDBStorage
    from optuna.storages._rdb import models
    from optuna.study import StudyDirection
    from optuna.trial import TrialState
    optuna.logging.set_verbosity(optuna.logging.ERROR)
    viol, samples = [], []
    evals, nontrivial = 0, 0

    def bad(what, **inp):
        if len(viol) < 6:
            viol.append({"what": what, "input": {k: repr(v) for k, v in inp.items()}})

    def age(st, trial_id, seconds):
        session = st.scoped_session()
        try:
            hb = models.TrialHeartbeatModel.where_trial_id(trial_id, session)
            now = session.execute(sqlalchemy.func.now()).scalar().replace(tzinfo=None)
            hb.heartbeat = now - datetime.timedelta(seconds=seconds)
            session.commit()
        finally:
            st.scoped_session.remove()

    for interval, grace in itertools.product((30, 120), (None, 60, 3600)):
        g = 2 * interval if grace is None else grace
        ages = sorted({0, g - 30, g + 2, 86400 + 2, 86400 + g + 2, 3 * 86400 - 2})
        failed_cb = []
        st = RDBStorage("sqlite:///:memory:", heartbeat_interval=interval, grace_period=grace,
                        failed_trial_callback=lambda study, trial: failed_cb.append(trial.number))
        study = optuna.create_study(storage=st, study_name="hb")
        other = optuna.create_study(storage=st, study_name="other")
        sid = study._study_id
        expect, kinds = set(), {}
        for a in ages:
            t = st.create_new_trial(sid)                       # RUNNING with heartbeat of age a
            st.record_heartbeat(t)
            age(st, t, a)
            kinds[t] = ("running", a)
            if a > g:
                expect.add(t)
        t = st.create_new_trial(sid)                           # RUNNING, never sent a heartbeat
        kinds[t] = ("running-no-heartbeat", None)
        t = st.create_new_trial(sid)                           # COMPLETE with an old heartbeat
        st.record_heartbeat(t)
        age(st, t, 86400 + g + 2)
        st.set_trial_state_values(t, TrialState.COMPLETE, [1.0])
        kinds[t] = ("complete-old-heartbeat", 86400 + g + 2)
        study.enqueue_trial({})                                # WAITING
        t = st.create_new_trial(other._study_id)               # stale RUNNING trial of another study
        st.record_heartbeat(t)
        age(st, t, 86400 + g + 2)
        kinds[t] = ("running-other-study", 86400 + g + 2)
        evals += 1
        nontrivial += 1
        got = set(st._get_stale_trial_ids(sid))
        if got != expect:
            bad("RDBStorage._get_stale_trial_ids is not exactly the RUNNING trials of the study whose heartbeat is older than the grace period",
                heartbeat_interval=interval, grace_period=grace, wrongly_stale=sorted(kinds[t] for t in got - expect),
                missed=sorted(kinds[t] for t in expect - got))
            continue
        before = {t._trial_id: t.state for t in st.get_all_trials(sid)}
        optuna.storages.fail_stale_trials(study)
        after = {t._trial_id: t.state for t in st.get_all_trials(sid)}
        want = {t: (TrialState.FAIL if t in expect else s) for t, s in before.items()}
        n_cb = len(failed_cb)
        optuna.storages.fail_stale_trials(study)
        again = {t._trial_id: t.state for t in st.get_all_trials(sid)}
        evals += 1
        nontrivial += 1
        if after != want or again != after or n_cb != len(expect) or len(failed_cb) != n_cb:
            bad("fail_stale_trials on sqlite did not fail exactly the stale trials exactly once", heartbeat_interval=interval, grace_period=grace,
                changed=sorted((kinds.get(t), before[t].name, after[t].name) for t in before if before[t] != after[t]),
                expected_failed=sorted(kinds[t] for t in expect), callbacks_first_sweep=n_cb, callbacks_after_second_sweep=len(failed_cb))
        if st.get_all_trials(other._study_id)[0].state != TrialState.RUNNING:
            bad("fail_stale_trials touched a trial of another study", heartbeat_interval=interval, grace_period=grace)
        st.remove_session()
    samples.append({"case": "interval 30, grace 3600: heartbeats aged 3570 s stay RUNNING; 3602 s, 1 day + 2 s, 3 days - 2 s are failed once"})
    return {"name": "bounded.heartbeat_lattice", "function": "optuna/storages/_rdb/storage.py:RDBStorage._get_stale_trial_ids, record_heartbeat; optuna/storages/_heartbeat.py:fail_stale_trials on sqlite",
            "bound": __doc__.split("bound:")[1].strip(), "evaluations": evals, "distinct_nontrivial": nontrivial,
            "rule": "every (interval, grace) pair is run with every listed age and trial kind in one study",
            "exhaustive": True, "samples": samples, "violations": viol}
