"""Contracts for optuna/study/_tell.py and _optimize.py (C02)."""
import z3

from pyvc.contracts import Registry, case, loop
from pyvc.kinds import *  # noqa
from pyvc.state import SV
from pyvc import lib
from contracts import storage_model

R = Registry()
R.merge(storage_model.R)
T = "optuna/study/_tell.py"
O = "optuna/study/_optimize.py"

INT_FLOAT_LIMIT = 2 ** 1024 - 2 ** 970   # |i| >= this: float(i) raises OverflowError


def _float_ok_t(t):
    V = val_sort()
    return z3.Or(V.is_vflt(t), V.is_vbool(t),
                 z3.And(V.is_vint(t), V.i(t) < INT_FLOAT_LIMIT, V.i(t) > -INT_FLOAT_LIMIT),
                 z3.And(V.is_vstr(t), lib._float_of_str_ok(V.s(t))))


def _nan_t(t):
    V = val_sort()
    return z3.Or(z3.And(V.is_vflt(t), f_is_nan(V.f(t))),
                 z3.And(V.is_vstr(t), f_is_nan(lib._float_of_str(V.s(t)))))


def _item_ok_t(t):
    return z3.And(_float_ok_t(t), z3.Not(_nan_t(t)))


def _seq(eng, st, v):
    """(is_seq, length, getter) of a dynamic value seen as a Python Sequence (list, tuple or str)."""
    V = val_sort()
    t = eng.coerce(st, v, KVal).term
    is_seq = z3.Or(V.is_vlist(t), V.is_vtuple(t), V.is_vstr(t))
    l = SV(KList(KVal), z3.If(V.is_vlist(t), V.lr(t), V.tr(t)))
    n = z3.If(V.is_vstr(t), z3.Length(V.s(t)), eng.list_len(st, l))

    def get(i):
        e = eng.list_get(st, l, i)
        return z3.If(V.is_vstr(t), V.vstr(z3.SubString(V.s(t), i, 1)), e.term)
    return t, is_seq, n, get


@R.specfunc()
def is_seq(eng, st, v):
    return SV(KBool, _seq(eng, st, v)[1])


@R.specfunc()
def seq_len(eng, st, v):
    return SV(KInt, _seq(eng, st, v)[2])


@R.specfunc()
def prefix_ok(eng, st, v, upto):
    """Items 0..upto-1 are float-convertible and not NaN."""
    t, isq, n, get = _seq(eng, st, v)
    j = z3.Int("pf_j")
    return SV(KBool, qforall([j], z3.Implies(z3.And(0 <= j, j < upto.term), _item_ok_t(get(j)))))


@R.specfunc()
def all_ok(eng, st, v):
    t, isq, n, get = _seq(eng, st, v)
    j = z3.Int("pf_j")
    return SV(KBool, qforall([j], z3.Implies(z3.And(0 <= j, j < n), _item_ok_t(get(j)))))


@R.specfunc()
def feasible(eng, st, study, v):
    """The statement's COMPLETE condition: value(s) float-convertible, NaN-free, one per objective.
    A non-sequence value counts as one value."""
    V = val_sort()
    t, isq, n, get = _seq(eng, st, v)
    nd = eng.list_len(st, eng.get_field(st, study, "_directions"))
    j = z3.Int("pf_j")
    seq_ok = z3.And(qforall([j], z3.Implies(z3.And(0 <= j, j < n), _item_ok_t(get(j)))), n == nd)
    return SV(KBool, z3.And(z3.Not(V.is_vnone(t)), z3.If(isq, seq_ok, z3.And(_item_ok_t(t), nd == 1))))


@R.specfunc()
def stored_values_match(eng, st, vals, study, v):
    """vals (list[float]) are the float conversions of the told value(s)."""
    t, isq, n, get = _seq(eng, st, v)
    j = z3.Int("sv_j")
    ln = eng.list_len(st, vals)
    ej = eng.list_get(st, vals, j).term
    seq_case = z3.And(ln == n, qforall([j], z3.Implies(z3.And(0 <= j, j < n), ej == lib.val_to_float_term(get(j)))))
    one_case = z3.And(ln == 1, eng.list_get(st, vals, z3.IntVal(0)).term == lib.val_to_float_term(t))
    return SV(KBool, z3.And(vals.term != 0, z3.If(isq, seq_case, one_case)))


# --- _check_values_are_feasible: TOTAL (never raises), None iff feasible ---------------------
R.spec(T, "_check_values_are_feasible", props=["C02"],
       types={"values": "Any", "study": "Study"},
       requires=["is_seq(values)", "len(study._directions) >= 1"],
       cases=[
           case("feasible", when="all_ok(values) and seq_len(values) == len(study._directions)",
                returns_pred="result is None"),
           case("infeasible", returns_pred="result is not None"),
       ],
       loops={0: loop(index="_i", invariant=["prefix_ok(values, _i)", "0 <= _i"])},
       returns_kind="str | None")

R.spec(T, "_check_state_and_values", inline=True)
R.spec(T, "_get_frozen_trial", inline=True, types={"trial": "Trial"})

TID = "trial._trial_id"
STO = "study._storage"
BADARGS = ("(state == TrialState.COMPLETE and value_or_values is None) or "
           "((state == TrialState.PRUNED or state == TrialState.FAIL) and value_or_values is not None) or "
           "(state is not None and state != TrialState.COMPLETE and state != TrialState.PRUNED and state != TrialState.FAIL)")

R.spec(T, "_tell_with_warning", props=["C02", "C20"],
       types={"trial": "Trial", "value_or_values": "Any", "study": "Study"},
       locals={"values": None},
       requires=["len(study._directions) >= 1"],
       cases=[
           case("missing", when=TID + " not in study._storage.g_state", raises="KeyError",
                ensures=["as_unchanged(study._storage)"]),
           # tell never alters a finished trial
           case("skip", when="finished(study._storage.g_state[%s]) and skip_if_finished" % TID,
                ensures=["as_unchanged(study._storage)", "result.state == study._storage.g_state[%s]" % TID]),
           case("not-running", when="study._storage.g_state[%s] != TrialState.RUNNING" % TID, raises="ValueError",
                ensures=["as_unchanged(study._storage)"]),
           case("bad-arguments", when=BADARGS, raises="ValueError", ensures=["as_unchanged(study._storage)"]),
           case("explicit-complete-infeasible",
                when="state == TrialState.COMPLETE and not feasible(study, value_or_values)", raises="ValueError",
                ensures=["as_unchanged(study._storage)"]),
           # every other exit, normal or exceptional: the trial was finished exactly once
           case("told", any_outcome=True, ensures=[
               "study._storage.g_ssv_calls == old(study._storage.g_ssv_calls) + 1",
               "study._storage.g_ssv_tid == " + TID,
               "finished(study._storage.g_ssv_state)",
               "study._storage.g_state[%s] == study._storage.g_ssv_state" % TID,
               "as_same_except(study._storage, %s)" % TID,
               "implies(state is None, (study._storage.g_ssv_state == TrialState.COMPLETE) == feasible(study, value_or_values))",
               "implies(state is None and not feasible(study, value_or_values), study._storage.g_ssv_state == TrialState.FAIL)",
               "implies(state is not None, study._storage.g_ssv_state == state)",
               "implies(study._storage.g_ssv_state == TrialState.FAIL, study._storage.g_ssv_values is None)",
               "implies(study._storage.g_ssv_state == TrialState.COMPLETE, "
               "stored_values_match(study._storage.g_ssv_values, study, value_or_values))",
           ], ensures_return=[
               "result.state == study._storage.g_state[%s]" % TID,
               "result._trial_id == " + TID,
               # the warning Study.optimize logs for a FAIL without exception is attached to the result
               "implies(state is None and suppress_warning and result.state == TrialState.FAIL, "
               "STUDY_TELL_WARNING_KEY in result._system_attrs)",
           ]),
       ],
       # FrozenTrial objects and their dicts are NOT in the frame: the deep copy that tell returns (and
       # decorates with the warning) is fresh, everything that existed before the call is unchanged (C20)
       modifies=storage_model.AS_MOD + ["F:_ThreadLocalStudyAttribute.cached_all_trials"],
       note="verified for trial: Trial (what Study.optimize passes); the int branch of _get_frozen_trial differs "
            "only by a storage lookup that raises ValueError before any write")


# ------------------------------------------------------------------------------------------------
# _run_trial / _optimize_sequential
import optuna.exceptions as _oe  # noqa: E402


class _UserError(Exception):
    """Representative of 'any Exception subclass' raised by an unknown callable."""


def _havoc_flags(eng, st):
    eng.havoc_harr(st, eng.fname("Study", "_stop_flag")[0])


def _objective(eng, st, f, args, kwargs, node):
    """Unknown objective: returns any Python value or raises TrialPruned / any Exception /
    KeyboardInterrupt.  It may call study.stop(); it changes trial states only through the storage."""
    _havoc_flags(eng, st)
    c = st.decide(4, "objective")
    if c == 0:
        v = st.fresh("objective_value", val_sort())
        st.assume(val_wf(v, st.nref))
        return SV(KVal, v)
    cls = {1: _oe.TrialPruned, 2: _UserError, 3: KeyboardInterrupt}[c]
    from pyvc.state import PyRaise, PyExc
    raise PyRaise(PyExc(cls, where="objective"))


def _callback(eng, st, f, args, kwargs, node):
    from pyvc.state import PyRaise, PyExc, NONE
    name, _ = eng.fname("BaseStorage", "g_cb_calls")
    _havoc_flags(eng, st)
    study = args[0]
    sto = eng.get_field(st, study, "_storage")
    arr = eng.harr(st, name)
    st.heap[name] = z3.Store(arr, sto.term, arr[sto.term] + 1)
    if st.decide(2, "callback") == 1:
        raise PyRaise(PyExc(_UserError, where="callback"))
    return NONE


R.unknown_callables["callable"] = _objective
R.unknown_callables["callback"] = _callback


@R.specfunc("isinstance_symbolic")
def _isinstance_symbolic(eng, st, v, c):
    """isinstance(exc, catch) with a symbolic tuple of Exception classes: an uninterpreted predicate of
    (class of the exception, catch); KeyboardInterrupt is never matched (catch holds Exception types)."""
    from pyvc.state import PyExc
    if v.kind is KConst and isinstance(v.const, PyExc):
        if not issubclass(v.const.cls, Exception):
            return SV(KBool, z3.BoolVal(False))
        return SV(KBool, uf("catch_matches_" + v.const.cls.__name__, z3.IntSort(), z3.BoolSort())(c.term))
    raise Exception("isinstance with symbolic classes on %s" % v.kind)


import sys as _sys  # noqa: E402
R.rt_helpers["model_int_overflow"] = True

LAST = "study._storage.g_last_asked"
R.spec(O, "_log_failed_trial", inline=True, types={"message": "Any", "trial": "FrozenTrial"})
R.spec(O, "_run_trial", props=["C02"],
       types={"study": "Study", "func": "ref[callable]", "catch": "list[ref[callable]]"},
       locals={"func_err": None, "func_err_fail_exc_info": None, "value_or_values": "Any"},
       requires=["len(study._directions) >= 1"],
       cases=[case("any", any_outcome=True, ensures=[
           # whatever the objective did: the trial started by this call is finished on every exit
           "implies(study._storage.g_ask_calls != old(study._storage.g_ask_calls), "
           "%s in study._storage.g_state and finished(study._storage.g_state[%s]))" % (LAST, LAST),
           "implies(study._storage.g_ask_calls != old(study._storage.g_ask_calls), as_monotone_except(study._storage, %s))" % LAST,
           "implies(study._storage.g_ask_calls == old(study._storage.g_ask_calls), as_monotone_except(study._storage, None))",
           "study._storage.g_runs == old(study._storage.g_runs)",
       ])],
       modifies=storage_model.ASK_MOD + ["F:_ThreadLocalStudyAttribute.cached_all_trials", "F:FrozenTrial.*",
                                         "F:Study._stop_flag", "D:*@t*", "L:*:list<float>", "L:*:list<val>"])

# normal return of _run_trial: exactly one ask happened, and the returned trial is the asked one
R.contracts[(O, "_run_trial")].cases[0].ensures_return = [
    "study._storage.g_ask_calls == old(study._storage.g_ask_calls) + 1",
    "result._trial_id == %s" % LAST,
]

P = "optuna/progress_bar.py"
R.schema("_ProgressBar", {})
import optuna.progress_bar as _pb  # noqa: E402
R.classes["_ProgressBar"] = _pb._ProgressBar
for _m in ("__init__", "update", "close"):
    R.spec(P, "_ProgressBar." + _m, trusted=True, cases=[case("ok")], types={"study": "Study"},
           note="progress bar: display only")

SEQ_INV = [
    "new_trials_finished(study._storage)",
    "i_trial >= 0",
    "implies(n_trials is not None, i_trial <= n_trials)",
    "implies(n_trials is not None, study._storage.g_ask_calls == old(study._storage.g_ask_calls) + i_trial)",
]
SEQ_MOD = storage_model.ASK_MOD + ["F:BaseStorage.g_cb_calls", "F:Study._stop_flag",
                                   "F:_ThreadLocalStudyAttribute.*", "F:FrozenTrial.*", "D:*@t*",
                                   "L:*:list<float>", "L:*:list<val>"]
R.spec(O, "_optimize_sequential", props=["C02"],
       types={"study": "Study", "func": "ref[callable]", "catch": "list[ref[callable]]",
              "callbacks": "list[ref[callback]] | None", "time_start": "ref[datetime] | None",
              "progress_bar": "ref[_ProgressBar] | None"},
       locals={"time_start": "ref[datetime] | None"},
       requires=["len(study._directions) >= 1", "n_trials is None or n_trials >= 0"],
       cases=[case("any", any_outcome=True,
                   ensures=["new_trials_finished(study._storage)"],
                   ensures_return=[
                       # exactly n_trials trials run when nothing stops the loop
                       "implies(n_trials is not None and timeout is None and not study._stop_flag, "
                       "study._storage.g_ask_calls == old(study._storage.g_ask_calls) + n_trials)",
                       # callbacks ran exactly once for every trial (none of whose exceptions propagated)
                       "implies(n_trials is not None and callbacks is not None, study._storage.g_cb_calls == "
                       "old(study._storage.g_cb_calls) + (study._storage.g_ask_calls - old(study._storage.g_ask_calls)) * len(callbacks))",
                   ])],
       loops={
           0: loop(invariant=SEQ_INV + [
               "implies(n_trials is not None and callbacks is not None, study._storage.g_cb_calls == "
               "old(study._storage.g_cb_calls) + i_trial * len(callbacks))",
               "implies(callbacks is None, study._storage.g_cb_calls == old(study._storage.g_cb_calls))"],
               modifies=SEQ_MOD, locals={"time_start": "ref[datetime] | None", "elapsed_seconds": "float"}),
           1: loop(index="_i", invariant=SEQ_INV + [
               "0 <= _i", "_i <= len(callbacks)", "callbacks is not None", "implies(n_trials is not None, i_trial >= 1)",
               "implies(n_trials is not None, study._storage.g_cb_calls == "
               "old(study._storage.g_cb_calls) + (i_trial - 1) * len(callbacks) + _i)"],
               modifies=SEQ_MOD),
       },
       modifies=SEQ_MOD)

R.spec(O, "_optimize", props=["C02"],
       types={"study": "Study", "func": "ref[callable]", "catch": "list[ref[callable]]",
              "callbacks": "list[ref[callback]] | None"},
       requires=["len(study._directions) >= 1", "n_trials is None or n_trials >= 0", "n_jobs == 1"],
       cases=[
           case("bad-catch", when="not isinstance(catch, tuple)", raises="TypeError", ensures=["as_unchanged(study._storage)"]),
           case("nested", when="study._thread_local.in_optimize_loop", raises="RuntimeError", ensures=["as_unchanged(study._storage)"]),
           case("run", any_outcome=True,
                ensures=["new_trials_finished(study._storage)", "not study._thread_local.in_optimize_loop"],
                ensures_return=[
                    # a stop request left over from an earlier optimize() must not stop this one
                    "implies(n_trials is not None and timeout is None and not study._stop_flag, "
                    "study._storage.g_ask_calls == old(study._storage.g_ask_calls) + n_trials)",
                    "implies(n_trials is not None and callbacks is not None, study._storage.g_cb_calls == "
                    "old(study._storage.g_cb_calls) + (study._storage.g_ask_calls - old(study._storage.g_ask_calls)) * len(callbacks))",
                ]),
       ],
       modifies=SEQ_MOD,
       note="verified for n_jobs == 1; the thread-pool branch submits _optimize_sequential(n_trials=1) per future")
