"""Contracts for optuna/storages/_heartbeat.py and _callbacks.py (C19)."""
import z3

from pyvc.contracts import Registry, case, loop, Contract
from pyvc.kinds import *  # noqa
from pyvc.state import SV, PyRaise, PyExc, NONE
from contracts import storage_model

R = Registry()
R.merge(storage_model.R)
H = "optuna/storages/_heartbeat.py"
CB = "optuna/storages/_callbacks.py"
RDB = "optuna/storages/_rdb/storage.py"

import optuna  # noqa: E402
R.classes["RDBStorage"] = optuna.storages.RDBStorage
R.classes["RetryFailedTrialCallback"] = optuna.storages.RetryFailedTrialCallback
# a heartbeat-capable storage (BaseStorage + BaseHeartbeat): RDBStorage is the one in the repository
R.schema("Study", dict(R.schemas["Study"], _storage="RDBStorage"))
R.schema("BaseStorage", dict(R.schemas["BaseStorage"], g_cb_count="dict[int, int] @ cbc"))
R.schema("RetryFailedTrialCallback", {"_max_retry": "int | None", "_inherit_intermediate_values": "bool"})

# the assumed AS interface contract, on the concrete class the calls resolve to
for _q in ("get_trial", "set_trial_state_values"):
    _c = storage_model.R.contracts[(storage_model.B, "BaseStorage." + _q)]
    R.contracts[(RDB, "RDBStorage." + _q)] = Contract(
        RDB, "RDBStorage." + _q, types=_c.types, requires=_c.requires, cases=_c.cases, ensures_all=_c.ensures_all,
        modifies=_c.modifies, trusted=True, note="assumed AS contract (SQL compare-and-set, storage.py:613-637)")
R.spec(RDB, "RDBStorage._get_stale_trial_ids", trusted=True, returns_kind="list[int]",
       cases=[case("ok", ensures=["fresh(result)"])],
       note="assumed (SQL, storage.py:982-1013): returns ids of RUNNING trials whose heartbeat is older than the grace period")
R.spec(RDB, "RDBStorage.get_failed_trial_callback", trusted=True, returns_kind="ref[failed_cb] | None", cases=[case("ok")])
R.spec(RDB, "RDBStorage.get_heartbeat_interval", trusted=True, returns_kind="int | None", cases=[case("ok")])
R.spec(H, "is_heartbeat_enabled", inline=True, types={"storage": "RDBStorage"})


def _cb_arrays(eng, st, storage):
    d = eng.get_field(st, storage, "g_cb_count")
    h, v, n = eng.dnames(d.kind)
    return d, v


def _failed_cb(eng, st, f, args, kwargs, node):
    """Unknown failure callback: counted per failed trial id (ghost g_cb_count). It may enqueue new trials
    (retry) and may raise; it does not change the state of existing trials."""
    study, trial = args[0], args[1]
    sto = eng.get_field(st, study, "_storage")
    tid = eng.get_field(st, trial, "_trial_id")
    d, v = _cb_arrays(eng, st, sto)
    va = eng.harr(st, v)
    st.heap[v] = z3.Store(va, d.term, z3.Store(va[d.term], tid.term, va[d.term][tid.term] + 1))
    gs = eng.get_field(st, sto, "g_state")
    h_, v_, n_ = eng.dnames(gs.kind)
    ho, vo = eng.harr(st, h_)[gs.term], eng.harr(st, v_)[gs.term]
    for nm in (h_, v_, n_):
        eng.havoc_harr(st, nm)
    hn, vn = eng.harr(st, h_)[gs.term], eng.harr(st, v_)[gs.term]
    k = z3.Int("fcb_k")
    st.assume(qforall([k], z3.Implies(ho[k], z3.And(hn[k], vn[k] == vo[k])), patterns=[hn[k], vn[k]]), quantified=True)
    if st.decide(2, "failed_cb") == 1:
        raise PyRaise(PyExc(Exception, where="failed_trial_callback"))
    return NONE


R.unknown_callables["failed_cb"] = _failed_cb


def _gs(eng, st, study_sv, heap):
    """(has, val) of g_state and cb-count values in the given heap dict."""
    saved = st.heap
    st.heap = dict(heap)
    eng.spec_mode += 1
    try:
        sto = eng.get_field(st, study_sv, "_storage")
        gs = eng.get_field(st, sto, "g_state")
        h_, v_, _ = eng.dnames(gs.kind)
        d, v = _cb_arrays(eng, st, sto)
        return eng.harr(st, h_)[gs.term], eng.harr(st, v_)[gs.term], eng.harr(st, v)[d.term]
    finally:
        eng.spec_mode -= 1
        for k2, v2 in st.heap.items():
            saved.setdefault(k2, v2)
        st.heap = saved


def _fin(t):
    return z3.And(t != 0, t != 4)


@R.specfunc()
def hb_monotone(eng, st, study):
    """Existing trials still exist; a state changes only from unfinished to FAIL (finished trials untouched)."""
    hn, vn, _ = _gs(eng, st, study, st.heap)
    ho, vo, _ = _gs(eng, st, study, st.heap0)
    k = z3.Int("hbm_k")
    return SV(KBool, qforall([k], z3.Implies(ho[k], z3.And(hn[k], z3.Or(vn[k] == vo[k], z3.And(z3.Not(_fin(vo[k])), vn[k] == 3)))),
                             patterns=[hn[k]]))


@R.specfunc()
def hb_same_domain(eng, st, study):
    hn, vn, _ = _gs(eng, st, study, st.heap)
    ho, vo, _ = _gs(eng, st, study, st.heap0)
    k = z3.Int("hsd_k")
    return SV(KBool, qforall([k], hn[k] == ho[k], patterns=[hn[k]]))


@R.specfunc()
def failed_ok(eng, st, study, failed):
    """Every id collected so far was moved to FAIL by THIS call (it existed and was unfinished at entry),
    and no id occurs twice."""
    hn, vn, _ = _gs(eng, st, study, st.heap)
    ho, vo, _ = _gs(eng, st, study, st.heap0)
    n = eng.list_len(st, failed)
    j, j2 = z3.Int("fo_j"), z3.Int("fo_j2")
    e = lambda x: eng.list_get(st, failed, x).term
    a = qforall([j], z3.Implies(z3.And(0 <= j, j < n), z3.And(hn[e(j)], vn[e(j)] == 3, ho[e(j)], z3.Not(_fin(vo[e(j)])))),
                patterns=[e(j)])
    b = qforall([j, j2], z3.Implies(z3.And(0 <= j, j < j2, j2 < n), e(j) != e(j2)), patterns=[z3.MultiPattern(e(j), e(j2))])
    return SV(KBool, z3.And(failed.term != 0, a, b))


@R.specfunc()
def cb_counts(eng, st, study, failed, upto):
    """Callback counts: +1 exactly for the first `upto` collected ids, unchanged for every other id."""
    _, _, cn = _gs(eng, st, study, st.heap)
    _, _, co = _gs(eng, st, study, st.heap0)
    j, k = z3.Int("cc_j"), z3.Int("cc_k")
    e = lambda x: eng.list_get(st, failed, x).term
    a = qforall([j], z3.Implies(z3.And(0 <= j, j < upto.term), cn[e(j)] == co[e(j)] + 1), patterns=[e(j)])
    b = qforall([k], z3.Implies(qforall([j], z3.Implies(z3.And(0 <= j, j < upto.term), e(j) != k)), cn[k] == co[k]),
                patterns=[cn[k]])
    return SV(KBool, z3.And(a, b))


@R.specfunc()
def pending_uncalled(eng, st, study, failed, frm):
    """The callback has not yet run (in this sweep) for the collected ids at positions >= frm."""
    _, _, cn = _gs(eng, st, study, st.heap)
    _, _, co = _gs(eng, st, study, st.heap0)
    j = z3.Int("pu_j")
    e = lambda x: eng.list_get(st, failed, x).term
    n = eng.list_len(st, failed)
    return SV(KBool, qforall([j], z3.Implies(z3.And(frm.term <= j, j < n), cn[e(j)] == co[e(j)]), patterns=[e(j)]))


@R.specfunc()
def cb_unchanged(eng, st, study):
    _, _, cn = _gs(eng, st, study, st.heap)
    _, _, co = _gs(eng, st, study, st.heap0)
    return SV(KBool, cn == co)


@R.specfunc()
def at_most_once(eng, st, study):
    """The statement of C19 for one sweep: every trial's failure callback ran at most once, and only for a
    trial that this call moved from an unfinished state to FAIL."""
    hn, vn, cn = _gs(eng, st, study, st.heap)
    ho, vo, co = _gs(eng, st, study, st.heap0)
    k = z3.Int("amo_k")
    return SV(KBool, qforall([k], z3.And(cn[k] >= co[k], cn[k] <= co[k] + 1,
                                         z3.Implies(cn[k] == co[k] + 1, z3.And(ho[k], z3.Not(_fin(vo[k])), vn[k] == 3))),
                             patterns=[cn[k]]))


CB_MOD = storage_model.AS_MOD + ["D:*:dict<int,int>@cbc", "F:FrozenTrial.*", "D:*@t*", "L:*:list<float>"]
HB_MOD = CB_MOD + ["L:*:list<int>"]
R.spec(H, "fail_stale_trials", props=["C19"], types={"study": "Study"},
       locals={"failed_trial_ids": "list[int]"},
       cases=[case("any", any_outcome=True, ensures=["hb_monotone(study)", "at_most_once(study)"])],
       loops={
           0: loop(index="_i", invariant=["hb_monotone(study)", "hb_same_domain(study)", "failed_ok(study, failed_trial_ids)",
                                          "cb_unchanged(study)"],
                   modifies=storage_model.AS_MOD + ["L:*:list<int>"]),
           1: loop(index="_i", invariant=["hb_monotone(study)", "failed_ok(study, failed_trial_ids)", "0 <= _i",
                                          "_i <= len(failed_trial_ids)", "at_most_once(study)",
                                          "pending_uncalled(study, failed_trial_ids, _i)"],
                   modifies=CB_MOD),
       },
       modifies=HB_MOD,
       note="at-most-once rests on the compare-and-set of set_trial_state_values (FAIL on a finished trial raises): "
            "ids are collected only when this call's write returned True")


# ------------------------------------------------------------------------------------------------
# RetryFailedTrialCallback
R.schema("BaseStorage", dict(R.schemas["BaseStorage"], g_add_calls="int", g_last_added="FrozenTrial | None"))


def _hist(eng, st, trial):
    """(present, list ref SV, length) of trial.system_attrs['retry_history']."""
    V = val_sort()
    sa = eng.get_field(st, trial, "_system_attrs")
    key = SV(KStr, z3.StringVal("retry_history"))
    has = eng.dict_has(st, sa, key)
    v = eng.dict_get(st, sa, key).term
    l = SV(KList(KVal), z3.If(V.is_vlist(v), V.lr(v), V.tr(v)))
    return has, v, l, z3.If(has, eng.list_len(st, l), 0)


@R.specfunc()
def hist_len(eng, st, trial):
    return SV(KInt, _hist(eng, st, trial)[3])


@R.specfunc()
def hist_wf(eng, st, trial):
    V = val_sort()
    has, v, l, n = _hist(eng, st, trial)
    return SV(KBool, z3.Implies(has, V.is_vlist(v)))


@R.specfunc()
def dict_eq(eng, st, a, b):
    h, v, n = eng.dnames(a.kind)
    return SV(KBool, z3.And(eng.harr(st, h)[a.term] == eng.harr(st, h)[b.term], eng.harr(st, v)[a.term] == eng.harr(st, v)[b.term]))


@R.specfunc()
def retry_attrs_ok(eng, st, new, trial):
    """system_attrs of the enqueued retry: retry_history = old history ++ [trial.number]; failed_trial = first
    number of the chain; every other key inherited."""
    V = val_sort()
    ctx = eng.spec_stack[-1]
    nsa = eng.get_field(st, new, "_system_attrs")
    # the failed trial's attrs as they were at entry
    saved = st.heap
    st.heap = dict(ctx.pre_heap)
    try:
        has0, v0, l0, n0 = _hist(eng, st, trial)
        osa = eng.get_field(st, trial, "_system_attrs")
        h, v, _ = eng.dnames(osa.kind)
        oh, ov = eng.harr(st, h)[osa.term], eng.harr(st, v)[osa.term]
        _, e_ = eng.lnames(KList(KVal))
        old_elems = eng.harr(st, e_)[l0.term]
        num = eng.get_field(st, trial, "_number").term
    finally:
        for k2, v2 in st.heap.items():
            saved.setdefault(k2, v2)
        st.heap = saved
    h, v, _ = eng.dnames(nsa.kind)
    nh, nv = eng.harr(st, h)[nsa.term], eng.harr(st, v)[nsa.term]
    kh, kf = z3.StringVal("retry_history"), z3.StringVal("failed_trial")
    nl = SV(KList(KVal), V.lr(nv[kh]))
    _, e_ = eng.lnames(KList(KVal))
    new_elems = eng.harr(st, e_)[nl.term]
    j = z3.Int("ra_j")
    k = z3.String("ra_k")
    return SV(KBool, z3.And(
        nh[kh], V.is_vlist(nv[kh]), eng.list_len(st, nl) == n0 + 1, new_elems[n0] == V.vint(num),
        qforall([j], z3.Implies(z3.And(0 <= j, j < n0), new_elems[j] == old_elems[j]), patterns=[new_elems[j]]),
        nh[kf], nv[kf] == z3.If(oh[kf], ov[kf], V.vint(num)),
        qforall([k], z3.Implies(z3.And(k != kh, k != kf), z3.And(nh[k] == oh[k], z3.Implies(oh[k], nv[k] == ov[k]))), patterns=[nh[k]]),
    ))


ADD_MOD = ["F:BaseStorage.g_add_calls", "F:BaseStorage.g_last_added"]
R.spec("optuna/study/study.py", "Study.add_trial", trusted=True, types={"trial": "FrozenTrial"},
       cases=[case("ok", ensures=["self._storage.g_add_calls == old(self._storage.g_add_calls) + 1",
                                  "self._storage.g_last_added is trial"])],
       modifies=ADD_MOD + storage_model.AS_MOD, note="assumed: validates and stores the trial (create_new_trial(template))")
R.spec("optuna/trial/_frozen.py", "create_trial", trusted=True,
       types={"params": "dict[str, Any] @ tp", "distributions": "dict[str, BaseDistribution] @ td",
              "user_attrs": "dict[str, Any] @ tu", "system_attrs": "dict[str, Any] @ ts",
              "intermediate_values": "dict[int, float] @ ti | None", "values": "list[float] | None", "value": "float | None"},
       cases=[case("ok", ensures=[
           "fresh(result)", "only_fresh_modified()", "result.state == state",
           "implies(params is not None, dict_eq(result._params, params))",
           "implies(distributions is not None, dict_eq(result._distributions, distributions))",
           "implies(user_attrs is not None, dict_eq(result._user_attrs, user_attrs))",
           "implies(system_attrs is not None, dict_eq(result._system_attrs, system_attrs))",
           "implies(intermediate_values is not None, dict_eq(result.intermediate_values, intermediate_values))",
           "implies(intermediate_values is None, len(result.intermediate_values) == 0)",
       ])],
       modifies=["F:FrozenTrial.*", "D:*@t*"],
       note="assumed: create_trial builds a FrozenTrial carrying the given containers (old distribution classes converted)")

R.spec(CB, "RetryFailedTrialCallback.__call__", props=["C19"],
       types={"study": "Study", "trial": "FrozenTrial"},
       locals={"system_attrs": "dict[str, Any] @ ts"},
       requires=["hist_wf(trial)"],
       cases=[
           # never more than max_retry retries in a chain
           case("exhausted", when="self._max_retry is not None and self._max_retry < hist_len(trial) + 1",
                ensures=["study._storage.g_add_calls == old(study._storage.g_add_calls)"]),
           case("retry", ensures=[
               "study._storage.g_add_calls == old(study._storage.g_add_calls) + 1",
               "study._storage.g_last_added.state == TrialState.WAITING",
               "dict_eq(study._storage.g_last_added._params, trial._params)",
               "dict_eq(study._storage.g_last_added._distributions, trial._distributions)",
               "dict_eq(study._storage.g_last_added._user_attrs, trial._user_attrs)",
               "retry_attrs_ok(study._storage.g_last_added, trial)",
               "implies(self._inherit_intermediate_values, dict_eq(study._storage.g_last_added.intermediate_values, trial.intermediate_values))",
               "implies(not self._inherit_intermediate_values, len(study._storage.g_last_added.intermediate_values) == 0)",
           ]),
       ],
       modifies=ADD_MOD + storage_model.AS_MOD + ["F:FrozenTrial.*", "D:*@t*", "L:*:list<val>"])
