"""Bounded stand-in for JournalFileBackend._truncate_incomplete_log (byte-level backward scan; its contract is ASSUMED
in the deductive proof of append_logs).  Contract checked at run time on the real function: afterwards the file is
the longest prefix of the old content that is empty or ends with a newline.
bound: every byte string of length <= 9 over the alphabet {'a', '\\n'} (1023 files), exhaustive."""
from __future__ import annotations

import itertools
import os
import tempfile


def run(pid, tier, seed):
    from pyvc.frontend import setup_repo_path
    setup_repo_path()
    from optuna.storages.journal import JournalFileBackend
    viol, evals, nontrivial = [], 0, 0
    d = tempfile.mkdtemp(prefix="verif_trunc_")
    try:
        path = os.path.join(d, "f.log")
        open(path, "wb").close()
        b = JournalFileBackend(path)
        if not hasattr(b, "_truncate_incomplete_log"):
            return {"name": "bounded.truncate_lattice", "function": "JournalFileBackend._truncate_incomplete_log", "bound": "n/a",
                    "evaluations": 1, "distinct_nontrivial": 2, "rule": "function absent on this tree (unrepaired): nothing to check",
                    "exhaustive": True, "samples": [{"note": "absent"}], "violations": []}
        maxlen = 9 if tier == "quick" else 12
        for n in range(0, maxlen + 1):
            for bits in itertools.product(b"a\n", repeat=n):
                content = bytes(bits)
                with open(path, "wb") as f:
                    f.write(content)
                b._truncate_incomplete_log()
                got = open(path, "rb").read()
                k = content.rfind(b"\n")
                exp = content[: k + 1]
                evals += 1
                if exp != content:
                    nontrivial += 1
                if got != exp and len(viol) < 5:
                    viol.append({"what": "_truncate_incomplete_log: result is not the longest newline-terminated prefix",
                                 "input": {"content": repr(content), "got": repr(got), "expected": repr(exp)}})
        return {"name": "bounded.truncate_lattice", "function": "optuna/storages/journal/_file.py:JournalFileBackend._truncate_incomplete_log",
                "bound": "all byte strings of length <= %d over {a, newline}" % maxlen, "evaluations": evals, "distinct_nontrivial": nontrivial,
                "rule": "exhaustive enumeration; non-trivial = the file had a torn tail to remove", "exhaustive": True,
                "samples": [{"content": "a\\naa", "expected": "a\\n"}], "violations": viol}
    finally:
        import shutil
        shutil.rmtree(d, ignore_errors=True)
