"""Contracts for the exhaustive samplers (C14) and the id-independence of sampler memory (C09)."""
import z3

from pyvc.contracts import Registry, case, loop
from pyvc.kinds import *  # noqa
from pyvc.state import SV
from contracts import distributions, study as _study

R = Registry()
R.merge(distributions.R)
R.merge(_study.R)
BF = "optuna/samplers/_brute_force.py"

# --- C14: the candidate list of a finite integer / categorical domain is the domain, each point once ----------------
R.schema("CategoricalDistribution", dict(R.schemas.get("CategoricalDistribution", {}), choices="list[Any]"))
R.spec(BF, "_enumerate_candidates", variant="int", props=["C14"], types={"param_distribution": "IntDistribution"},
       returns_kind="list[int]",
       requires=["param_distribution.step >= 1", "param_distribution.low <= param_distribution.high"],
       cases=[case("ok", ensures=[
           # exactly the grid low, low+step, ... <= high, in order, each once
           "len(result) == (param_distribution.high - param_distribution.low) // param_distribution.step + 1",
           "forall(lambda i: implies(0 <= i and i < len(result), result[i] == param_distribution.low + i * param_distribution.step), trigger=result[i])",
       ])])
R.spec(BF, "_enumerate_candidates", variant="cat", props=["C14"], types={"param_distribution": "CategoricalDistribution"},
       returns_kind="list[int]",
       cases=[case("ok", ensures=[
           "len(result) == len(param_distribution.choices)",
           "forall(lambda i: implies(0 <= i and i < len(result), result[i] == i), trigger=result[i])"])])


# --- C09: what samplers/pruners remember about trials must not depend on storage-assigned trial ids ------------------
GA = "optuna/samplers/_ga/_base.py"
import optuna.samplers._ga._base as _ga  # noqa: E402
R.classes.update({"BaseGASampler": _ga.BaseGASampler})
R.schema("BaseGASampler", {"_population_size": "int | None"})
I = z3.IntSort()


def _remember_attrs(eng, st, env):
    pass


R.spec("optuna/storages/_base.py", "BaseStorage.get_study_system_attrs", trusted=True, returns_kind="dict[str, Any]",
       cases=[case("ok", ensures=["fresh(result)", "remember_study_attrs(self, study_id, result)"])], modifies=["D:*:dict<str,val>"],
       note="assumed: returns some dict (its content is whatever was stored; the contract below speaks about it through a ghost)")
R.spec("optuna/storages/_base.py", "BaseStorage.set_study_system_attr", trusted=True, types={"value": "Any"},
       cases=[case("ok")], note="assumed (effect on later reads not needed here)")
R.spec(GA, "BaseGASampler._get_parent_cache_key_prefix", trusted=True, returns_kind="str", cases=[case("ok", returns="'GA:parent:'")],
       note="class-level constant string")
R.spec(GA, "BaseGASampler.select_parent", trusted=True, types={"study": "Study"}, returns_kind="list[FrozenTrial]",
       cases=[case("raises", when="nondet()", raises="Exception"), case("ok", ensures=["fresh(result)"])], modifies=["L:*:list<ref:FrozenTrial>", "G:is_tuple"],
       note="abstract hook")
R.spec("optuna/study/study.py", "Study._get_trials", trusted=True, types={"states": "list[TrialState] | None"}, returns_kind="list[FrozenTrial]",
       requires=["states is None"],
       cases=[case("ok", ensures=["fresh(result)", "listed_by_number(self, result)"])], modifies=["L:*:list<ref:FrozenTrial>", "G:is_tuple"],
       note="assumed (C01): all trials of the study ordered by number, result[k].number == k, each a current trial")


@R.specfunc()
def remember_study_attrs(eng, st, storage, sid, d):
    """Ghost handle on the returned dict + record schema of parent-cache entries (what get_parent_population itself writes:
    `[trial._trial_id for trial in parents]`): list entries hold non-negative ints."""
    st.ghost["study_attrs"] = d
    V = val_sort()
    k = z3.String("rs_k")
    i = z3.Int("rs_i")
    v = eng.dict_get(st, d, SV(KStr, k)).term
    lst = SV(KList(KVal), V.lr(v))
    e = eng.list_get(st, lst, i).term
    _schema = (qforall([k, i], z3.Implies(z3.And(eng.dict_has(st, d, SV(KStr, k)), V.is_vlist(v), 0 <= i, i < eng.list_len(st, lst)),
                                                z3.And(V.is_vint(e), V.i(e) >= 0,
                                                       # ... and each is the storage id of a current trial of the study (trials are
                                                       # never removed from a live study)
                                                       _study._as_trial(storage.term, sid.term, _trial_of_id(storage.term, sid.term, V.i(e))),
                                                       _trial_of_id(storage.term, sid.term, V.i(e)) > 0,
                                                       eng.get_field(st, SV(KRef("FrozenTrial"), _trial_of_id(storage.term, sid.term, V.i(e))), "_trial_id").term == V.i(e))),
                                patterns=[e]))
    # parent-cache entries are lists (or None)
    g = z3.Int("rs_g")
    kg = SV(KStr, z3.Concat(z3.StringVal("GA:parent:"), uf("int_to_str", z3.IntSort(), z3.StringSort())(g)))
    vg = eng.dict_get(st, d, kg).term
    sch2 = qforall([g], z3.Implies(eng.dict_has(st, d, kg), z3.Or(V.is_vnone(vg), V.is_vlist(vg))), patterns=[eng.dict_has(st, d, kg)])
    return SV(KBool, z3.And(_schema, sch2))


def _trial_of_id(storage, sid, tid):
    return uf("trial_of_id", I, I, I, I)(storage, sid, tid)


@R.specfunc()
def cached_parents_by_id(eng, st, self_sv, study, generation, result):
    """When the study's system attrs hold a parent cache entry for `generation` (a list of ints), result[i] is the current
    trial of the study whose STORAGE ID (`_trial_id`) is the i-th cached id -- the ids are what the cache stores."""
    d = st.ghost.get("study_attrs")
    if d is None:
        return SV(KBool, z3.BoolVal(True))
    storage = eng.get_field(st, study, "_storage")
    sid = eng.get_field(st, study, "_study_id")
    V = val_sort()
    key = SV(KStr, z3.Concat(z3.StringVal("GA:parent:"), uf("int_to_str", z3.IntSort(), z3.StringSort())(generation.term)))
    v = eng.dict_get(st, d, key).term
    ids = SV(KList(KVal), V.lr(v))
    i = z3.Int("cp_i")
    e = eng.list_get(st, ids, i).term
    r = eng.list_get(st, result, i)
    hit = z3.And(eng.dict_has(st, d, key), z3.Not(V.is_vnone(v)))
    return SV(KBool, z3.Implies(hit, z3.And(eng.list_len(st, result) == eng.list_len(st, ids),
                                            qforall([i], z3.Implies(z3.And(0 <= i, i < eng.list_len(st, ids)),
                                                                    z3.And(_study._as_trial(storage.term, sid.term, r.term),
                                                                           eng.get_field(st, r, "_trial_id").term == V.i(e))), patterns=[r.term]))))


@R.specfunc()
def listed_by_number(eng, st, study, trials):
    storage = eng.get_field(st, study, "_storage")
    sid = eng.get_field(st, study, "_study_id")
    k = z3.Int("ln_k")
    t = eng.list_get(st, trials, k)
    x = z3.Int("ln_t")
    xv = SV(KRef("FrozenTrial"), x)
    xn = eng.get_field(st, xv, "_number").term
    return SV(KBool, z3.And(
        qforall([k], z3.Implies(z3.And(0 <= k, k < eng.list_len(st, trials)),
                                z3.And(eng.get_field(st, t, "_number").term == k, _study._as_trial(storage.term, sid.term, t.term))), patterns=[t.term]),
        # ... and every current trial is listed, at the position of its number
        qforall([x], z3.Implies(_study._as_trial(storage.term, sid.term, x),
                                z3.And(0 <= xn, xn < eng.list_len(st, trials), eng.list_get(st, trials, xn).term == x)),
                patterns=[_study._as_trial(storage.term, sid.term, x)])))


@R.specfunc()
def ids_are_numbers(eng, st, study):
    """Restriction under which the parent cache is correct: every current trial's storage id equals its number (true on a fresh
    single-study in-memory storage only)."""
    storage = eng.get_field(st, study, "_storage")
    sid = eng.get_field(st, study, "_study_id")
    t = z3.Int("ian_t")
    tv = SV(KRef("FrozenTrial"), t)
    return SV(KBool, qforall([t], z3.Implies(_study._as_trial(storage.term, sid.term, t),
                                             eng.get_field(st, tv, "_trial_id").term == eng.get_field(st, tv, "_number").term),
                             patterns=[_study._as_trial(storage.term, sid.term, t)]))


@R.specfunc()
def cache_entry_wf(eng, st):
    """Record schema of the cache entry (what get_parent_population itself writes): a list of ints."""
    return SV(KBool, z3.BoolVal(True))


R.spec(GA, "BaseGASampler.get_parent_population", props=["C09"], types={"study": "Study"}, returns_kind="list[FrozenTrial]",
       requires=["generation >= 0"],
       cases=[case("gen0", when="generation == 0", ensures=["len(result) == 0"]),
              case("ok", any_outcome=True, ensures_return=[
                  # what comes back from the cache are the trials whose ids were cached -- on EVERY storage, whatever its ids
                  "cached_parents_by_id(self, study, generation, result)"])],
       modifies=["L:*", "D:*:dict<str,val>", "G:is_tuple"])

# the same contract under the restriction R' = "every trial's storage id equals its number": proved; without it the clause
# fails (F6, known finding: the cache stores ids but is read back by position in the number-ordered list)
R.spec(GA, "BaseGASampler.get_parent_population", variant="ids-are-numbers", props=["C09"], types={"study": "Study"},
       returns_kind="list[FrozenTrial]",
       requires=["generation >= 0", "ids_are_numbers(study)"],
       cases=[case("gen0", when="generation == 0", ensures=["len(result) == 0"]),
              case("ok", any_outcome=True, ensures_return=["cached_parents_by_id(self, study, generation, result)"])],
       modifies=["L:*", "D:*:dict<str,val>", "G:is_tuple"])
