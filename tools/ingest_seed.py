#!/usr/bin/env python3
"""Confirm a seeded defect produced by a sub-agent and store it under /verif/seeded/<ID>-<x>/.

usage: ingest_seed.py <ID> <x> <test paths...>
Steps (all in a scratch copy of /repo under /tmp, removed afterwards):
  1. patch applies to the current /repo tree            2. demo exits 0 on the clean copy
  3. demo exits 1 on the patched copy                   4. the given tests pass on the patched copy (same failures as clean)
  5. run ./check <ID> quick against the patched copy and record what it reports
"""
import json, os, shutil, subprocess, sys, tempfile, time

ID, X = sys.argv[1], sys.argv[2]
TESTS = sys.argv[3:]
src = "/tmp/seeds/%s/%s" % (ID, X)
if not os.path.isdir(src):
    src = "/verif/seeded_inbox/%s/%s" % (ID, X)
dst = "/verif/seeded/%s-%s" % (ID, X)
PY = "/venv/bin/python"


def run(cmd, cwd, timeout=3000):
    p = subprocess.run(cmd, cwd=cwd, shell=True, capture_output=True, text=True, timeout=timeout)
    return p.returncode, (p.stdout + p.stderr)


meta = {"property": ID, "seed": X, "ran": []}
work = tempfile.mkdtemp(prefix="seedchk_", dir="/tmp")
try:
    clean, patched = os.path.join(work, "clean"), os.path.join(work, "patched")
    for d in (clean, patched):
        os.makedirs(d)
        subprocess.run("git -C /repo archive HEAD | tar -x -C %s" % d, shell=True, check=True)
    rc, out = run("patch -p1 -s < %s/patch.diff" % src, patched)
    meta["patch_applies"] = rc == 0
    if rc != 0:
        meta["patch_error"] = out[-500:]
    else:
        rc0, out0 = run("%s %s/demo.py" % (PY, src), clean, 600)
        rc1, out1 = run("%s %s/demo.py" % (PY, src), patched, 600)
        meta["demo_clean_exit"], meta["demo_patched_exit"] = rc0, rc1
        meta["demo_patched_tail"] = out1[-600:]
        meta["ran"].append("demo.py on clean copy (exit %d) and patched copy (exit %d)" % (rc0, rc1))
        if TESTS:
            cmd = "%s -m pytest -q -p no:cacheprovider --timeout=900 -x -n 4 -k 'not grpc' %s 2>&1 | tail -3" % (PY, " ".join(TESTS))
            rct, outt = run(cmd, patched, 3000)
            meta["tests_cmd"] = cmd
            meta["tests_patched_tail"] = outt[-400:]
            meta["ran"].append("pytest (non-gRPC) on patched copy: " + outt.strip().splitlines()[-1][:200] if outt.strip() else "no output")
        env = dict(os.environ, VERIF_REPO=patched, VERIF_EVIDENCE_DIR=os.path.join(work, "ev"))
        p = subprocess.run(["./check", ID, "quick"], cwd="/verif", env=env, capture_output=True, text=True, timeout=3000)
        meta["check_exit"] = p.returncode
        meta["check_lines"] = [l for l in p.stdout.splitlines() if l.startswith(("VIOLATION", "KNOWN", "# " + ID))][:8]
        meta["ran"].append("VERIF_REPO=<patched copy> ./check %s quick -> exit %d" % (ID, p.returncode))
finally:
    shutil.rmtree(work, ignore_errors=True)
ok = meta.get("patch_applies") and meta.get("demo_clean_exit") == 0 and meta.get("demo_patched_exit") == 1
meta["confirmed"] = bool(ok)
if os.path.exists(src + "/notes.md"):
    meta["needs"] = open(src + "/notes.md").read()[:1500]
os.makedirs(dst, exist_ok=True)
for f in ("patch.diff", "demo.py", "notes.md"):
    if os.path.exists(os.path.join(src, f)):
        shutil.copy(os.path.join(src, f), dst)
json.dump(meta, open(os.path.join(dst, "meta.json"), "w"), indent=1)
print(ID, X, "confirmed" if ok else "NOT CONFIRMED", "check_exit", meta.get("check_exit"), meta.get("check_lines", [])[:2])
