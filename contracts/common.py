"""Shared contract helpers."""
import z3

from pyvc.kinds import *  # noqa
from pyvc.state import SV

ALL_T_FIELDS = ["_number", "state", "_values", "_datetime_start", "datetime_complete", "_params",
                "_distributions", "_user_attrs", "_system_attrs", "intermediate_values", "_trial_id"]
CONTAINER_T_FIELDS = ["_params", "_distributions", "_user_attrs", "_system_attrs", "intermediate_values", "_values"]


def deepcopy_trial_list(eng, st, v, node=None):
    """copy.deepcopy(list[FrozenTrial]): a fresh list of fresh FrozenTrial objects (pairwise distinct, distinct from
    everything allocated before); scalar fields equal; every container field is a fresh container with equal
    content.  Objects allocated before the call are unchanged."""
    n = eng.list_len(st, v)
    old_nref = st.nref
    out = eng.new_list(st, KList(v.kind.elem, ""), n)
    new_nref = st.fresh("nref", z3.IntSort())
    st.assume(new_nref >= st.nref)
    st.nref = new_nref
    cp = st.fresh("dc_obj", z3.ArraySort(z3.IntSort(), z3.IntSort()))
    inv = st.fresh("dc_inv", z3.ArraySort(z3.IntSort(), z3.IntSort()))
    i, r = z3.Int("dc_i"), z3.Int("dc_r")
    _, e_src = eng.lnames(v.kind)
    src = eng.harr(st, e_src)[v.term]
    _, e_dst = eng.lnames(out.kind)
    st.heap[e_dst] = z3.Store(eng.harr(st, e_dst), out.term, cp)
    inr = z3.And(0 <= i, i < n)
    st.assume(qforall([i], z3.Implies(inr, z3.And(cp[i] > old_nref, cp[i] < new_nref, inv[cp[i]] == i)), patterns=[cp[i]]), quantified=True)
    for f in ALL_T_FIELDS:
        name, kind = eng.fname("FrozenTrial", f)
        a0 = eng.harr(st, name)
        a1 = eng.havoc_harr(st, name)
        st.assume(qforall([r], z3.Implies(z3.And(0 <= r, r <= old_nref), a1[r] == a0[r]), patterns=[a1[r]]), quantified=True)
        if f not in CONTAINER_T_FIELDS:
            st.assume(qforall([i], z3.Implies(inr, a1[cp[i]] == a0[src[i]]), patterns=[a1[cp[i]]]), quantified=True)
            continue
        # fresh container with equal content
        cf = st.fresh("dc_" + f, z3.ArraySort(z3.IntSort(), z3.IntSort()))
        if isinstance(kind, KDict):
            names = eng.dnames(kind)
        else:
            names = eng.lnames(kind)
        olds = [eng.harr(st, nm) for nm in names]
        news = [eng.havoc_harr(st, nm) for nm in names]
        for o, nw in zip(olds, news):
            st.assume(qforall([r], z3.Implies(z3.And(0 <= r, r <= old_nref), nw[r] == o[r]), patterns=[nw[r]]), quantified=True)
        null_ok = (a0[src[i]] == 0) if kind.nullable else z3.BoolVal(False)
        body = z3.If(null_ok, a1[cp[i]] == 0,
                     z3.And(a1[cp[i]] == cf[i], cf[i] > old_nref, cf[i] < new_nref,
                            z3.And([nw[cf[i]] == o[a0[src[i]]] for o, nw in zip(olds, news)])))
        st.assume(qforall([i], z3.Implies(inr, body), patterns=[a1[cp[i]]]), quantified=True)
    eng.set_is_tuple(st, out, False)
    return out


