"""Contracts for optuna/study/_tell.py and _optimize.py (C02)."""
import z3

from pyvc.contracts import Registry, case, loop
from pyvc.kinds import *  # noqa
from pyvc.state import SV
from pyvc import lib
from contracts import storage_model

R = Registry()
R.merge(storage_model.R)
T = "optuna/study/_tell.py"
O = "optuna/study/_optimize.py"

INT_FLOAT_LIMIT = 2 ** 1024 - 2 ** 970   # |i| >= this: float(i) raises OverflowError


def _float_ok_t(t):
    V = val_sort()
    return z3.Or(V.is_vflt(t), V.is_vbool(t),
                 z3.And(V.is_vint(t), V.i(t) < INT_FLOAT_LIMIT, V.i(t) > -INT_FLOAT_LIMIT),
                 z3.And(V.is_vstr(t), lib._float_of_str_ok(V.s(t))))


def _nan_t(t):
    V = val_sort()
    return z3.Or(z3.And(V.is_vflt(t), f_is_nan(V.f(t))),
                 z3.And(V.is_vstr(t), f_is_nan(lib._float_of_str(V.s(t)))))


def _item_ok_t(t):
    return z3.And(_float_ok_t(t), z3.Not(_nan_t(t)))


def _seq(eng, st, v):
    """(is_seq, length, getter) of a dynamic value seen as a Python Sequence (list, tuple or str)."""
    V = val_sort()
    t = eng.coerce(st, v, KVal).term
    is_seq = z3.Or(V.is_vlist(t), V.is_vtuple(t), V.is_vstr(t))
    l = SV(KList(KVal), z3.If(V.is_vlist(t), V.lr(t), V.tr(t)))
    n = z3.If(V.is_vstr(t), z3.Length(V.s(t)), eng.list_len(st, l))

    def get(i):
        e = eng.list_get(st, l, i)
        return z3.If(V.is_vstr(t), V.vstr(z3.SubString(V.s(t), i, 1)), e.term)
    return t, is_seq, n, get


@R.specfunc()
def is_seq(eng, st, v):
    return SV(KBool, _seq(eng, st, v)[1])


@R.specfunc()
def seq_len(eng, st, v):
    return SV(KInt, _seq(eng, st, v)[2])


@R.specfunc()
def prefix_ok(eng, st, v, upto):
    """Items 0..upto-1 are float-convertible and not NaN."""
    t, isq, n, get = _seq(eng, st, v)
    j = z3.Int("pf_j")
    return SV(KBool, qforall([j], z3.Implies(z3.And(0 <= j, j < upto.term), _item_ok_t(get(j)))))


@R.specfunc()
def all_ok(eng, st, v):
    t, isq, n, get = _seq(eng, st, v)
    j = z3.Int("pf_j")
    return SV(KBool, qforall([j], z3.Implies(z3.And(0 <= j, j < n), _item_ok_t(get(j)))))


@R.specfunc()
def feasible(eng, st, study, v):
    """The statement's COMPLETE condition: value(s) float-convertible, NaN-free, one per objective.
    A non-sequence value counts as one value."""
    V = val_sort()
    t, isq, n, get = _seq(eng, st, v)
    nd = eng.list_len(st, eng.get_field(st, study, "_directions"))
    j = z3.Int("pf_j")
    seq_ok = z3.And(qforall([j], z3.Implies(z3.And(0 <= j, j < n), _item_ok_t(get(j)))), n == nd)
    return SV(KBool, z3.And(z3.Not(V.is_vnone(t)), z3.If(isq, seq_ok, z3.And(_item_ok_t(t), nd == 1))))


@R.specfunc()
def stored_values_match(eng, st, vals, study, v):
    """vals (list[float]) are the float conversions of the told value(s)."""
    t, isq, n, get = _seq(eng, st, v)
    j = z3.Int("sv_j")
    ln = eng.list_len(st, vals)
    ej = eng.list_get(st, vals, j).term
    seq_case = z3.And(ln == n, qforall([j], z3.Implies(z3.And(0 <= j, j < n), ej == lib.val_to_float_term(get(j)))))
    one_case = z3.And(ln == 1, eng.list_get(st, vals, z3.IntVal(0)).term == lib.val_to_float_term(t))
    return SV(KBool, z3.And(vals.term != 0, z3.If(isq, seq_case, one_case)))


# --- _check_values_are_feasible: TOTAL (never raises), None iff feasible ---------------------
R.spec(T, "_check_values_are_feasible", props=["C02"],
       types={"values": "Any", "study": "Study"},
       requires=["is_seq(values)", "len(study._directions) >= 1"],
       cases=[
           case("feasible", when="all_ok(values) and seq_len(values) == len(study._directions)",
                returns_pred="result is None"),
           case("infeasible", returns_pred="result is not None"),
       ],
       loops={0: loop(index="_i", invariant=["prefix_ok(values, _i)", "0 <= _i"])},
       returns_kind="str | None")

R.spec(T, "_check_state_and_values", inline=True)
R.spec(T, "_get_frozen_trial", inline=True, types={"trial": "Trial"})

TID = "trial._trial_id"
STO = "study._storage"
BADARGS = ("(state == TrialState.COMPLETE and value_or_values is None) or "
           "((state == TrialState.PRUNED or state == TrialState.FAIL) and value_or_values is not None) or "
           "(state is not None and state != TrialState.COMPLETE and state != TrialState.PRUNED and state != TrialState.FAIL)")

R.spec(T, "_tell_with_warning", props=["C02"],
       types={"trial": "Trial", "value_or_values": "Any", "study": "Study"},
       locals={"values": None},
       requires=["len(study._directions) >= 1"],
       cases=[
           case("missing", when=TID + " not in study._storage.g_state", raises="KeyError",
                ensures=["as_unchanged(study._storage)"]),
           # tell never alters a finished trial
           case("skip", when="finished(study._storage.g_state[%s]) and skip_if_finished" % TID,
                ensures=["as_unchanged(study._storage)", "result.state == study._storage.g_state[%s]" % TID]),
           case("not-running", when="study._storage.g_state[%s] != TrialState.RUNNING" % TID, raises="ValueError",
                ensures=["as_unchanged(study._storage)"]),
           case("bad-arguments", when=BADARGS, raises="ValueError", ensures=["as_unchanged(study._storage)"]),
           case("explicit-complete-infeasible",
                when="state == TrialState.COMPLETE and not feasible(study, value_or_values)", raises="ValueError",
                ensures=["as_unchanged(study._storage)"]),
           # every other exit, normal or exceptional: the trial was finished exactly once
           case("told", any_outcome=True, ensures=[
               "study._storage.g_ssv_calls == old(study._storage.g_ssv_calls) + 1",
               "study._storage.g_ssv_tid == " + TID,
               "finished(study._storage.g_ssv_state)",
               "study._storage.g_state[%s] == study._storage.g_ssv_state" % TID,
               "as_same_except(study._storage, %s)" % TID,
               "implies(state is None, (study._storage.g_ssv_state == TrialState.COMPLETE) == feasible(study, value_or_values))",
               "implies(state is None and not feasible(study, value_or_values), study._storage.g_ssv_state == TrialState.FAIL)",
               "implies(state is not None, study._storage.g_ssv_state == state)",
               "implies(study._storage.g_ssv_state == TrialState.FAIL, study._storage.g_ssv_values is None)",
               "implies(study._storage.g_ssv_state == TrialState.COMPLETE, "
               "stored_values_match(study._storage.g_ssv_values, study, value_or_values))",
           ]),
       ],
       modifies=storage_model.AS_MOD + ["F:_ThreadLocalStudyAttribute.cached_all_trials", "F:FrozenTrial.*",
                                        "D:*:dict<str,val>@ts", "D:*@t*", "L:*:list<float>", "L:*:list<val>"],
       note="verified for trial: Trial (what Study.optimize passes); the int branch of _get_frozen_trial differs "
            "only by a storage lookup that raises ValueError before any write")
