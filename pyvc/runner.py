"""Parallel verification: paths of all selected functions are explored in waves by a pool of worker
processes (each decision prefix is one task; workers cache their engine)."""
from __future__ import annotations

import hashlib
import importlib
import json
import multiprocessing as mp
import os
import sys
import time
import traceback


def load_registry(modules):
    from .contracts import Registry
    reg = Registry()
    for m in modules:
        mod = importlib.import_module(m)
        reg.merge(mod.R)
    return reg


_ENG = {}


def _engine(modules):
    key = tuple(modules)
    if key not in _ENG:
        sys.setrecursionlimit(20000)
        from .frontend import Frontend, setup_repo_path
        setup_repo_path()
        from .execs import Exec
        reg = load_registry(modules)
        eng = Exec(reg, Frontend())
        _ENG[key] = (eng, reg)
        _warm_up(eng, reg)
    return _ENG[key]


def _warm_up(eng, reg):
    """Heap-array kinds are registered lazily, and `modifies` globs (`L:*`) expand over the kinds registered so far: without
    this pass the set of arrays a call havocs -- and with it the shape of later obligations -- would depend on which paths
    the worker process happened to run before.  One pass over the first path of every function under contract registers
    the kinds up front, identically in every process."""
    from .state import State, PathCut, Unsupported
    for (file, qual), c in sorted(reg.contracts.items(), key=lambda kv: kv[0]):
        if c.trusted or c.inline or not c.verify:
            continue
        try:
            fi = eng.fe.lemma_func(c) if c.lemma_src is not None else eng.fe.func(c.file, c.qualname)
            eng.touched = {}
            eng.inline_depth = 0
            eng.spec_mode = 0
            eng.spec_stack = []
            st = State([])
            saved = os.environ.get("PYVC_NO_VACUITY")
            os.environ["PYVC_NO_VACUITY"] = "1"
            try:
                eng.run_path(st, fi, c)
            finally:
                if saved is None:
                    os.environ.pop("PYVC_NO_VACUITY", None)
                else:
                    os.environ["PYVC_NO_VACUITY"] = saved
        except (PathCut, Unsupported, KeyError, OSError, SyntaxError, ImportError, RecursionError):
            pass
        except Exception:
            pass
    eng.__dict__.pop("_vacuity_probed", None)


def _path_work(args):
    """Run ONE path (decision prefix) of one function and discharge its obligations."""
    modules, file, qualname, prefix, opts, hard = args
    import z3
    from .state import State, PathCut, Unsupported
    from . import solve, verify, lib
    out = {"key": (file, qualname), "prefix": prefix, "obligations": [], "alternatives": [], "terminal": False,
           "status": "ok", "reason": "", "touched": {}, "time": 0.0, "lib_used": []}
    t0 = time.time()
    try:
        eng, reg = _engine(modules)
        c = reg.contracts[(file, qualname)]
        if c.lemma_src is not None:
            fi = eng.fe.lemma_func(c)
        else:
            fi = eng.fe.func(c.file, c.qualname)
        eng.touched = {fi.key: eng.fe.source_hash(fi)}
        eng.inline_depth = 0
        eng.spec_mode = 0
        eng.spec_stack = []
        st = State(prefix)
        try:
            eng.run_path(st, fi, c)
            out["terminal"] = True
        except PathCut:
            pass
        out["alternatives"] = st.alternatives
        if st.ghost.get("vacuity_alarms"):
            out["status"], out["reason"] = "error", "VACUITY: " + "; ".join(st.ghost["vacuity_alarms"][:3])
        hook = None
        if opts.get("replay"):
            from . import replay
            hook = replay.model_hook
        hints = opts.get("hints") or {}
        if getattr(c, "variant", None):
            # witness scenarios are attached to the unrestricted contract only; a restricted variant must be proved
            hints = {k: v for k, v in hints.items() if v != "witness"}
        inc = solve.PathSolver(st.facts, set(hard), hints)
        for ob in st.obligations:
            if ob.kind == "guarded-by":
                ob.status = "discharged" if z3.is_true(ob.goal) else "failed"
                ob.backend = "ghost-lockset"
            else:
                inc.discharge(ob, recheck_cvc5=opts.get("recheck_cvc5", False))
            if ob.status == "failed" and hook is not None and ob.model is not None:
                try:
                    hook(eng, st, fi, c, ob)
                except Exception as e:  # replay is best effort
                    ob.info["replay_error"] = repr(e)
            out["obligations"].append(verify.ob_to_dict(ob))
        if opts.get("vacuity") and st.obligations:
            # vacuity probe: a path that carries obligations must not be refutable by the very facts it assumes (contract
            # postconditions, loop invariants, library axioms); E-matching only, short budget; `unknown` = not refuted
            vs = z3.Solver()
            vs.set("auto_config", False)
            vs.set("mbqi", False)
            vs.set("timeout", int(opts.get("vacuity_ms", 1500)))
            for f in st.facts:
                vs.add(f)
            out["vacuous"] = (vs.check() == z3.unsat)
        out["touched"] = {"%s:%s" % k: v for k, v in eng.touched.items()}
        out["lib_used"] = sorted(lib.USED)
    except Unsupported as e:
        out["status"], out["reason"] = "undecided", str(e)
    except (KeyError, FileNotFoundError, OSError, SyntaxError, ImportError) as e:
        out["status"], out["reason"] = "undecided", "function not found / not importable: %r" % (e,)
    except RecursionError:
        out["status"], out["reason"] = "undecided", "recursion limit"
    except Exception as e:
        out["status"], out["reason"] = "error", "%r\n%s" % (e, traceback.format_exc()[-2500:])
    out["time"] = time.time() - t0
    return out


MAX_PATHS = int(os.environ.get("PYVC_MAX_PATHS", "6000"))


def run(modules, select=None, jobs=None, opts=None):
    """Verify every non-trusted, non-inline contract of `modules` (optionally filtered)."""
    opts = opts or {}
    from .frontend import setup_repo_path
    setup_repo_path()
    reg = load_registry(modules)
    funcs = {}
    for key, c in reg.contracts.items():
        if c.trusted or c.inline or not c.verify:
            continue
        if select is not None and not select(c):
            continue
        funcs[key] = {"file": c.file, "qualname": key[1], "paths": 0, "terminal_paths": 0, "obligations": [], "status": "ok",
                      "reason": "", "src_hash": "", "time": 0.0, "lib_used": set(), "touched": {}, "hard": set(), "deps": []}
    t0 = time.time()
    jobs = jobs or int(os.environ.get("PYVC_JOBS", "16"))

    def handle(r, submit):
        f = funcs[tuple(r["key"])]
        f["paths"] += 1
        f["time"] += r["time"]
        f["lib_used"] |= set(r["lib_used"])
        f["touched"].update(r["touched"])
        if r["status"] != "ok":
            if f["status"] == "ok" or r["status"] == "error":
                f["status"], f["reason"] = r["status"], r["reason"]
            return
        if r.get("vacuous"):
            f.setdefault("vacuous_paths", []).append(list(r["prefix"]))
        if r["terminal"]:
            f["terminal_paths"] += 1
        for ob in r["obligations"]:
            ob["path"] = f["paths"]
            f["obligations"].append(ob)
            if ob["status"] != "discharged":
                f["hard"].add(ob["name"])
        if f["status"] != "ok":
            return
        if f["paths"] + len(r["alternatives"]) > MAX_PATHS:
            f["status"], f["reason"] = "undecided", "more than %d paths" % MAX_PATHS
            return
        for alt in r["alternatives"]:
            submit((modules, r["key"][0], r["key"][1], alt, opts, tuple(sorted(f["hard"]))[:50]))

    first = [(modules, k[0], k[1], [], opts, ()) for k in funcs]
    if jobs <= 1:
        todo = list(first)
        while todo:
            handle(_path_work(todo.pop()), todo.append)
    else:
        import concurrent.futures as cf
        ctx = mp.get_context("fork")
        with cf.ProcessPoolExecutor(max_workers=jobs, mp_context=ctx) as ex:
            pending = set()

            def submit(a):
                pending.add(ex.submit(_path_work, a))
            for a in first:
                submit(a)
            while pending:
                done, _ = cf.wait(pending, return_when=cf.FIRST_COMPLETED)
                for fu in done:
                    pending.discard(fu)
                    handle(fu.result(), submit)
    out = []
    for key, f in funcs.items():
        f["src_hash"] = hashlib.sha256(json.dumps(sorted(f["touched"].items())).encode()).hexdigest()[:16]
        f["deps"] = sorted(f["touched"])
        f["lib_used"] = sorted(f["lib_used"])
        del f["touched"], f["hard"]
        out.append(f)
    return reg, out, time.time() - t0


if __name__ == "__main__":
    mods = sys.argv[1].split(",")
    only = set(sys.argv[2:])
    reg, results, wall = run(mods, (lambda c: c.key[1] in only or c.qualname in only) if only else None,
                             opts={"vacuity": bool(os.environ.get("PYVC_VACUITY"))})
    bad = 0
    for r in results:
        obs = r["obligations"]
        nd = sum(1 for o in obs if o["status"] == "discharged")
        print("== %-55s %-9s paths=%d obs=%d discharged=%d %.1fs %s" % (r["qualname"], r["status"], r["paths"], len(obs), nd, r["time"], r["reason"][:300]))
        if r.get("vacuous_paths"):
            print("    VACUOUS paths: %d e.g. %s" % (len(r["vacuous_paths"]), r["vacuous_paths"][:3]))
        seen = set()
        for o in obs:
            if o["status"] != "discharged":
                bad += 1
                k = (o["status"], o["name"], o.get("outcome"))
                if k in seen:
                    continue
                seen.add(k)
                print("    %s %s | %s | %s | %s %s" % (o["status"], o["name"], o.get("clause"), o.get("outcome"), o.get("backend"), json.dumps(o.get("model"))[:300]))
    print("wall %.1fs, not discharged: %d" % (wall, bad))
