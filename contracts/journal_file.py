"""Contracts for optuna/storages/journal/_file.py (C07, C05) over a GHOST FILE MODEL (trusted, DESIGN 5-C07).

The journal file is a sequence of lines  L[0..N):  len[j] >= 1 bytes, nl[j] (ends with a newline; only the last
line may lack it), ok[j] (json.loads succeeds), rec[j] (the decoded record), off[j] = byte offset of line j
(prefix sums, off[0] = 0).  lineat(off[j]) = j.  os.stat().st_size returns S with 0 <= S <= off[N] (the file may
have grown between stat and the read loop: append-only).  Iterating the open file from a line start yields the
lines from there to N.  A record is VALID when nl and ok.  V = number of leading valid lines.

WF(F): every line except possibly the last is valid, and a last line that ends in a newline is valid (writers only
write complete valid records; a torn tail has no newline).
"""
import z3

from pyvc.contracts import Registry, case, loop
from pyvc.kinds import *  # noqa
from pyvc.state import SV, NONE, PyRaise, PyExc, Unsupported

R = Registry()
F = "optuna/storages/journal/_file.py"

import json as _json  # noqa: E402
import os as _os  # noqa: E402
import builtins as _bi  # noqa: E402
import optuna.storages.journal._file as _jf  # noqa: E402
R.classes.update({"JournalFileBackend": _jf.JournalFileBackend, "BaseJournalFileLock": _jf.BaseJournalFileLock})
R.schema("JournalFileBackend", {"_file_path": "str", "_lock": "BaseJournalFileLock", "_log_number_offset": "dict[int, int] @ lno"})
R.schema("stat_result", {})
I, B = z3.IntSort(), z3.BoolSort()


class FileModel:
    """Ghost file; one per verification path (lives in st.ghost)."""

    def __init__(self, st, tag="F"):
        A = lambda nm, rng: z3.Const("%s_%s" % (tag, nm), z3.ArraySort(I, rng))
        self.N = z3.Int("%s_N" % tag)
        self.len, self.off, self.rec = A("len", I), A("off", I), A("rec", I)
        self.nl, self.ok = A("nl", B), A("ok", B)
        self.S = z3.Int("%s_S" % tag)
        self.lineat = uf("%s_lineat" % tag, I, I)

    def axioms(self, st):
        j, i = z3.Int("fm_j"), z3.Int("fm_i")
        N, ln, off = self.N, self.len, self.off
        return [
            N >= 0, off[0] == 0,
            qforall([j], z3.Implies(z3.And(0 <= j, j < N), z3.And(ln[j] >= 1, off[j + 1] == off[j] + ln[j])), patterns=[ln[j]]),
            qforall([j], z3.Implies(z3.And(0 <= j, j < N - 1), self.nl[j]), patterns=[self.nl[j]]),
            qforall([i, j], z3.Implies(z3.And(0 <= i, i < j, j <= N), off[i] < off[j]), patterns=[z3.MultiPattern(off[i], off[j])]),
            qforall([j], z3.Implies(z3.And(0 <= j, j <= N), self.lineat(off[j]) == j), patterns=[off[j]]),
            qforall([j], z3.Implies(z3.And(0 <= j, j < N, self.ok[j]), z3.And(self.rec[j] > 0, self.rec[j] < st.nref0)), patterns=[self.rec[j]]),
            0 <= self.S, self.S <= off[N],
        ]

    def valid(self, j):
        return z3.And(self.nl[j], self.ok[j])

    def V(self):
        N = self.N
        return z3.If(z3.Or(N == 0, self.valid(N - 1)), N, N - 1)

    def wf(self):
        j = z3.Int("wf_j")
        N = self.N
        return z3.And(qforall([j], z3.Implies(z3.And(0 <= j, j < N - 1), self.ok[j]), patterns=[self.ok[j]]),
                      z3.Implies(z3.And(N > 0, self.nl[N - 1]), self.ok[N - 1]))


def fm(st) -> FileModel:
    if "file" not in st.ghost:
        st.ghost["file"] = FileModel(st)
        for a in st.ghost["file"].axioms(st):
            st.assume(a, quantified=z3.is_quantifier(a))
    return st.ghost["file"]


# --- library model of the file API used by the backend -------------------------------------------------
def _open(eng, st, args, kwargs, node):
    f = eng.new_object(st, "file")
    st.ghost["fpos"] = z3.IntVal(0)         # line index of the read position
    return f


def _with_file(eng, st, cm, item, node):
    if item.optional_vars is not None:
        eng.assign(st, item.optional_vars, cm, node)
    eng.exec_block(st, node.body)


def _stat(eng, st, args, kwargs, node):
    fm(st)
    return eng.new_object(st, "stat_result")


def _seek(eng, st, recv, args, kwargs, node):
    m = fm(st)
    o = eng.coerce(st, args[0], KInt, node).term
    p = m.lineat(o)
    # seeking is only meaningful at a line start of the current file
    st.oblige("JournalFileBackend.read_logs:seek-at-line-start", z3.And(0 <= p, p <= m.N, m.off[p] == o), kind="assert",
              where="line %s" % getattr(node, "lineno", "?"), info={"clause": "f.seek(offset): offset is the start of a line"})
    st.ghost["fpos"] = p
    return NONE


def _iter_file(eng, st, f, node):
    m = fm(st)
    p = st.ghost["fpos"]
    n = m.N - p
    return n, (lambda i: SV(KRef("fileline"), p + i + 1))     # line object = its index + 1 (non-null)


def _line_index(line):
    return line.term - 1


def _len_line(eng, st, line):
    return SV(KInt, fm(st).len[_line_index(line)])


def _endswith(eng, st, recv, args, kwargs, node):
    return SV(KBool, fm(st).nl[_line_index(recv)])


class _JSONDecodeError(ValueError):
    pass


def _json_loads(eng, st, args, kwargs, node):
    (line,) = args
    if not (isinstance(line.kind, KRef) and line.kind.cls == "fileline"):
        raise Unsupported("json.loads on %s" % line.kind)
    m = fm(st)
    j = _line_index(line)
    if not st.branch(m.ok[j], "json.loads-ok"):
        raise PyRaise(PyExc(_json.JSONDecodeError, where="json.loads line %s" % getattr(node, "lineno", "?")))
    return SV(KDict(KStr, KVal), m.rec[j])


R.rt_helpers["builtins"] = {_bi.open: _open, _os.stat: _stat, _json.loads: _json_loads}
R.rt_helpers["methods"] = {("file", "seek"): _seek, ("fileline", "endswith"): _endswith}
R.specfuncs["__with__:file"] = _with_file
R.specfuncs["__iter__:file"] = _iter_file


@R.specfunc("len_hook:fileline")
def _len_hook(eng, st, line):
    return _len_line(eng, st, line)


# --- spec functions -------------------------------------------------------------------------------------
def _cache(eng, st, self_sv):
    return eng.get_field(st, self_sv, "_log_number_offset")


@R.specfunc()
def cache_inv(eng, st, self_sv):
    """Every cached (record number -> byte offset) pair names the start of that record, and only records preceded by
    valid records are cached: cache[0] = 0; j in cache => 0 <= j <= V and cache[j] = off[j]."""
    m = fm(st)
    c = _cache(eng, st, self_sv)
    j = z3.Int("ci_j")
    has = eng.dict_has(st, c, SV(KInt, j))
    val = eng.dict_get(st, c, SV(KInt, j)).term
    return SV(KBool, z3.And(c.term > 0, eng.dict_has(st, c, SV(KInt, z3.IntVal(0))),
                            eng.dict_get(st, c, SV(KInt, z3.IntVal(0))).term == 0,
                            qforall([j], z3.Implies(has, z3.And(0 <= j, j <= m.V(), val == m.off[j])), patterns=[has])))


@R.specfunc()
def cache_below_size(eng, st, self_sv):
    """Append-only file: offsets cached by earlier calls are <= the size stat() reports now."""
    m = fm(st)
    c = _cache(eng, st, self_sv)
    j = z3.Int("cb_j")
    has = eng.dict_has(st, c, SV(KInt, j))
    return SV(KBool, qforall([j], z3.Implies(has, m.off[j] <= m.S), patterns=[has]))


@R.specfunc()
def file_wf(eng, st):
    return SV(KBool, fm(st).wf())


@R.specfunc()
def f_V(eng, st):
    return SV(KInt, fm(st).V())


@R.specfunc()
def f_N(eng, st):
    return SV(KInt, fm(st).N)


@R.specfunc()
def f_S(eng, st):
    return SV(KInt, fm(st).S)


@R.specfunc()
def f_off(eng, st, j):
    return SV(KInt, fm(st).off[j.term])


@R.specfunc()
def f_rec(eng, st, j):
    return SV(KDict(KStr, KVal), fm(st).rec[j.term])


@R.specfunc()
def f_valid(eng, st, j):
    return SV(KBool, fm(st).valid(j.term))


@R.specfunc()
def logs_are(eng, st, logs, frm, upto):
    """logs == [rec[j] for frm <= j < upto] (empty when upto <= frm)."""
    m = fm(st)
    n = eng.list_len(st, logs)
    j = z3.Int("la_j")
    e = eng.list_get(st, logs, j).term
    cnt = z3.If(upto.term > frm.term, upto.term - frm.term, 0)
    return SV(KBool, z3.And(logs.term > 0, n == cnt,
                            qforall([j], z3.Implies(z3.And(0 <= j, j < n), e == m.rec[frm.term + j]), patterns=[e])))


@R.specfunc()
def stat_size(eng, st, s):
    return SV(KInt, fm(st).S)


# `os.stat(path).st_size` -> the ghost size S
R.schema("stat_result", {"st_size": "int"})


def _stat2(eng, st, args, kwargs, node):
    m = fm(st)
    o = eng.new_object(st, "stat_result")
    eng.set_field(st, o, "st_size", SV(KInt, m.S))
    return o


R.rt_helpers["builtins"][_os.stat] = _stat2

START = "(log_number_from if old(log_number_from in self._log_number_offset) else 0)"
R.spec(F, "JournalFileBackend.read_logs", props=["C07", "C05", "C06"],
       locals={"logs": "list[dict[str, Any]]", "last_decode_error": "ref[exc] | None", "remaining_log_size": "int",
               "log_number_start": "int"},
       setup=lambda cx: fm(cx.st),
       # callers read from the number of records they have already seen: never beyond the valid records;
       # the file only grows: everything cached earlier lies inside the size seen now
       requires=["file_wf()", "cache_inv(self)", "0 <= log_number_from", "log_number_from <= f_V()", "cache_below_size(self)"],
       cases=[case("ok", ensures=[
           # exactly the complete records k..m that were inside the file when it was stat'ed, in order,
           # never a partly written one, never an exception
           "logs_are(result, log_number_from, log_number_from + len(result))",
           "log_number_from + len(result) <= f_V() or len(result) == 0",
           "implies(len(result) > 0, f_off(log_number_from + len(result)) <= f_S())",
           "implies(log_number_from <= f_V() and log_number_from + len(result) < f_V(), "
           "f_off(log_number_from + len(result) + 1) > f_S())",
           "cache_inv(self)", "cache_below_size(self)",
       ])],
       loops={0: loop(index="_i", invariant=[
           "0 <= _i", "log_number_start == %s" % START, "log_number_start + _i <= f_N()",
           "remaining_log_size == f_S() - f_off(log_number_start + _i)", "remaining_log_size >= 0",
           "cache_inv(self)", "cache_below_size(self)",
           "implies(last_decode_error is None, (log_number_start + _i) in self._log_number_offset)",
           "implies(last_decode_error is not None, log_number_start + _i == f_N())",
           "implies(last_decode_error is None, log_number_start + _i <= f_V())",
           "logs_are(logs, log_number_from, (log_number_start + _i) if log_number_start + _i <= f_V() else f_V())",
       ], modifies=["D:*@lno", "L:*:list<dict<str,val>>", "G:is_tuple"])},
       modifies=["D:*@lno", "L:*:list<dict<str,val>>", "G:is_tuple"])


# ---------------------------------------------------------------------------------------------------------
# append_logs: serialisation, the inter-process file lock and the buffered write
class _Fresh:
    n = 0


def _new_file(st, old: FileModel, k, recs_list_sv, eng, complete: bool):
    """The file after appending k complete records (rec = the given dicts) -- or, when `complete` is False, after
    appending the same text without its final newline.  A torn tail of the old file swallows the first record."""
    _Fresh.n += 1
    new = FileModel(st, "F%d" % _Fresh.n)
    j = z3.Int("nf_j")
    torn = z3.And(old.N > 0, z3.Not(old.nl[old.N - 1]))
    base = z3.If(torn, old.N - 1, old.N)          # index where the first appended record lands
    for a in new.axioms(st)[:-2]:
        st.assume(a, quantified=z3.is_quantifier(a))
    st.assume(new.N == base + k)
    lst = recs_list_sv
    el = lambda x: eng.list_get(st, lst, x).term
    st.assume(qforall([j], z3.Implies(z3.And(0 <= j, j < base), z3.And(
        new.len[j] == old.len[j], new.nl[j] == old.nl[j], new.ok[j] == old.ok[j], new.rec[j] == old.rec[j], new.off[j] == old.off[j])),
        patterns=[new.len[j], new.nl[j], new.ok[j], new.rec[j], new.off[j]]), quantified=True)
    st.assume(new.off[base] == old.off[base])
    # the records: complete lines; the first one is glued to a torn tail (then it is not valid JSON)
    last = base + k - 1
    st.assume(qforall([j], z3.Implies(z3.And(base <= j, j < base + k), z3.And(
        new.nl[j] == z3.Or(z3.BoolVal(complete), j < last),
        new.ok[j] == z3.And(z3.Or(z3.BoolVal(complete), j < last), z3.Not(z3.And(torn, j == base))),
        z3.Implies(z3.Not(z3.And(torn, j == base)), new.rec[j] == el(j - base)))),
        patterns=[new.nl[j], new.ok[j], new.rec[j]]), quantified=True)
    st.assume(z3.And(0 <= new.S, new.S <= new.off[new.N]))
    return new


def _get_lock_file(eng, st, args, kwargs, node):
    o = eng.new_object(st, "lockctx")
    st.ghost.setdefault("lockctx", {})[o.term.get_id()] = args[0]
    return o


def _with_lock(eng, st, cm, item, node):
    # get_lock_file: acquire(); try: body finally: release()   (the @contextmanager body, DESIGN 3.2)
    st.ghost["holding"] = st.ghost.get("holding", 0) + 1
    try:
        eng.exec_block(st, node.body)
    finally:
        st.ghost["holding"] -= 1


def _open_rw(eng, st, args, kwargs, node):
    f = eng.new_object(st, "file")
    st.ghost["fpos"] = z3.IntVal(0)
    st.ghost["pending"] = None
    return f


def _commit(eng, st, node, why):
    pend = st.ghost.get("pending")
    if pend is None:
        return
    held = st.ghost.get("holding", 0) > 0
    st.oblige("JournalFileBackend.append_logs:write-reaches-file-under-lock", z3.BoolVal(held), kind="assert",
              where="line %s" % getattr(node, "lineno", "?"),
              info={"clause": "buffered record bytes reach the file (%s) while the inter-process lock is held" % why}, assume_after=False)
    tag = pend
    old = fm(st)
    st.ghost["file"] = _new_file(st, old, tag["k"], tag["recs"], eng, tag["complete"])
    st.ghost["old_file"] = st.ghost.get("old_file", old)
    st.ghost["pending"] = None


def _with_file2(eng, st, cm, item, node):
    if item.optional_vars is not None:
        eng.assign(st, item.optional_vars, cm, node)
    try:
        eng.exec_block(st, node.body)
    finally:
        _commit(eng, st, node, "close")


def _tags(st):
    return st.ghost.setdefault("strtags", {})


def _json_dumps(eng, st, args, kwargs, node):
    s = SV(KStr, st.fresh("json", z3.StringSort()))
    _tags(st)[s.term.get_id()] = {"kind": "dumps", "of": args[0]}
    return s


def _str_join(eng, st, recv, args, kwargs, node):
    """sep.join(list): tracked only for "\\n".join([json.dumps(log, ...) for log in logs])."""
    out = SV(KStr, st.fresh("joined", z3.StringSort()))
    src = args[0]
    meta = st.ghost.get("comp_src", {}).get(src.term.get_id()) if src.term is not None else None
    sep_ok = z3.is_string_value(z3.simplify(recv.term)) and z3.simplify(recv.term).as_string() == "\n"
    if meta is not None and sep_ok:
        _tags(st)[out.term.get_id()] = {"kind": "records", "recs": meta, "k": eng.list_len(st, meta), "complete": False}
    return out


def _str_encode(eng, st, recv, args, kwargs, node):
    out = SV(KStr, st.fresh("bytes", z3.StringSort()))
    t = _tags(st).get(recv.term.get_id())
    if t is not None:
        _tags(st)[out.term.get_id()] = t
    return out


def _file_write(eng, st, recv, args, kwargs, node):
    data = args[0]
    t = _tags(st).get(data.term.get_id()) if data.term is not None else None
    if t is None or t.get("kind") != "records":
        raise Unsupported("write of untracked bytes (line %s)" % getattr(node, "lineno", "?"))
    st.ghost["pending"] = t
    return SV(KInt, st.fresh("nwritten", z3.IntSort()))


def _file_flush(eng, st, recv, args, kwargs, node):
    _commit(eng, st, node, "flush")
    return NONE


def _fsync(eng, st, args, kwargs, node):
    if st.ghost.get("holding", 0) <= 0:
        st.oblige("JournalFileBackend.append_logs:fsync-under-lock", z3.BoolVal(False), kind="assert",
                  where="line %s" % getattr(node, "lineno", "?"),
                  info={"clause": "os.fsync happens while the inter-process lock is held (the record is durable before the lock is released)"},
                  assume_after=False)
    return NONE


def _concat_hook(eng, st, a, b, out):
    t = _tags(st).get(a.term.get_id())
    bs = z3.simplify(b.term)
    if t is not None and t.get("kind") == "records" and z3.is_string_value(bs) and bs.as_string() == "\n":
        _tags(st)[out.term.get_id()] = dict(t, complete=True)


R.rt_helpers["str_concat_hook"] = _concat_hook
R.rt_helpers["builtins"].update({_jf.get_lock_file: _get_lock_file, _json.dumps: _json_dumps, _os.fsync: _fsync})
R.rt_helpers["methods"].update({("file", "write"): _file_write, ("file", "flush"): _file_flush,
                                ("file", "fileno"): lambda e, st, r, a, k, n: SV(KInt, st.fresh("fd", z3.IntSort())),
                                ("str", "join"): _str_join, ("str", "encode"): _str_encode})
R.specfuncs["__with__:lockctx"] = _with_lock
R.specfuncs["__with__:file"] = _with_file2


@R.specfunc()
def f_complete(eng, st):
    """Every line ends with a newline (no torn tail)."""
    m = fm(st)
    return SV(KBool, z3.Or(m.N == 0, m.nl[m.N - 1]))


@R.specfunc()
def appended(eng, st, logs):
    """The file is the entry file (minus a torn tail, if it had one) followed by one complete valid record per element
    of `logs`, in order; nothing before them changed."""
    new = fm(st)
    old = st.ghost.get("old_file", new)
    k = eng.list_len(st, logs)
    j = z3.Int("ap_j")
    torn = z3.And(old.N > 0, z3.Not(old.nl[old.N - 1]))
    base = z3.If(torn, old.N - 1, old.N)
    el = lambda x: eng.list_get(st, logs, x).term
    return SV(KBool, z3.And(
        new.N == base + k,
        qforall([j], z3.Implies(z3.And(0 <= j, j < base), z3.And(new.nl[j] == old.nl[j], new.ok[j] == old.ok[j], new.rec[j] == old.rec[j],
                                                                new.off[j] == old.off[j])), patterns=[new.rec[j]]),
        qforall([j], z3.Implies(z3.And(base <= j, j < base + k), z3.And(new.nl[j], new.ok[j], new.rec[j] == el(j - base))), patterns=[new.rec[j]]),
        new.wf()))


R.spec(F, "JournalFileBackend.append_logs", props=["C07", "C05"],
       types={"logs": "list[dict[str, Any]]"},
       setup=lambda cx: fm(cx.st),
       # C05 (continuation): the file may end in a torn record left by a writer that died mid-write
       requires=["file_wf()", "len(logs) >= 1"],
       cases=[case("ok", ensures=["appended(logs)"])],
       modifies=[])

# the same contract restricted to files without a torn tail (what the unrepaired code handles)
R.spec(F, "JournalFileBackend.append_logs", variant="complete-file", props=["C07"],
       types={"logs": "list[dict[str, Any]]"}, setup=lambda cx: fm(cx.st),
       requires=["file_wf()", "f_complete()", "len(logs) >= 1"],
       cases=[case("ok", ensures=["appended(logs)"])], modifies=[])


# --- repair of a torn tail (fix F5): trusted contract + bounded stand-in (bounded/truncate_lattice.py) ----------
def _truncated(st, old: FileModel):
    _Fresh.n += 1
    new = FileModel(st, "T%d" % _Fresh.n)
    torn = z3.And(old.N > 0, z3.Not(old.nl[old.N - 1]))
    for a in new.axioms(st)[:-2]:
        st.assume(a, quantified=z3.is_quantifier(a))
    st.assume(new.N == z3.If(torn, old.N - 1, old.N))
    j = z3.Int("tr_j")
    st.assume(qforall([j], z3.Implies(z3.And(0 <= j, j < new.N), z3.And(
        new.len[j] == old.len[j], new.nl[j] == old.nl[j], new.ok[j] == old.ok[j], new.rec[j] == old.rec[j], new.off[j] == old.off[j])),
        patterns=[new.len[j], new.nl[j], new.ok[j], new.rec[j], new.off[j]]), quantified=True)
    st.assume(new.off[new.N] == old.off[new.N])
    st.assume(z3.And(0 <= new.S, new.S <= new.off[new.N]))
    return new


def _truncate_effect(eng, st, env):
    held = st.ghost.get("holding", 0) > 0
    st.oblige("JournalFileBackend.append_logs:truncate-under-lock", z3.BoolVal(held), kind="assert",
              info={"clause": "the torn tail is removed while the inter-process lock is held"}, assume_after=False)
    old = fm(st)
    st.ghost.setdefault("old_file", old)
    st.ghost["file"] = _truncated(st, old)


if hasattr(_jf.JournalFileBackend, "_truncate_incomplete_log"):
    R.spec(F, "JournalFileBackend._truncate_incomplete_log", trusted=True, cases=[case("ok")], effect=_truncate_effect,
           note="ASSUMED (byte-level backward scan; bounded stand-in bounded/truncate_lattice.py): removes exactly the bytes "
                "after the last newline, i.e. a torn final record, and nothing else")
