"""Witness for JournalFileBackend.append_logs:post/ok/0 (continuation after a torn record, C05 L5.2)."""


def run():
    import os, tempfile, json
    import optuna
    from optuna.storages.journal import JournalFileBackend
    d = tempfile.mkdtemp(prefix="verif_f5_")
    try:
        path = os.path.join(d, "j.log")
        b1 = JournalFileBackend(path)
        b1.append_logs([{"a": 1}])
        with open(path, "ab") as f:                      # a writer died after writing part of its record
            f.write(b'{"a":2,"b"')
        b2 = JournalFileBackend(path)                    # a survivor continues
        b2.append_logs([{"a": 3}])
        b2.append_logs([{"a": 4}])
        obs = []
        try:
            got = JournalFileBackend(path).read_logs(0)
            obs.append("fresh reader sees %s" % json.dumps(got))
            bad = got != [{"a": 1}, {"a": 3}, {"a": 4}]
        except Exception as e:
            obs.append("fresh reader raises %s" % type(e).__name__)
            bad = True
        return {"function": "optuna/storages/journal/_file.py:JournalFileBackend.append_logs",
                "steps": ["append {a:1}", "torn write of '{\"a\":2,\"b\"' (no newline)", "survivor appends {a:3}, {a:4}", "fresh reader read_logs(0)"],
                "observed": "; ".join(obs), "expected": "[{a:1},{a:3},{a:4}] (acknowledged writes survive, torn record wholly absent)", "reproduced": bad}
    finally:
        import shutil
        shutil.rmtree(d, ignore_errors=True)
