#!/bin/sh
# Build the overlay venv /verif/.venv offline: z3-solver, cvc5, jsonschema on top of /venv's site-packages
# (numpy, optuna's deps). Idempotent; every check calls it when .venv is missing.
set -e
HERE="$(cd "$(dirname "$0")" && pwd)"
V="$HERE/.venv"
if [ -x "$V/bin/python" ] && "$V/bin/python" -c "import z3, jsonschema, numpy" >/dev/null 2>&1; then
  exit 0
fi
rm -rf "$V"
/venv/bin/python -m venv "$V"
PIP_NO_INDEX=1 "$V/bin/python" -m pip install -q --no-index --find-links /opt/veriftools/wheels z3-solver cvc5 jsonschema >/dev/null
SP="$("$V/bin/python" -c 'import sysconfig; print(sysconfig.get_paths()["purelib"])')"
echo "import site; site.addsitedir('/venv/lib/python3.12/site-packages')" > "$SP/_verif_overlay.pth"
"$V/bin/python" -c "import z3, jsonschema, numpy; print('venv ok', z3.get_version_string())"
