"""Witness for _CachedStorage.create_new_trial:post/all/2 (K2: nothing hides below the watermark)."""


def run():
    import os, tempfile
    import optuna
    from optuna.trial import TrialState
    optuna.logging.set_verbosity(optuna.logging.ERROR)
    d = tempfile.mkdtemp(prefix="verif_f2_")
    try:
        url = "sqlite:///" + os.path.join(d, "db.sqlite3")
        a = optuna.storages.get_storage(url)     # client A (cached)
        b = optuna.storages.get_storage(url)     # client B (cached)
        sid = a.create_new_study([optuna.study.StudyDirection.MINIMIZE], "s")
        a.create_new_trial(sid)                  # trial 0
        b.get_all_trials(sid)                    # B syncs: sees trial 0
        t1 = a.create_new_trial(sid)             # A creates RUNNING trial 1 (B has not synced)
        tmpl = optuna.trial.create_trial(state=TrialState.COMPLETE, value=1.0)
        b.create_new_trial(sid, template_trial=tmpl)   # B adds an already finished trial 2
        a.set_trial_state_values(t1, TrialState.COMPLETE, [0.5])
        seen_b = sorted(t.number for t in b.get_all_trials(sid))
        raw = optuna.storages.RDBStorage(url)
        seen_raw = sorted(t.number for t in raw.get_all_trials(sid))
        return {"function": "optuna/storages/_cached_storage.py:_CachedStorage.create_new_trial",
                "steps": ["A,B cached clients on one sqlite file", "B syncs", "A creates RUNNING trial 1", "B adds COMPLETE template trial 2",
                          "A completes trial 1", "B.get_all_trials vs raw RDBStorage.get_all_trials"],
                "observed": "cached client B sees trial numbers %s, the database holds %s" % (seen_b, seen_raw),
                "reproduced": seen_b != seen_raw}
    finally:
        import shutil
        shutil.rmtree(d, ignore_errors=True)
