"""Verify functions against their contracts: explore paths, collect and discharge obligations."""
from __future__ import annotations

import json
import os
import time
import traceback

import z3

from .state import State, PathCut, Unsupported, Obligation
from .execs import Exec
from .frontend import Frontend
from .contracts import Registry, Contract
from . import solve

MAX_PATHS = int(os.environ.get("PYVC_MAX_PATHS", "4000"))


class FunctionResult:
    def __init__(self, contract: Contract):
        self.file = contract.file
        self.qualname = contract.qualname + ("#" + contract.variant if contract.variant else "")
        self.paths = 0
        self.terminal_paths = 0
        self.obligations: list = []     # dicts (plain data)
        self.status = "ok"              # ok | undecided | error
        self.reason = ""
        self.src_hash = ""
        self.time = 0.0
        self.requires_sat = None
        self.lib_used: list = []
        self.deps: list = []

    def to_json(self):
        return self.__dict__


def ob_to_dict(ob: Obligation, with_model=True):
    d = {"name": ob.name, "kind": ob.kind, "status": ob.status, "backend": ob.backend,
         "time": round(ob.time, 4), "where": ob.where, "path": ob.path_id,
         "clause": ob.info.get("clause"), "outcome": ob.info.get("outcome"),
         "info": {k: v for k, v in ob.info.items() if k in ("lock", "line", "field", "write", "callee", "expected", "cvc5_recheck")}}
    if ob.info.get("replay"):
        d["replay"] = ob.info["replay"]
    if ob.info.get("replay_error"):
        d["replay_error"] = ob.info["replay_error"]
    if ob.status == "failed" and with_model:
        d["model"] = solve.model_summary(ob.model)
        d["trace"] = [(str(a), bool(b)) for a, b in ob.info.get("trace", [])]
        d["goal"] = str(ob.goal)[:600]
    return d


def verify_function(eng: Exec, c: Contract, recheck_cvc5=False, model_hook=None) -> FunctionResult:
    res = FunctionResult(c)
    t0 = time.time()
    try:
        if c.lemma_src is not None:
            fi = eng.fe.lemma_func(c)
        else:
            fi = eng.fe.func(c.file, c.qualname)
    except (KeyError, FileNotFoundError, OSError, SyntaxError, ImportError) as e:
        res.status = "undecided"
        res.reason = "function not found: %s" % e
        return res
    res.src_hash = eng.fe.source_hash(fi)
    stack = [[]]
    pid = 0
    names_seen = {}
    hard = set()
    eng.touched = {fi.key: eng.fe.source_hash(fi)}
    try:
        while stack:
            prefix = stack.pop()
            st = State(prefix)
            pid += 1
            if pid > MAX_PATHS:
                raise Unsupported("more than %d paths" % MAX_PATHS)
            terminal = False
            try:
                eng.run_path(st, fi, c)
                terminal = True
            except PathCut:
                pass
            res.paths += 1
            if terminal:
                res.terminal_paths += 1
            stack.extend(st.alternatives)
            if os.environ.get("PYVC_TRACE"):
                print("path %d terminal=%s obs=%d alts=%d stack=%d t=%.1fs trace=%s" % (
                    pid, terminal, len(st.obligations), len(st.alternatives), len(stack), time.time() - t0,
                    [(str(a)[:18], b) for a, b in st.trace[-6:]]), flush=True)
            inc = solve.PathSolver(st.facts, hard)
            for ob in st.obligations:
                ob.path_id = pid
                if ob.kind == "guarded-by":
                    ob.status = "discharged" if z3.is_true(ob.goal) else "failed"
                    ob.backend = "ghost-lockset"
                else:
                    inc.discharge(ob, recheck_cvc5=recheck_cvc5)
                if ob.status == "failed" and model_hook is not None:
                    try:
                        model_hook(eng, st, fi, c, ob)
                    except Exception as e:  # replay is best effort
                        ob.info["replay_error"] = repr(e)
                res.obligations.append(ob_to_dict(ob))
                ob.pc = None
                ob.model = None
    except Unsupported as e:
        res.status = "undecided"
        res.reason = str(e)
    except RecursionError as e:
        res.status = "undecided"
        res.reason = "recursion limit"
    except z3.Z3Exception as e:
        res.status = "error"
        res.reason = "z3: %s\n%s" % (e, traceback.format_exc()[-1500:])
    except Exception as e:
        res.status = "error"
        res.reason = "%r\n%s" % (e, traceback.format_exc()[-2500:])
    res.time = time.time() - t0
    import hashlib
    res.deps = sorted("%s:%s" % k for k in eng.touched)
    res.src_hash = hashlib.sha256(json.dumps(sorted(eng.touched.items())).encode()).hexdigest()[:16]
    from . import lib
    res.lib_used = sorted(lib.USED)
    return res
