"""Contracts for optuna/_transform.py scalar (un)transforms and distribution value conversions (C10, C11)."""
import z3

from pyvc.contracts import Registry, case, loop
from pyvc.kinds import *  # noqa
from pyvc.state import SV
from pyvc import lib
from contracts import distributions as _dist

R = Registry()
R.merge(_dist.R)
TR = "optuna/_transform.py"
D = "optuna/distributions.py"

import optuna.distributions as _od  # noqa: E402
R.classes.update({"FloatDistribution": _od.FloatDistribution, "IntDistribution": _od.IntDistribution,
                  "CategoricalDistribution": _od.CategoricalDistribution, "BaseDistribution": _od.BaseDistribution})


@R.specfunc()
def nextafter_down(eng, st, x):
    return SV(KFloat, lib.nextafter_down(eng.coerce(st, x, KFloat).term))


@R.specfunc()
def on_grid(eng, st, v, low, step):
    v, low, step = (eng.coerce(st, a, KInt).term for a in (v, low, step))
    return SV(KBool, (v - low) % step == 0)


WF_INT = ["distribution.step >= 1", "distribution.low <= distribution.high",
          "(distribution.high - distribution.low) % distribution.step == 0",
          "implies(distribution.log, distribution.low >= 1 and distribution.step == 1)"]
WF_FLOAT = ["distribution.low <= distribution.high", "not math_isnan(distribution.low)", "not math_isnan(distribution.high)",
            "not math_isinf(distribution.low)", "not math_isinf(distribution.high)",
            "implies(distribution.log, distribution.low > 0.0 and distribution.step is None)"]


@R.specfunc()
def math_isnan(eng, st, x):
    return SV(KBool, f_is_nan(eng.coerce(st, x, KFloat).term))


@R.specfunc()
def math_isinf(eng, st, x):
    t = eng.coerce(st, x, KFloat).term
    return SV(KBool, z3.Or(F().is_pinf(t), F().is_ninf(t)))


# --- untransform: every point of the transformed box maps back into the domain -------------------
R.spec(TR, "_untransform_numerical_param", variant="int", props=["C10", "C11"],
       types={"distribution": "IntDistribution", "trans_param": "float"},
       returns_kind="int",
       requires=WF_INT + ["not math_isnan(trans_param)", "not math_isinf(trans_param)",
                          # the box of _SearchSpaceTransform: [low - step/2, high + step/2] (linear), log: [log(low-.5), log(high+.5)]
                          "implies(distribution.log and not transform_log, distribution.low <= trans_param and trans_param <= distribution.high)"],
       cases=[case("ok", ensures=[
           "distribution.low <= result", "result <= distribution.high",
           # general steps involve k*step (non-linear): proved for step 1, bounded stand-in (lattice) otherwise
           "implies(distribution.step == 1, on_grid(result, distribution.low, distribution.step))",
           # inverse of the transform on contained values
           "implies(not distribution.log and on_grid_f(trans_param, distribution) , float(result) == trans_param)",
       ])])


@R.specfunc()
def on_grid_f(eng, st, x, d):
    """x is an integral float on the int distribution's grid and inside [low, high]."""
    t = eng.coerce(st, x, KFloat).term
    low, high, step = (eng.get_field(st, d, f).term for f in ("low", "high", "step"))
    r = f_r(t)
    x = z3.ToInt(r) - low
    # Python's % exactly as the engine encodes it for `(v - low) % step` in the code and in textual clauses (so that the
    # two readings are the same term: no non-linear reasoning needed to connect them)
    pymod = x - z3.If(step > 0, x / step, (-x) / (-step)) * step
    return SV(KBool, z3.And(f_is_fin(t), z3.ToReal(z3.ToInt(r)) == r, z3.ToInt(r) >= low, z3.ToInt(r) <= high, pymod == 0))


R.spec(TR, "_untransform_numerical_param", variant="float", props=["C10", "C11"],
       types={"distribution": "FloatDistribution", "trans_param": "float"},
       returns_kind="float",
       requires=WF_FLOAT + [
           "not math_isnan(trans_param)", "not math_isinf(trans_param)",
           "implies(distribution.step is not None, distribution.step > 0.0 and not math_isinf(distribution.step))",
           # the transformed box of a step-less linear float is [low, high] itself
           "implies(not distribution.log and distribution.step is None, distribution.low <= trans_param and trans_param <= distribution.high)",
           "implies(distribution.log and not transform_log, distribution.low <= trans_param and trans_param <= distribution.high)",
           # ASSUMPTION (float granularity): low < high are doubles, so the largest double below high is >= low
           "implies(distribution.low < distribution.high, nextafter_down(distribution.high) >= distribution.low)",
       ],
       cases=[case("ok", ensures=[
           # a single-point log float goes through exp(log(.)) unclipped (a few ulps: statement of C10)
           "implies(not (distribution.log and transform_log and distribution.low == distribution.high), result <= distribution.high)",
           # lower bound: not claimed for exp(log(.)) (a few ulps, statement of C10); claimed everywhere else
           "implies(not (distribution.log and transform_log), distribution.low <= result)",
           # inverse of the transform on contained values strictly below high (high itself maps to the largest double below it)
           "implies(not distribution.log and distribution.step is None and trans_param <= nextafter_down(distribution.high), result == trans_param)",
           "implies(distribution.low == distribution.high and not (distribution.log and transform_log) and distribution.step is None, result == distribution.low)",
       ])])

R.spec(TR, "_transform_numerical_param", variant="int", props=["C11"],
       types={"distribution": "IntDistribution", "param": "int"}, returns_kind="float",
       requires=WF_INT + ["distribution.low <= param", "param <= distribution.high"],
       cases=[case("ok", ensures=["implies(not (distribution.log and transform_log), result == float(param))"])])

R.spec(TR, "_transform_numerical_param", variant="float", props=["C11"],
       types={"distribution": "FloatDistribution", "param": "float"}, returns_kind="float",
       requires=WF_FLOAT + ["distribution.low <= param", "param <= distribution.high"],
       cases=[case("ok", ensures=["implies(not (distribution.log and transform_log), result == param)"])])

# --- IntDistribution value conversions ---------------------------------------------------------------
R.spec(D, "IntDistribution.to_internal_repr", props=["C11", "C10"],
       types={"param_value_in_external_repr": "int"}, returns_kind="float",
       cases=[case("nonpositive-log", when="self.log and param_value_in_external_repr <= 0", raises="ValueError"),
              case("ok", returns="float(param_value_in_external_repr)")])
R.spec(D, "IntDistribution.to_external_repr", props=["C11", "C10"],
       types={"param_value_in_internal_repr": "float"}, returns_kind="int",
       requires=["not math_isnan(param_value_in_internal_repr)", "not math_isinf(param_value_in_internal_repr)"],
       cases=[case("ok", returns="int(param_value_in_internal_repr)")])
R.contracts[(D, "IntDistribution._contains")].cases = [case("ok", returns=(
    "self.low <= param_value_in_internal_repr and param_value_in_internal_repr <= self.high and "
    "(param_value_in_internal_repr - self.low) % self.step == 0"))]
R.contracts[(D, "IntDistribution._contains")].returns_kind = "bool"
R.spec(D, "IntDistribution.single", props=["C10"], requires=["self.step >= 1", "self.low <= self.high",
                                                                   "(self.high - self.low) % self.step == 0"],
       cases=[case("ok", returns="self.low == self.high")], returns_kind="bool")
R.spec(D, "FloatDistribution._contains", variant="nostep", props=["C10", "C11"],
       types={"param_value_in_internal_repr": "float"}, returns_kind="bool",
       requires=["self.step is None"],
       cases=[case("ok", returns="self.low <= param_value_in_internal_repr and param_value_in_internal_repr <= self.high")])
R.spec(D, "FloatDistribution.to_internal_repr", props=["C11", "C10"],
       types={"param_value_in_external_repr": "float"}, returns_kind="float",
       cases=[case("nan", when="math_isnan(param_value_in_external_repr)", raises="ValueError"),
              case("nonpositive-log", when="self.log and param_value_in_external_repr <= 0.0", raises="ValueError"),
              case("ok", returns="param_value_in_external_repr")])

# --- lemmas over the contracts: round trips -----------------------------------------------------------
R.lemma("int-value-roundtrip", """
    x = d.to_internal_repr(v)
    assert d._contains(x)
    y = d.to_external_repr(x)
    assert y == v
    assert d._contains(d.to_internal_repr(y))
""", module="optuna.distributions", params={"d": "IntDistribution", "v": "int"},
        requires=["d.step >= 1", "d.low <= v", "v <= d.high", "(v - d.low) % d.step == 0",
                  "implies(d.log, d.low >= 1)"],
        props=["C11"], note="to_external_repr(to_internal_repr(v)) == v for every contained v (ints exact as floats: assumption)")

R.lemma("int-transform-roundtrip", """
    t = _transform_numerical_param(v, d, False)
    w = _untransform_numerical_param(t, d, False)
    assert w == v
""", module="optuna._transform", params={"d": "IntDistribution", "v": "int"},
        requires=["d.step >= 1", "d.low <= v", "v <= d.high", "(v - d.low) % d.step == 0", "d.low <= d.high",
                  "(d.high - d.low) % d.step == 0", "not d.log"],
        props=["C11"], note="untransform(transform(v)) == v for contained ints (linear scale)")
R.contracts[("<lemma>", "int-transform-roundtrip")].call_variants = {"_transform_numerical_param": "int", "_untransform_numerical_param": "int"}
