"""./check <ID> quick|thorough  -- decide one property. Exit 0 held / 1 violation / 2 undecided / 3 checker failure."""
from __future__ import annotations

import fnmatch
import importlib
import json
import os
import sys
import time
import traceback

HERE = os.path.dirname(os.path.dirname(os.path.abspath(__file__)))
sys.path.insert(0, HERE)


def load_props():
    import props
    return props.PROPS


def relevant(prop, pid, contract, ob):
    """Is this obligation reported under property `pid`?  (It is verified in any case.)"""
    f = prop.get("relevant")
    if f is not None:
        return f(pid, contract, ob)
    if ob["kind"] == "guarded-by":
        return pid == "C03"
    if pid == "C03":
        return False
    return True


def main(argv):
    if len(argv) < 2:
        print("usage: check <ID> quick|thorough [--replay file] [--update-baseline]")
        return 3
    pid = argv[1]
    tier = "quick"
    update_baseline = False
    replay_file = None
    i = 2
    while i < len(argv):
        a = argv[i]
        if a in ("quick", "thorough"):
            tier = a
        elif a == "--update-baseline":
            update_baseline = True
        elif a == "--replay":
            replay_file = argv[i + 1]
            i += 1
        i += 1
    tier = os.environ.get("VERIF_TIER", tier) if tier == "quick" and "VERIF_TIER" in os.environ else tier
    seed = int(os.environ.get("VERIF_SEED", "0") or 0)
    t0 = time.time()
    PROPS = load_props()
    if pid not in PROPS:
        print("unknown or not-applicable property %s" % pid)
        return 3
    prop = PROPS[pid]
    if replay_file:
        from pyvc import replay
        return replay.rerun(replay_file)

    from pyvc import runner
    from pyvc.frontend import setup_repo_path
    repo = setup_repo_path()
    modules = prop.get("modules", [])
    opts = {"replay": True, "recheck_cvc5": tier == "thorough" and prop.get("recheck_cvc5", True)}
    _bp = os.path.join(HERE, "baseline", pid + ".json")
    if os.path.exists(_bp):
        # solver-strategy hints only (which pass discharged the obligation last time); never a verdict
        opts["hints"] = {k.split("|", 1)[1]: v["hint"] for k, v in json.load(open(_bp)).get("obligations", {}).items() if v.get("hint")}
    for _wn in (prop.get("witnesses") or {}):
        opts.setdefault("hints", {}).setdefault(_wn, "witness")
    results = []
    reg = None
    wall_v = 0.0
    checker_failure = None
    if modules:
        try:
            reg, results, wall_v = runner.run(modules, select=lambda c: pid in c.props, opts=opts)
        except Exception as e:
            checker_failure = "runner: %r\n%s" % (e, traceback.format_exc()[-3000:])
    # ---- lemmas over contracts (pure implications, discharged by the same solvers)
    lemma_results = []
    for lem in prop.get("lemmas", []):
        try:
            mod = importlib.import_module(lem)
            lemma_results.extend(mod.run(pid, tier, seed))
        except Exception as e:
            checker_failure = "lemma %s: %r\n%s" % (lem, e, traceback.format_exc()[-3000:])
    # ---- bounded stand-ins (run-time checks of contracts over an enumerated finite domain)
    bounded_results = []
    for b in prop.get("bounded", []):
        try:
            mod = importlib.import_module(b)
            bounded_results.append(mod.run(pid, tier, seed))
        except Exception as e:
            checker_failure = "bounded %s: %r\n%s" % (b, e, traceback.format_exc()[-3000:])

    # ---- collect
    base_path = os.path.join(HERE, "baseline", pid + ".json")
    baseline = {}
    if os.path.exists(base_path):
        baseline = json.load(open(base_path))
    known = []
    kf_path = os.path.join(HERE, "known_findings.json")
    if os.path.exists(kf_path):
        known = [k for k in json.load(open(kf_path)).get("findings", []) if k.get("property") == pid and k.get("status") == "open"]

    funcs = []
    all_obs = []       # (contract key, ob dict)
    undecided = []
    errors = []
    for r in results:
        key = "%s:%s" % (r["file"], r["qualname"])
        c = reg.contracts[(r["file"], r["qualname"])]
        funcs.append({"function": key, "status": r["status"], "paths": r["paths"], "src_sha256_16": r["src_hash"],
                      "obligation_instances": len(r["obligations"]), "time_s": round(r["time"], 2),
                      "reason": r["reason"][:500]})
        if r["status"] == "undecided":
            undecided.append((key, r["reason"]))
        elif r["status"] == "error":
            errors.append((key, r["reason"]))
        for ob in r["obligations"]:
            if relevant(prop, pid, c, ob):
                all_obs.append((key, ob, r["src_hash"]))
    for lr in lemma_results:
        all_obs.append((lr["function"], lr, lr.get("src_hash", "")))

    # group instances by obligation name
    byname = {}
    for key, ob, h in all_obs:
        g = byname.setdefault((key, ob["name"]), {"instances": 0, "discharged": 0, "failed": [], "unknown": [], "backends": {}, "time": 0.0, "hash": h,
                                                  "kind": ob["kind"], "clause": ob.get("clause")})
        g["instances"] += 1
        g["time"] += ob.get("time", 0.0)
        g["backends"][ob.get("backend") or "?"] = g["backends"].get(ob.get("backend") or "?", 0) + 1
        if ob["status"] == "discharged":
            g["discharged"] += 1
        elif ob["status"] == "failed":
            g["failed"].append(ob)
        else:
            g["unknown"].append(ob)

    violations = []
    open_unknown = []
    known_hits = []
    # witnesses: concrete scenarios attached to specific obligations; when the solver leaves such an obligation
    # open, the scenario is replayed on the real code and decides (reproduced -> violation with replay)
    for (key, name), g in sorted(byname.items()):
        wmod = prop.get("witnesses", {}).get(name)
        if wmod and "#" not in key and (g["failed"] or g["unknown"]):      # (not for restricted contract variants)
            try:
                rp = importlib.import_module(wmod).run()
            except Exception as e:
                rp = {"reproduced": False, "error": repr(e)}
            for o in g["failed"] + g["unknown"]:
                o["replay"] = rp
            if rp.get("reproduced") and not g["failed"]:
                g["failed"], g["unknown"] = g["unknown"], []
    for (key, name), g in sorted(byname.items()):
        if g["failed"] or g["unknown"]:
            kf = match_known(known, key, name, g)
            if kf is not None:
                known_hits.append((kf, key, name))
                continue
        if g["failed"]:
            violations.append((key, name, g, "failed"))
        elif g["unknown"]:
            b = baseline.get("obligations", {}).get(key + "|" + name)
            if b is None and name.endswith("/outcome") and key in baseline.get("hashes", {}):
                # "this behaviour case ends the way the contract says (returns / raises)" is one obligation per case; on the
                # unchanged tree no path with the wrong kind of outcome was feasible, i.e. it was discharged by path pruning
                b = {"discharged": True, "implicit": True}
            if b is not None and b.get("discharged") and baseline.get("hashes", {}).get(key) != g["hash"]:
                # proved on the unchanged tree, the function's source changed, proof no longer goes through
                violations.append((key, name, g, "regressed"))
            else:
                open_unknown.append((key, name, g))
    for br in bounded_results:
        for v in br.get("violations", []):
            kf = match_known_bounded(known, br, v)
            if kf is not None:
                known_hits.append((kf, br["name"], v.get("what", "")))
                continue
            violations.append((br["name"], v.get("what", "bounded"), {"bounded": v}, "bounded"))

    # obligations that a committed known finding says are false on this tree are not part of what this run claims to have
    # proved: they are listed separately (with the witness), and the count below is over the remaining ones
    kf_obs = {(key, name) for _kf, key, name in known_hits if (key, name) in byname}
    n_ob = len(byname) - len(kf_obs)
    n_dis = sum(1 for kn, g in byname.items() if kn not in kf_obs and not g["failed"] and not g["unknown"])
    inst = sum(g["instances"] for g in byname.values())
    solver_time = sum(g["time"] for g in byname.values())
    # thorough tier: independent second opinion of cvc5 on obligations z3 discharged; `sat` from cvc5 on something z3
    # proved is a disagreement between the back ends = checker failure (never a violation)
    cvc5_recheck = {}
    for _key, ob, _h in all_obs:
        r2 = (ob.get("info") or {}).get("cvc5_recheck")
        if r2:
            cvc5_recheck[r2] = cvc5_recheck.get(r2, 0) + 1
            if r2 == "sat":
                checker_failure = (checker_failure or "") + "cvc5 finds a model for %s, which z3 discharged\n" % ob["name"]
    by_backend = {}
    for g in byname.values():
        for b, n in g["backends"].items():
            bb = b.split(":")[0]
            by_backend[bb] = by_backend.get(bb, 0) + n

    # vacuity guards: zero obligations for a verified function is a checker failure
    for f in funcs:
        if f["status"] == "ok" and f["obligation_instances"] == 0:
            checker_failure = (checker_failure or "") + "zero obligations for %s\n" % f["function"]
        if f["status"] == "ok" and f["paths"] == 0:
            checker_failure = (checker_failure or "") + "no feasible path (vacuous requires?) in %s\n" % f["function"]
    if modules and not results and not checker_failure:
        checker_failure = "no function selected for %s" % pid

    # ---- report
    EVDIR = os.environ.get("VERIF_EVIDENCE_DIR") or os.path.join(HERE, "evidence")
    os.makedirs(os.path.join(HERE, "replays"), exist_ok=True)
    os.makedirs(EVDIR, exist_ok=True)
    seen_kf = set()
    for kf, key, name in known_hits:
        if kf.get("id") in seen_kf:
            continue
        seen_kf.add(kf.get("id"))
        print("KNOWN-FINDING: property=%s %s [%s: %s %s]" % (pid, kf.get("what", ""), kf.get("id"), key, name))
    vio_lines = []
    for n, (key, name, g, why) in enumerate(violations):
        path = os.path.join(HERE, "replays", "%s-%d.json" % (pid, n))
        rec = {"property": pid, "function": key, "obligation": name, "why": why, "repo": repo}
        nofail = True
        if why == "bounded":
            rec.update(g["bounded"])
            nofail = False
        else:
            obs = g["failed"] or g["unknown"]
            rec["clause"] = g.get("clause")
            rec["kind"] = g.get("kind")
            rec["solver_output"] = [{"status": o["status"], "backend": o.get("backend"), "model": o.get("model"),
                                      "outcome": o.get("outcome"), "trace": o.get("trace"), "goal": o.get("goal"),
                                      "where": o.get("where"), "info": o.get("info"), "replay": o.get("replay"),
                                      "replay_error": o.get("replay_error")} for o in obs[:5]]
            for o in obs:
                rp = o.get("replay")
                if rp and rp.get("reproduced"):
                    nofail = False
                    rec["replay"] = rp
                    break
        json.dump(rec, open(path, "w"), indent=1, default=str)
        line = "VIOLATION property=%s replay=%s" % (pid, path)
        if nofail:
            line += " no-failing-input-found"
        vio_lines.append(line)
        print("# %s: obligation %s of %s %s%s" % (pid, name, key, "FAILED" if why != "regressed" else "no longer discharges (proved on the unchanged tree)",
                                                 (" -- " + str(g.get("clause"))) if g.get("clause") else ""))
        print(line)

    samples = []
    for (key, name), g in list(sorted(byname.items()))[:: max(1, len(byname) // 8)][:8]:
        samples.append({"function": key, "obligation": name, "kind": g["kind"], "clause": g["clause"], "path_instances": g["instances"]})
    for br in bounded_results:
        samples.extend(br.get("samples", [])[:3])
    trusted = sorted(set(prop.get("trusted_base", [])) | set(sum([r.get("lib_used", []) for r in results], [])))
    level = prop.get("level", "proof")
    coverage = {
        "obligations": n_ob, "discharged": n_dis, "path_instances": inst,
        "checker_cmd": "./check %s %s" % (pid, tier),
        "trusted_base": trusted,
        "functions_under_contract": funcs,
        "by_backend": by_backend, "solver_time_s": round(solver_time, 2), "cvc5_recheck": cvc5_recheck,
        "bounded_standins": [{k: v for k, v in br.items() if k not in ("violations", "samples")} for br in bounded_results],
        "undecided_functions": [{"function": k, "reason": r[:300]} for k, r in undecided],
        "open_unknown_obligations": [{"function": k, "obligation": n} for k, n, _ in open_unknown],
        "known_finding_obligations": [{"function": k, "obligation": n, "finding": kf.get("id"), "restriction": kf.get("restriction")}
                                      for kf, k, n in known_hits if (k, n) in byname],
        "known_findings_hit": sorted(set(kf.get("id") for kf, _, _ in known_hits)),
        "not_covered": prop.get("not_covered", []),
        "samples": samples or [{"note": "no obligations"}],
        "vacuity": {"functions_with_paths": sum(1 for f in funcs if f["paths"] > 0), "functions": len(funcs)},
    }
    if level != "proof":
        ev = sum(br.get("evaluations", 0) for br in bounded_results)
        dn = sum(br.get("distinct_nontrivial", 0) for br in bounded_results)
        coverage.update({"evaluations": ev, "distinct_nontrivial": dn,
                         "rule": "; ".join(br.get("rule", "") for br in bounded_results),
                         "exhaustive": all(br.get("exhaustive", False) for br in bounded_results)})
    evidence = {"property_id": pid, "tier": tier, "seed": seed, "level": level, "coverage": coverage,
                "assumptions": prop.get("assumptions", []), "wall_s": round(time.time() - t0, 2),
                "violations": len(violations)}
    json.dump(evidence, open(os.path.join(EVDIR, pid + ".json"), "w"), indent=1, default=str)

    if update_baseline and not violations and not checker_failure and not open_unknown and not undecided and not errors:
        os.makedirs(os.path.join(HERE, "baseline"), exist_ok=True)
        base = {"obligations": {k + "|" + n: ({"discharged": True, "hint": "reparse"} if any(b.startswith("z3-reparse") for b in g["backends"]) else {"discharged": True, "hint": "mbqi"} if any(b.startswith("z3-mbqi") or b.startswith("cvc5") for b in g["backends"]) else {"discharged": True})
                                for (k, n), g in byname.items()},
                "hashes": {f["function"]: f["src_sha256_16"] for f in funcs}}
        json.dump(base, open(base_path, "w"), indent=0, sort_keys=True)
        print("baseline updated: %d obligations" % len(base["obligations"]))

    print("# %s %s: %d functions, %d obligations (%d path instances), %d discharged, %d violations, %d known findings, %d open, %d undecided functions, %.1fs"
          % (pid, tier, len(funcs), n_ob, inst, n_dis, len(violations), len(seen_kf), len(open_unknown), len(undecided), time.time() - t0))
    if violations:
        return 1
    if checker_failure or errors:
        print("# CHECKER FAILURE: %s %s" % (checker_failure or "", errors[:3]))
        return 3
    if open_unknown or undecided:
        for k, r in undecided[:10]:
            print("# undecided: %s: %s" % (k, r[:300]))
        for k, n, g in open_unknown[:10]:
            print("# open: %s %s [%s]" % (k, n, ", ".join(sorted({str(o.get("backend")) for o in g["unknown"]}))[:200]))
        return 2
    return 0


def match_known(known, key, name, g):
    for kf in known:
        if kf.get("function") and not fnmatch.fnmatchcase(key, kf["function"]):
            continue
        if kf.get("obligation") and not fnmatch.fnmatchcase(name, kf["obligation"]):
            continue
        if kf.get("bounded"):
            continue
        return kf
    return None


def match_known_bounded(known, br, v):
    for kf in known:
        if not kf.get("bounded"):
            continue
        if kf["bounded"] != br["name"]:
            continue
        pred = kf.get("input_class")
        if pred is None:
            return kf
        try:
            if eval(pred, {}, dict(v.get("input", {}))):
                return kf
        except Exception:
            continue
    return None


if __name__ == "__main__":
    sys.exit(main(sys.argv))
