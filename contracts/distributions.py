"""Contracts for optuna/distributions.py (C10, C11, C14)."""
from pyvc.contracts import Registry, case, loop
import z3
from pyvc.kinds import *  # noqa
from pyvc.state import SV

R = Registry()
F = "optuna/distributions.py"

R.schema("IntDistribution", {"low": "int", "high": "int", "step": "int", "log": "bool"})
R.schema("FloatDistribution", {"low": "float", "high": "float", "step": "float|None", "log": "bool"})

# --- _adjust_int_uniform_high: on the grid, <= high, > high - step, idempotent ------------------
R.spec(F, "_adjust_int_uniform_high", props=["C11", "C10"],
       requires=["step > 0", "low <= high"],
       cases=[case("normal", ensures=[
           "(result - low) % step == 0",
           "result <= high",
           "result > high - step",
           "result >= low",
           "implies((high - low) % step == 0, result == high)",
       ])])

R.spec(F, "IntDistribution.__init__", props=["C11", "C10"],
       types={"low": "int", "high": "int", "step": "int", "log": "bool"},
       cases=[
           case("bad", when="(log and step != 1) or low > high or (log and low < 1) or step <= 0",
                raises="ValueError"),
           case("ok", ensures=[
               "self.low == low", "self.step == step", "self.log == log",
               "self.high <= high", "self.high > high - step", "self.high >= self.low",
               "(self.high - self.low) % self.step == 0",
               # idempotence: re-constructing from the stored attributes changes nothing
               "implies((high - low) % step == 0, self.high == high)",
           ]),
       ],
       modifies=["F:IntDistribution.*"])

R.spec(F, "IntDistribution._contains", props=["C10", "C11"],
       types={"param_value_in_internal_repr": "float"},
       requires=["self.step > 0", "is_integral(param_value_in_internal_repr)"],
       # for integral internal values: inside [low, high] and on the step grid, exactly
       cases=[case("normal", returns="self.low <= param_value_in_internal_repr and param_value_in_internal_repr <= self.high and "
                                     "(int(param_value_in_internal_repr) - self.low) % self.step == 0")], verify=True)


@R.specfunc()
def is_integral(eng, st, x):
    t = eng.coerce(st, x, KFloat).term
    r = f_r(t)
    return SV(KBool, z3.And(f_is_fin(t), z3.ToReal(z3.ToInt(r)) == r))


R.schema("CategoricalDistribution", {"choices": "list[Any]"})
R.spec(F, "CategoricalDistribution._contains", props=["C10", "C11"], types={"param_value_in_internal_repr": "float"},
       requires=["is_integral(param_value_in_internal_repr)"],
       cases=[case("normal", returns="0.0 <= param_value_in_internal_repr and int(param_value_in_internal_repr) < len(self.choices)")])
