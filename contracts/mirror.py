"""C13: maximising f behaves like minimising -f -- mirror lemmas over the direction-parametric contracts.

Each lemma calls the real functions twice (through their CONTRACTS, never their bodies) on mirrored inputs and asserts the
same outcome; the contracts themselves are proved against the real code in contracts/pruners.py and contracts/in_memory.py."""
import z3

from pyvc.contracts import Registry, case, loop
from pyvc.kinds import *  # noqa
from pyvc.state import SV
from contracts import in_memory, pruners

R = Registry()
R.merge(in_memory.R)
R.merge(pruners.R)


@R.specfunc()
def mirrored_studies(eng, st, s1, sid1, s2, sid2):
    """Study sid2 of storage s2 holds, trial number by trial number, the same states as study sid1 of s1 and the
    negated single objective values; no two COMPLETE trials of a study share a value."""
    sf = R.specfuncs
    n1 = sf["ntrials"](eng, st, s1, sid1).term
    n2 = sf["ntrials"](eng, st, s2, sid2).term
    i, j = z3.Int("ms_i"), z3.Int("ms_j")

    def tr(s, sid, k):
        return sf["trial_at"](eng, st, s, sid, SV(KInt, k))

    def val(t):
        vs = eng.get_field(st, t, "_values")
        return eng.list_get(st, SV(vs.kind.inner if isinstance(vs.kind, KOpt) else vs.kind, vs.term), z3.IntVal(0)).term

    def state(t):
        return eng.get_field(st, t, "state").term
    a, b = tr(s1, sid1, i), tr(s2, sid2, i)
    a2 = tr(s1, sid1, j)
    same = qforall([i], z3.Implies(z3.And(0 <= i, i < n1), z3.And(state(a) == state(b), z3.Implies(state(a) == 1, val(b) == f_neg(val(a))))),
                   patterns=[a.term, b.term])
    distinct = qforall([i, j], z3.Implies(z3.And(0 <= i, i < j, j < n1, state(a) == 1, state(a2) == 1), val(a) != val(a2)),
                       patterns=[z3.MultiPattern(a.term, a2.term)])
    return SV(KBool, z3.And(n1 == n2, same, distinct))


R.lemma("best-trial-mirror", """
    a = s1.get_best_trial(sid1)
    b = s2.get_best_trial(sid2)
    assert a.number == b.number
""", module="optuna.storages._in_memory",
        params={"s1": "InMemoryStorage", "s2": "InMemoryStorage", "sid1": "int", "sid2": "int"},
        requires=[x.replace("self", "s1") for x in in_memory.INV] + [x.replace("self", "s2") for x in in_memory.INV] + [
            "s1 is not s2", "has_study(s1, sid1) and has_study(s2, sid2)",
            "len(study(s1, sid1).directions) == 1 and len(study(s2, sid2).directions) == 1",
            "study(s1, sid1).directions[0] == StudyDirection.MAXIMIZE", "study(s2, sid2).directions[0] == StudyDirection.MINIMIZE",
            "study(s1, sid1).best_trial_id is not None and study(s2, sid2).best_trial_id is not None",
            "mirrored_studies(s1, sid1, s2, sid2)"],
        guarded_by=None,
        props=["C13"], note="the best trial of a maximised study has the same number as the best trial of the minimised mirror study")


# --- multi-objective domination: direction-parametric contract and per-objective mirror ---------------------------
MO = "optuna/study/_multi_objective.py"
R.spec(MO, "_normalize_value", props=["C13"], types={"value": "float | None"}, returns_kind="float",
       cases=[case("none", when="value is None", ensures=["result is float('inf')"]),
              case("max", when="direction == StudyDirection.MAXIMIZE", ensures=["result is -value"]),
              case("min", ensures=["result is value"])], modifies=[])


@R.specfunc()
def dominates_spec(eng, st, t0, t1, directions, part=None):
    """No objective where t1 is strictly better, and at least one where t0 is strictly better (values NaN-free)."""
    v0 = eng.get_field(st, t0, "_values")
    v1 = eng.get_field(st, t1, "_values")
    v0 = SV(v0.kind.inner if isinstance(v0.kind, KOpt) else v0.kind, v0.term)
    v1 = SV(v1.kind.inner if isinstance(v1.kind, KOpt) else v1.kind, v1.term)
    n = eng.list_len(st, directions)
    i = z3.Int("ds_i")
    a, b = eng.list_get(st, v0, i).term, eng.list_get(st, v1, i).term
    d = eng.list_get(st, directions, i).term
    better01 = z3.If(d == 2, f_lt(b, a), f_lt(a, b))
    better10 = z3.If(d == 2, f_lt(a, b), f_lt(b, a))
    rng = z3.And(0 <= i, i < n)
    if part == "no_worse":
        return SV(KBool, qforall([i], z3.Implies(rng, z3.Not(better10)), patterns=[a, b]))
    if part == "some_better":
        return SV(KBool, z3.Exists([i], z3.And(rng, better01)))
    return SV(KBool, z3.And(qforall([i], z3.Implies(rng, z3.Not(better10)), patterns=[a, b]),
                            z3.Exists([i], z3.And(rng, better01))))


@R.specfunc()
def no_worse(eng, st, t0, t1, directions):
    return dominates_spec(eng, st, t0, t1, directions, "no_worse")


@R.specfunc()
def some_better(eng, st, t0, t1, directions):
    return dominates_spec(eng, st, t0, t1, directions, "some_better")


@R.specfunc()
def nan_free_values(eng, st, t, n):
    v = eng.get_field(st, t, "_values")
    v = SV(v.kind.inner if isinstance(v.kind, KOpt) else v.kind, v.term)
    i = z3.Int("nf_i")
    e = eng.list_get(st, v, i).term
    return SV(KBool, z3.And(v.term != 0, eng.list_len(st, v) == n.term,
                            qforall([i], z3.Implies(z3.And(0 <= i, i < n.term), z3.Not(f_is_nan(e))), patterns=[e])))


R.spec(MO, "_dominates", props=["C13", "C12"], types={"trial0": "FrozenTrial", "trial1": "FrozenTrial", "directions": "list[StudyDirection]"},
       returns_kind="bool",
       requires=["implies(trial0.state == TrialState.COMPLETE, nan_free_values(trial0, len(directions)))",
                 "implies(trial1.state == TrialState.COMPLETE, nan_free_values(trial1, len(directions)))"],
       cases=[case("t0-unfinished", when="trial0.state != TrialState.COMPLETE", returns="False"),
              case("t1-unfinished", when="trial1.state != TrialState.COMPLETE", returns="True"),
              case("ok", ensures=["implies(result, no_worse(trial0, trial1, directions))", "implies(result, some_better(trial0, trial1, directions))",
                                  "implies(no_worse(trial0, trial1, directions) and some_better(trial0, trial1, directions), result)"])],
       ensures_all=["only_fresh_modified()"],
       modifies=["L:*:list<float>", "G:is_tuple"])


@R.specfunc()
def flipped_values(eng, st, t, u, d1, d2):
    """u carries t's state and t's values, negated exactly at the objectives whose direction differs between d1 and d2
    (directions are MINIMIZE/MAXIMIZE only)."""
    def vals(x):
        v = eng.get_field(st, x, "_values")
        return SV(v.kind.inner if isinstance(v.kind, KOpt) else v.kind, v.term)
    vt, vu = vals(t), vals(u)
    n = eng.list_len(st, d1)
    i = z3.Int("fv_i")
    a, b = eng.list_get(st, vt, i).term, eng.list_get(st, vu, i).term
    x, y = eng.list_get(st, d1, i).term, eng.list_get(st, d2, i).term
    return SV(KBool, z3.And(eng.get_field(st, t, "state").term == eng.get_field(st, u, "state").term,
                            eng.list_len(st, d2) == n,
                            qforall([i], z3.Implies(z3.And(0 <= i, i < n), z3.And(x != 0, y != 0, b == z3.If(x == y, a, f_neg(a)))),
                                    patterns=[a, b])))


R.lemma("dominates-mirror", """
    r1 = _dominates(t0, t1, d1)
    r2 = _dominates(u0, u1, d2)
    assert r1 == r2
""", module="optuna.study._multi_objective",
        params={"t0": "FrozenTrial", "t1": "FrozenTrial", "u0": "FrozenTrial", "u1": "FrozenTrial",
                "d1": "list[StudyDirection]", "d2": "list[StudyDirection]"},
        requires=["implies(t0.state == TrialState.COMPLETE, nan_free_values(t0, len(d1)))", "implies(t1.state == TrialState.COMPLETE, nan_free_values(t1, len(d1)))",
                  "implies(u0.state == TrialState.COMPLETE, nan_free_values(u0, len(d2)))", "implies(u1.state == TrialState.COMPLETE, nan_free_values(u1, len(d2)))",
                  "flipped_values(t0, u0, d1, d2)", "flipped_values(t1, u1, d1, d2)"],
        modifies=["L:*:list<float>", "G:is_tuple"],
        props=["C13"], note="Pareto domination is invariant under flipping any subset of objective directions together with the sign of those objectives")
