"""Expression / statement interpreter, calls, contract application and the per-function verifier."""
from __future__ import annotations

import ast
import builtins as _bi
import enum
import inspect
import time

import z3

from .kinds import *  # noqa
from .state import *  # noqa
from .contracts import Contract, Case, LoopSpec
from .engine import Engine, EmptyLit, BoundMethod, Frame, _set_guard, _copy_guard
from .frontend import FuncInfo


def has_quantifier(e, _seen=None):
    if _seen is None:
        _seen = set()
    stack = [e]
    while stack:
        x = stack.pop()
        if z3.is_quantifier(x):
            return True
        i = x.get_id()
        if i in _seen:
            continue
        _seen.add(i)
        if z3.is_app(x):
            stack.extend(x.children())
    return False


class SpecCtx:
    def __init__(self, pre_heap, pre_env, result=None, exc=None, pre_nref=None):
        self.pre_heap = pre_heap
        self.pre_env = pre_env
        self.result = result
        self.exc = exc
        self.pre_nref = pre_nref


class Closure:
    def __init__(self, node, frame):
        self.node = node
        self.frame = frame


class Interp(Engine):
    def __init__(self, registry, frontend):
        super().__init__(registry, frontend)
        self.spec_stack: list = []

    # ---------------------------------------------------------------------------------------
    # helpers
    def frame(self, st) -> Frame:
        return st.frames[-1]

    def assume(self, st, cond):
        st.assume(cond, quantified=has_quantifier(cond))

    def truth(self, st, sv: SV):
        k = sv.kind
        if k is KBool:
            return sv.term
        if k is KInt or isinstance(k, KEnum):
            return sv.term != 0
        if k is KNone:
            return z3.BoolVal(False)
        if k is KFloat:
            return z3.Not(z3.And(f_is_fin(sv.term), f_r(sv.term) == 0))
        if k is KStr:
            return sv.term != z3.StringVal("")
        if isinstance(k, KOpt):
            O = sort_of(k)
            inner = self.truth(st, SV(k.inner, O.v(sv.term)))
            return z3.And(O.is_some(sv.term), inner)
        if isinstance(k, KRef):
            return sv.term != 0
        if isinstance(k, KList):
            return z3.And(sv.term != 0, self.list_len(st, sv) > 0)
        if isinstance(k, KDict):
            if not self.spec_mode:
                # a dict's size is 0 exactly when it has no key (a fact about every real dict, stated where truthiness is asked)
                hname, _, _ = self.dnames(k)
                row = self.harr(st, hname)[sv.term]
                kk = z3.Const("dt_k", sort_of(k.k))
                st.assume(z3.Implies(sv.term != 0, (self.dict_size(st, sv) == 0) == qforall([kk], z3.Not(row[kk]), patterns=[row[kk]])), quantified=True)
            return z3.And(sv.term != 0, self.dict_size(st, sv) > 0)
        if isinstance(k, KSet):
            h, n = self.snames(k)
            return z3.And(sv.term != 0, self.harr(st, n)[sv.term] > 0)
        if isinstance(k, KTuple):
            return z3.BoolVal(len(k.items) > 0)
        if k is KConst:
            if isinstance(sv.const, EmptyLit):
                return z3.BoolVal(False)
            return z3.BoolVal(bool(sv.const))
        if k is KVal:
            V = val_sort()
            t = sv.term
            lst = SV(KList(KVal), z3.If(V.is_vlist(t), V.lr(t), V.tr(t)))
            return z3.And(
                z3.Not(V.is_vnone(t)),
                z3.Implies(V.is_vbool(t), V.b(t)),
                z3.Implies(V.is_vint(t), V.i(t) != 0),
                z3.Implies(V.is_vflt(t), self.truth(st, SV(KFloat, V.f(t)))),
                z3.Implies(V.is_vstr(t), V.s(t) != z3.StringVal("")),
                z3.Implies(z3.Or(V.is_vlist(t), V.is_vtuple(t)), self.list_len(st, lst) > 0),
                z3.Implies(V.is_vdict(t), self.dict_size(st, SV(KDict(KStr, KVal), V.dr(t))) > 0),
            )
        raise Unsupported("truth of %s" % k)

    def cond(self, st, node) -> bool:
        """Evaluate a condition and branch on it (exec mode)."""
        sv = self.eval(st, node)
        return st.branch(self.truth(st, sv), "L%s" % getattr(node, "lineno", "?"))

    def is_none(self, st, sv: SV):
        k = sv.kind
        if k is KNone:
            return z3.BoolVal(True)
        if isinstance(k, KOpt):
            return sort_of(k).is_none(sv.term)
        if is_refkind(k):
            return sv.term == 0
        if k is KVal:
            return val_sort().is_vnone(sv.term)
        if k is KConst and isinstance(sv.const, EmptyLit):
            return z3.BoolVal(False)
        return z3.BoolVal(False)

    def raise_(self, cls, node=None, args=()):
        raise PyRaise(PyExc(cls, args, where="line %s" % getattr(node, "lineno", "?")))

    # ---------------------------------------------------------------------------------------
    # equality / comparison
    def eq(self, st, a: SV, b: SV, node=None):
        ka, kb = a.kind, b.kind
        if ka is KNone or kb is KNone:
            other = b if ka is KNone else a
            return self.is_none(st, other)
        if isinstance(ka, KOpt) or isinstance(kb, KOpt):
            if isinstance(ka, KOpt) and isinstance(kb, KOpt):
                if ka == kb:
                    if ka.inner is KFloat:
                        O = sort_of(ka)
                        return z3.Or(z3.And(O.is_none(a.term), O.is_none(b.term)),
                                     z3.And(O.is_some(a.term), O.is_some(b.term), f_eq(O.v(a.term), O.v(b.term))))
                    return a.term == b.term
            o, x = (a, b) if isinstance(ka, KOpt) else (b, a)
            O = sort_of(o.kind)
            inner = self.eq(st, SV(o.kind.inner, O.v(o.term)), x, node)
            return z3.And(O.is_some(o.term), inner)
        num = lambda k: k is KInt or k is KBool or isinstance(k, KEnum)
        if ka is KFloat or kb is KFloat:
            if (ka is KFloat or num(ka)) and (kb is KFloat or num(kb)):
                return f_eq(self.coerce(st, a, KFloat).term, self.coerce(st, b, KFloat).term)
            if ka is KVal or kb is KVal:
                return self.val_eq(st, self.box(st, a), self.box(st, b))
            return z3.BoolVal(False)
        if num(ka) and num(kb):
            if ka is KBool and kb is KBool:
                return a.term == b.term
            return self.coerce(st, a, KInt).term == self.coerce(st, b, KInt).term
        if ka is KStr and kb is KStr:
            return a.term == b.term
        if ka is KVal or kb is KVal:
            return self.val_eq(st, self.box(st, a), self.box(st, b))
        if isinstance(ka, KTuple) and isinstance(kb, KTuple):
            if len(ka.items) != len(kb.items):
                return z3.BoolVal(False)
            return z3.And([self.eq(st, x, y, node) for x, y in zip(self.tuple_items(a), self.tuple_items(b))] or [z3.BoolVal(True)])
        if isinstance(ka, KList) and isinstance(kb, KTuple) or isinstance(kb, KList) and isinstance(ka, KTuple):
            l, t = (a, b) if isinstance(ka, KList) else (b, a)
            items = self.tuple_items(t)
            conj = [l.term != 0, self.is_tuple(st, l), self.list_len(st, l) == len(items)]
            for i, it in enumerate(items):
                conj.append(self.eq(st, self.list_get(st, l, z3.IntVal(i)), it, node))
            return z3.And(conj)
        if isinstance(ka, KRef) and isinstance(kb, KRef):
            f = self.reg.specfuncs.get("__eq__:" + ka.cls) or self.reg.specfuncs.get("__eq__:" + kb.cls)
            if f is not None:
                return f(self, st, a, b)
            return a.term == b.term
        if isinstance(ka, KList) and isinstance(kb, KList) and ka.elem == kb.elem and ka.elem in (KInt, KFloat, KStr, KBool):
            # list == list of scalars: same length and pointwise == (CPython short-cuts on identical element objects,
            # which differs for NaN entries only: not modelled)
            from . import lib
            lib.USED.add("list==list(scalars)")
            n = self.list_len(st, a)
            i = z3.Int("leq_i")
            x, y = self.list_get(st, a, i), self.list_get(st, b, i)
            return z3.And(a.term != 0, b.term != 0, n == self.list_len(st, b),
                          qforall([i], z3.Implies(z3.And(0 <= i, i < n), self.eq(st, x, y, node)), patterns=[x.term, y.term]))
        if is_refkind(ka) and is_refkind(kb):
            if ka == kb:
                f = self.reg.specfuncs.get("__eq__:" + ka.name)
                if f is not None:
                    return f(self, st, a, b)
            raise Unsupported("structural == on %s / %s (line %s)" % (ka, kb, getattr(node, "lineno", "?")))
        if ka is KConst and kb is KConst:
            return z3.BoolVal(a.const == b.const)
        if ka is KConst or kb is KConst:
            c, o = (a, b) if ka is KConst else (b, a)
            if isinstance(c.const, EmptyLit) and isinstance(o.kind, (KList, KDict)):
                n = self.list_len(st, o) if isinstance(o.kind, KList) else self.dict_size(st, o)
                return z3.And(o.term != 0, n == 0)
            return z3.BoolVal(False)
        if ka != kb:
            return z3.BoolVal(False)
        raise Unsupported("== on %s / %s" % (ka, kb))

    def val_eq(self, st, a: SV, b: SV):
        """Python == on dynamic values: numeric across int/float/bool, strings, None; containers and
        objects by identity of the heap reference (an under-approximation noted in the trusted base)."""
        V = val_sort()
        x, y = a.term, b.term

        def isnum(t):
            return z3.Or(V.is_vint(t), V.is_vflt(t), V.is_vbool(t))

        def asf(t):
            return z3.If(V.is_vint(t), f_fin(z3.ToReal(V.i(t))),
                         z3.If(V.is_vbool(t), f_fin(z3.If(V.b(t), z3.RealVal(1), z3.RealVal(0))), V.f(t)))
        return z3.If(z3.And(isnum(x), isnum(y)), f_eq(asf(x), asf(y)), x == y)

    def compare(self, st, op, a: SV, b: SV, node=None):
        if isinstance(op, ast.Eq):
            return self.eq(st, a, b, node)
        if isinstance(op, ast.NotEq):
            return z3.Not(self.eq(st, a, b, node))
        if isinstance(op, ast.Is):
            return self.identical(st, a, b)
        if isinstance(op, ast.IsNot):
            return z3.Not(self.identical(st, a, b))
        if isinstance(op, ast.In):
            return self.contains(st, b, a, node)
        if isinstance(op, ast.NotIn):
            return z3.Not(self.contains(st, b, a, node))
        # ordering
        ka, kb = a.kind, b.kind
        if isinstance(ka, KOpt):
            a = self.coerce(st, a, ka.inner, node)
            ka = a.kind
        if isinstance(kb, KOpt):
            b = self.coerce(st, b, kb.inner, node)
            kb = b.kind
        if ka is KVal and kb is KVal:
            a, b = self.coerce(st, a, KFloat, node), self.coerce(st, b, KFloat, node)
            ka, kb = KFloat, KFloat
        if ka is KVal and kb is not KVal:
            a = self.coerce(st, a, KFloat if kb is KFloat else kb, node)
            ka = a.kind
        if kb is KVal and ka is not KVal:
            b = self.coerce(st, b, KFloat if ka is KFloat else ka, node)
            kb = b.kind
        num = lambda k: k is KInt or k is KBool or isinstance(k, KEnum)
        if num(ka) and num(kb):
            x, y = self.coerce(st, a, KInt).term, self.coerce(st, b, KInt).term
            return {ast.Lt: x < y, ast.LtE: x <= y, ast.Gt: x > y, ast.GtE: x >= y}[type(op)]
        if (ka is KFloat or num(ka)) and (kb is KFloat or num(kb)):
            x, y = self.coerce(st, a, KFloat).term, self.coerce(st, b, KFloat).term
            return {ast.Lt: f_lt(x, y), ast.LtE: f_le(x, y), ast.Gt: f_lt(y, x), ast.GtE: f_le(y, x)}[type(op)]
        raise Unsupported("ordering on %s / %s (line %s)" % (ka, kb, getattr(node, "lineno", "?")))

    def identical(self, st, a: SV, b: SV):
        if a.kind is KNone or b.kind is KNone:
            return self.is_none(st, b if a.kind is KNone else a)
        if a.kind is KConst and b.kind is KConst:
            return z3.BoolVal(a.const is b.const)
        if is_refkind(a.kind) and is_refkind(b.kind):
            return a.term == b.term
        if a.kind == b.kind and a.term is not None:
            return a.term == b.term
        if isinstance(a.kind, KEnum) or isinstance(b.kind, KEnum):
            return self.eq(st, a, b)
        if self.spec_mode and isinstance(a.kind, KOpt) != isinstance(b.kind, KOpt):
            # spec-level identity between T and T | None: the optional one is a value structurally equal to the other
            o, p_ = (a, b) if isinstance(a.kind, KOpt) else (b, a)
            if o.kind.inner == p_.kind:
                return o.term == self.coerce(st, p_, o.kind).term
        raise Unsupported("is on %s / %s" % (a.kind, b.kind))

    def contains(self, st, cont: SV, x: SV, node=None):
        k = cont.kind
        if isinstance(k, KDict):
            return self.dict_has(st, cont, self.coerce_key(st, x, k.k, node))
        if isinstance(k, KSet):
            return self.set_has(st, cont, self.coerce_key(st, x, k.elem, node))
        if isinstance(k, KTuple):
            return z3.Or([self.eq(st, it, x, node) for it in self.tuple_items(cont)] or [z3.BoolVal(False)])
        if k is KVal:
            # membership in a dynamic value: supported for dict-like values (key lookup)
            d = self.coerce(st, cont, KDict(KStr, KVal), node)
            return self.dict_has(st, d, self.coerce_key(st, x, KStr, node))
        if k is KConst and isinstance(cont.const, EmptyLit):
            return z3.BoolVal(False)
        if isinstance(k, KList):
            n = z3.simplify(self.list_len(st, cont))
            if z3.is_int_value(n) and n.as_long() <= 16:
                # a list of known small length: membership is a finite disjunction
                return z3.Or([self.eq(st, self.list_get(st, cont, z3.IntVal(q)), x, node) for q in range(n.as_long())] or [z3.BoolVal(False)])
            i = st.fresh("mi", z3.IntSort())
            e = self.list_get(st, cont, i)
            return z3.Exists([i], z3.And(0 <= i, i < n, self.eq(st, e, x, node)))
        raise Unsupported("in on %s (line %s)" % (k, getattr(node, "lineno", "?")))

    def coerce_key(self, st, x: SV, kind, node=None):
        """Coerce a lookup key. A key of the wrong dynamic type is simply absent; we require the
        static kinds to agree (Val keys are unboxed with a type obligation)."""
        return self.coerce(st, x, kind, node)

    # ---------------------------------------------------------------------------------------
    # expressions
    def eval(self, st, node) -> SV:
        m = getattr(self, "eval_" + type(node).__name__, None)
        if m is None:
            raise Unsupported("expression %s (line %s)" % (type(node).__name__, getattr(node, "lineno", "?")))
        return m(st, node)

    def eval_Constant(self, st, node):
        if node.value is Ellipsis:
            return NONE
        return self.lift(node.value)

    def eval_Name(self, st, node):
        fr = self.frame(st)
        name = node.id
        if name in fr.env:
            return fr.env[name]
        if self.spec_mode:
            if name == "result":
                return self.spec_stack[-1].result
            if name in self.reg.specfuncs:
                return SV(KConst, None, const=("specfunc", name))
        if fr.fi is not None and not self.spec_mode:
            loc = getattr(fr.fi, "_locals", None)
            if loc is None:
                from .execs import assigned_names
                loc = fr.fi._locals = set(assigned_names(fr.fi.node.body))
            if name in loc:
                self.raise_(UnboundLocalError, node)
        mod = fr.module
        if mod is not None and hasattr(mod, name):
            return self.lift_global(getattr(mod, name))
        if hasattr(_bi, name):
            return SV(KConst, None, const=getattr(_bi, name))
        if name in self.reg.specfuncs:
            return SV(KConst, None, const=("specfunc", name))
        cls = self.class_by_name(name)
        if cls is not None:
            return SV(KConst, None, const=cls)
        raise Unsupported("unbound name %s (line %s)" % (name, getattr(node, "lineno", "?")))

    def lift_global(self, obj):
        if isinstance(obj, (bool, int, float, str, type(None), enum.Enum)):
            return self.lift(obj)
        if isinstance(obj, tuple) and all(isinstance(x, (bool, int, float, str, type(None), enum.Enum)) for x in obj):
            return self.lift(obj)
        return SV(KConst, None, const=obj)

    def eval_Attribute(self, st, node):
        v = self.eval(st, node.value)
        return self.getattr(st, v, node.attr, node)

    def getattr(self, st, v: SV, attr: str, node=None) -> SV:
        k = v.kind
        if k is KConst:
            obj = v.const
            if isinstance(obj, PyExc):
                # library exceptions may carry modelled methods (e.g. grpc.RpcError.code()): ("constfn", value)
                av = getattr(obj, "attrs", {}).get(attr)
                if av is not None:
                    return SV(KConst, None, const=("constfn", av))
                raise Unsupported("attribute of exception object")
            if isinstance(obj, EmptyLit):
                # {} / [] used as an object: it is a plain dynamic dict / list
                self.materialize(st, v, KDict(KStr, KVal) if obj.what == "dict" else KList(KVal))
                return self.getattr(st, v, attr, node)
            if isinstance(obj, tuple) and obj and obj[0] == "specfunc":
                raise Unsupported("attr of specfunc")
            try:
                a = getattr(obj, attr)
            except AttributeError:
                raise Unsupported("getattr(%r, %s)" % (obj, attr))
            return self.lift_global(a)
        if isinstance(k, KRef):
            if not self.spec_mode:
                self.nonnull(st, v, node)
            decl, fk = self.field_decl(k.cls, attr)
            if decl is not None:
                return self.get_field(st, v, attr, node)
            cls = self.class_by_name(k.cls)
            if cls is None:
                # opaque library object (datetime, timedelta, ...): methods come from the library table
                return SV(KConst, None, const=BoundMethod(v, attr, None))
            try:
                sa = inspect.getattr_static(cls, attr)
            except AttributeError:
                # an instance attribute outside the schema (e.g. a subclass field read through a base-class
                # reference): an opaque, per-object dynamic value (reads only)
                from . import lib
                lib.USED.add("opaque-attribute:%s.%s" % (k.cls, attr))
                t = uf("attr_" + attr, z3.IntSort(), val_sort())(v.term)
                return SV(KVal, t)
            if isinstance(sa, property):
                return self.call_function(st, sa.fget, [v], {}, node)
            if isinstance(sa, staticmethod):
                return SV(KConst, None, const=sa.__func__)
            if isinstance(sa, classmethod):
                return SV(KConst, None, const=BoundMethod(SV(KConst, None, const=cls), attr, sa.__func__))
            if inspect.isfunction(sa):
                return SV(KConst, None, const=BoundMethod(v, attr, sa))
            return self.lift_global(sa)
        if isinstance(k, KEnum):
            if attr == "value":
                return SV(KInt, v.term)
            if attr == "name":
                return SV(KStr, uf("enum_name_" + k.cls.__name__, z3.IntSort(), z3.StringSort())(v.term))
            sa = inspect.getattr_static(k.cls, attr)
            if inspect.isfunction(sa):
                return SV(KConst, None, const=BoundMethod(v, attr, sa))
            raise Unsupported("enum attribute %s" % attr)
        if k is KVal:
            for cn in self.reg.val_classes:
                decl, fk = self.field_decl(cn, attr)
                cls = self.class_by_name(cn)
                if decl is not None or (cls is not None and inspect.getattr_static(cls, attr, None) is not None):
                    obj = self.coerce_val_unchecked(st, v, KRef(cn))
                    if not self.spec_mode:
                        self.type_ob(st, val_sort().is_vobj(v.term), "object", node)
                    return self.getattr(st, obj, attr, node)
        if isinstance(k, KList) and attr == "size":
            # numpy-lite: 1-D arrays are modelled as lists (a plain list has no .size: AttributeError not modelled)
            from . import lib
            lib.USED.add("ndarray.size")
            return SV(KInt, self.list_len(st, v))
        if isinstance(k, (KList, KDict, KSet)) or k is KStr or k is KVal or k is KFloat or k is KInt:
            return SV(KConst, None, const=BoundMethod(v, attr, None))
        if isinstance(k, KOpt):
            return self.getattr(st, self.coerce(st, v, k.inner, node), attr, node)
        raise Unsupported("attribute %s of %s (line %s)" % (attr, k, getattr(node, "lineno", "?")))

    def nonnull(self, st, v: SV, node=None):
        c = z3.simplify(v.term != 0)
        if z3.is_true(c):
            return
        if not st.branch(c, "nonnull"):
            self.raise_(AttributeError, node)

    def eval_UnaryOp(self, st, node):
        v = self.eval(st, node.operand)
        if isinstance(node.op, ast.Not):
            return SV(KBool, z3.Not(self.truth(st, v)))
        if isinstance(node.op, ast.USub):
            if v.kind is KInt:
                return SV(KInt, -v.term)
            if v.kind is KFloat:
                return SV(KFloat, f_neg(v.term))
            if v.kind is KVal or isinstance(v.kind, KOpt):
                return SV(KFloat, f_neg(self.coerce(st, v, KFloat, node).term))
        if isinstance(node.op, ast.UAdd):
            return v
        raise Unsupported("unary op")

    def eval_BoolOp(self, st, node):
        is_and = isinstance(node.op, ast.And)
        if self.spec_mode:
            ts = [self.truth(st, self.eval(st, v)) for v in node.values]
            return SV(KBool, z3.And(ts) if is_and else z3.Or(ts))
        last = None
        for i, vn in enumerate(node.values):
            last = self.eval(st, vn)
            if i == len(node.values) - 1:
                return last
            t = st.branch(self.truth(st, last), "L%s" % getattr(node, "lineno", "?"))
            if is_and and not t:
                return last
            if (not is_and) and t:
                return last
        return last

    def eval_IfExp(self, st, node):
        if self.spec_mode:
            c = self.truth(st, self.eval(st, node.test))
            a, b = self.eval(st, node.body), self.eval(st, node.orelse)
            a, b = self.unify(st, a, b, node)
            return SV(a.kind, z3.If(c, a.term, b.term))
        if self.cond(st, node.test):
            return self.eval(st, node.body)
        return self.eval(st, node.orelse)

    def unify(self, st, a: SV, b: SV, node=None):
        if a.kind == b.kind:
            if isinstance(a.kind, KTuple):
                self.tuple_term(st, a)
                self.tuple_term(st, b)
            return a, b
        if a.kind is KNone and not isinstance(b.kind, KOpt) and not is_refkind(b.kind) and b.kind is not KVal:
            k = KOpt(b.kind)
            return self.coerce(st, a, k), self.coerce(st, b, k)
        if b.kind is KNone:
            y, x = self.unify(st, b, a, node)
            return x, y
        for k in (a.kind, b.kind):
            try:
                return self.coerce(st, a, k, node), self.coerce(st, b, k, node)
            except Unsupported:
                pass
        return self.coerce(st, a, KVal), self.coerce(st, b, KVal)

    def eval_Compare(self, st, node):
        left = self.eval(st, node.left)
        if len(node.ops) == 1:
            right = self.eval(st, node.comparators[0])
            return SV(KBool, self.compare(st, node.ops[0], left, right, node))
        conj = []
        for op, cn in zip(node.ops, node.comparators):
            right = self.eval(st, cn)
            conj.append(self.compare(st, op, left, right, node))
            left = right
        return SV(KBool, z3.And(conj))

    def eval_BinOp(self, st, node):
        a = self.eval(st, node.left)
        b = self.eval(st, node.right)
        return self.binop(st, node.op, a, b, node)

    def binop(self, st, op, a: SV, b: SV, node=None):
        ka, kb = a.kind, b.kind
        if isinstance(ka, KOpt):
            a = self.coerce(st, a, ka.inner, node)
            ka = a.kind
        if isinstance(kb, KOpt):
            b = self.coerce(st, b, kb.inner, node)
            kb = b.kind
        num = lambda k: k is KInt or k is KBool or isinstance(k, KEnum)
        if isinstance(ka, KSet) or isinstance(kb, KSet):
            from . import lib
            return lib.set_binop(self, st, op, a, b, node)
        if ka is KStr and kb is KStr and isinstance(op, ast.Add):
            out = SV(KStr, z3.Concat(a.term, b.term))
            h = self.reg.rt_helpers.get("str_concat_hook")
            if h is not None:
                h(self, st, a, b, out)
            return out
        if ka is KStr and isinstance(op, ast.Mod):
            return SV(KStr, st.fresh("fmt", z3.StringSort()))
        if ka is KVal or kb is KVal:
            a = self.coerce(st, a, KFloat, node) if ka is KVal else a
            b = self.coerce(st, b, KFloat, node) if kb is KVal else b
            ka, kb = a.kind, b.kind
        if num(ka) and num(kb) and not isinstance(op, ast.Div):
            x, y = self.coerce(st, a, KInt).term, self.coerce(st, b, KInt).term
            if isinstance(op, ast.Add):
                return SV(KInt, x + y)
            if isinstance(op, ast.Sub):
                return SV(KInt, x - y)
            if isinstance(op, ast.Mult):
                return SV(KInt, x * y)
            if isinstance(op, (ast.FloorDiv, ast.Mod)):
                if not self.spec_mode and not st.branch(y != 0, "div0"):
                    self.raise_(ZeroDivisionError, node)
                # Python floor division / modulo (sign of the divisor); z3 div/mod are Euclidean
                fd = z3.If(y > 0, x / y, (-x) / (-y))
                if isinstance(op, ast.FloorDiv):
                    return SV(KInt, fd)
                return SV(KInt, x - fd * y)
            if isinstance(op, ast.Pow):
                if z3.is_int_value(z3.simplify(y)):
                    n = z3.simplify(y).as_long()
                    if 0 <= n <= 8:
                        r = z3.IntVal(1)
                        for _ in range(n):
                            r = r * x
                        return SV(KInt, r)
                return SV(KInt, uf("int_pow", z3.IntSort(), z3.IntSort(), z3.IntSort())(x, y))
        if (ka is KFloat or num(ka)) and (kb is KFloat or num(kb)):
            x, y = self.coerce(st, a, KFloat).term, self.coerce(st, b, KFloat).term
            if isinstance(op, ast.Add):
                return SV(KFloat, f_arith("add", x, y))
            if isinstance(op, ast.Sub):
                return SV(KFloat, f_arith("sub", x, y))
            if isinstance(op, ast.Mult):
                return SV(KFloat, f_arith("mul", x, y))
            if isinstance(op, ast.Div):
                if not self.spec_mode:
                    zero = z3.And(f_is_fin(y), f_r(y) == 0)
                    if st.branch(zero, "fdiv0"):
                        self.raise_(ZeroDivisionError, node)
                return SV(KFloat, f_arith("div", x, y))
            if isinstance(op, ast.Pow):
                return SV(KFloat, uf("flt_pow", F(), F(), F())(x, y))
            if isinstance(op, (ast.Mod, ast.FloorDiv)):
                if not self.spec_mode:
                    zero = z3.And(f_is_fin(y), f_r(y) == 0)
                    if st.branch(zero, "fmod0"):
                        self.raise_(ZeroDivisionError, node)
                both = z3.And(f_is_fin(x), f_is_fin(y))
                q = z3.ToReal(z3.ToInt(f_r(x) / f_r(y)))   # floor for reals (z3 to_int is floor)
                unk = uf("flt_mod_special", F(), F(), F())(x, y)
                if isinstance(op, ast.FloorDiv):
                    return SV(KFloat, z3.If(both, f_fin(q), unk))
                return SV(KFloat, z3.If(both, f_fin(f_r(x) - q * f_r(y)), unk))
        if isinstance(ka, KRef) and isinstance(kb, KRef) and ka.cls == "datetime" and isinstance(op, ast.Sub):
            return self.new_object(st, "timedelta")
        if isinstance(ka, KList) and isinstance(kb, KList) and isinstance(op, ast.Add):
            return self.list_concat(st, a, b, node)
        raise Unsupported("binop %s on %s / %s (line %s)" % (type(op).__name__, ka, kb, getattr(node, "lineno", "?")))

    def list_concat(self, st, a, b, node=None):
        out = self.new_list(st, a.kind)
        n, e = self.lnames(a.kind)
        la, lb = self.list_len(st, a), self.list_len(st, b)
        st.heap[n] = z3.Store(self.harr(st, n), out.term, la + lb)
        arr = st.fresh("cat", z3.ArraySort(z3.IntSort(), sort_of(a.kind.elem)))
        ea = self.harr(st, e)
        i = z3.Int("cat_i")
        self.assume(st, qforall([i], arr[i] == z3.If(i < la, ea[a.term][i], ea[b.term][i - la]), patterns=[arr[i]]))
        st.heap[e] = z3.Store(ea, out.term, arr)
        return out

    def eval_JoinedStr(self, st, node):
        return SV(KStr, st.fresh("fstr", z3.StringSort()))

    def eval_Tuple(self, st, node):
        items = [self.eval(st, e) for e in node.elts]
        return SV(KTuple([i.kind for i in items]), None, items=items)

    def eval_List(self, st, node):
        if not node.elts:
            return SV(KConst, None, const=EmptyLit("list"))
        items = [self.eval(st, e) for e in node.elts]
        if not self.spec_mode:
            for n_, it in enumerate(items):
                if isinstance(it.kind, KOpt):
                    O = sort_of(it.kind)
                    if st.branch(O.is_some(it.term), "opt-elem"):
                        items[n_] = SV(it.kind.inner, O.v(it.term))
                    else:
                        items[n_] = NONE
        ek = items[0].kind
        for it in items[1:]:
            if it.kind != ek:
                ek = KVal
        if isinstance(ek, KOpt) or ek is KConst:
            ek = KVal
        l = self.new_list(st, KList(ek), z3.IntVal(len(items)))
        for i, it in enumerate(items):
            self.list_set(st, l, z3.IntVal(i), it, node)
        self.set_is_tuple(st, l, False)
        return l

    def eval_Set(self, st, node):
        items = [self.eval(st, e) for e in node.elts]
        s = self.new_set(st, KSet(items[0].kind))
        for it in items:
            self.set_add(st, s, it)
        return s

    def eval_Dict(self, st, node):
        if not node.keys:
            return SV(KConst, None, const=EmptyLit("dict"))
        # evaluate in source order, then build: later entries override earlier ones
        items = []
        for kn, vn in zip(node.keys, node.values):
            if kn is None:
                src = self.eval(st, vn)
                if src.kind is KVal:
                    src = self.coerce(st, src, KDict(KStr, KVal), vn)
                if src.kind is KConst and isinstance(src.const, EmptyLit):
                    continue
                if not isinstance(src.kind, KDict):
                    raise Unsupported("** of %s" % src.kind)
                items.append(("**", src, None))
            else:
                items.append(("kv", self.eval(st, kn), self.eval(st, vn)))
        stars = [it for it in items if it[0] == "**"]
        if stars:
            kind = stars[0][1].kind
        else:
            kvs = [it for it in items if it[0] == "kv"]
            kk = kvs[0][1].kind
            vk = kvs[0][2].kind
            for _, _, v in kvs[1:]:
                if v.kind != vk:
                    vk = KVal
            if vk is KConst or vk is KNone or isinstance(vk, (KOpt, KTuple)):
                vk = KVal
            kind = KDict(kk, vk)
        if items and items[0][0] == "**":
            out = self.copy_dict(st, items[0][1])
            items = items[1:]
        else:
            out = self.new_dict(st, kind)
        lit_keys = []
        for tag, a, b in items:
            if tag == "**":
                self.dict_update(st, out, a, node, ground_keys=list(lit_keys))
            else:
                kk = self.coerce(st, a, out.kind.k, node)
                lit_keys.append(kk.term)
                self.dict_set(st, out, kk, b, node)
        return out

    def dict_update(self, st, dst: SV, src: SV, node=None, ground_keys=()):
        """dst.update(src): pointwise merge (sizes: exact when src has one key, else axiomatised)."""
        if src.kind is KVal:
            src = self.coerce(st, src, KDict(KStr, KVal), node)
        if src.kind.k != dst.kind.k:
            raise Unsupported("dict.update key kinds")
        h, v, n = self.dnames(dst.kind)
        hs, vs, ns = self.dnames(src.kind)
        ha, va, na = self.harr(st, h), self.harr(st, v), self.harr(st, n)
        hsa, vsa = self.harr(st, hs), self.harr(st, vs)
        kk = z3.Const("upd_k", sort_of(dst.kind.k))
        nh = st.fresh("updh", z3.ArraySort(sort_of(dst.kind.k), z3.BoolSort()))
        nv = st.fresh("updv", z3.ArraySort(sort_of(dst.kind.k), sort_of(dst.kind.v)))
        srcv = vsa[src.term][kk]
        if src.kind.v != dst.kind.v:
            srcv = self.coerce(st, SV(src.kind.v, srcv), dst.kind.v, node).term
        self.assume(st, qforall([kk], nh[kk] == z3.Or(ha[dst.term][kk], hsa[src.term][kk]), patterns=[nh[kk]]))
        self.assume(st, qforall([kk], nv[kk] == z3.If(hsa[src.term][kk], srcv, va[dst.term][kk]), patterns=[nv[kk]]))
        # ground instances for keys known at this point (literal keys of a display): lets path feasibility see them
        for gk in ground_keys:
            sv_g = vsa[src.term][gk]
            if src.kind.v != dst.kind.v:
                sv_g = self.coerce(st, SV(src.kind.v, sv_g), dst.kind.v, node).term
            st.assume(nh[gk] == z3.Or(ha[dst.term][gk], hsa[src.term][gk]))
            st.assume(nv[gk] == z3.If(hsa[src.term][gk], sv_g, va[dst.term][gk]))
        nn = st.fresh("updn", z3.IntSort())
        self.assume(st, z3.And(nn >= na[dst.term], nn <= na[dst.term] + self.dict_size(st, src)))
        st.heap[h] = z3.Store(ha, dst.term, nh)
        st.heap[v] = z3.Store(va, dst.term, nv)
        st.heap[n] = z3.Store(na, dst.term, nn)

    def eval_Subscript(self, st, node):
        v = self.eval(st, node.value)
        return self.subscript(st, v, node.slice, node)

    def subscript(self, st, v: SV, sl, node):
        k = v.kind
        if isinstance(k, KOpt):
            v = self.coerce(st, v, k.inner, node)
            k = v.kind
        if isinstance(sl, ast.Slice):
            return self.slice(st, v, sl, node)
        idx = self.eval(st, sl)
        if k is KVal:
            V = val_sort()
            if idx.kind is KStr:
                v = self.coerce(st, v, KDict(KStr, KVal), node)
            else:
                v = self.coerce(st, v, KList(KVal), node)
            k = v.kind
        if isinstance(k, KDict):
            key = self.coerce_key(st, idx, k.k, node)
            if not self.spec_mode:
                self.nonnull(st, v, node)
                if not st.branch(self.dict_has(st, v, key), "key@%s" % getattr(node, "lineno", "?")):
                    self.raise_(KeyError, node)
            return self.dict_get(st, v, key)
        if isinstance(k, KList):
            i = self.coerce(st, idx, KInt, node).term
            n = self.list_len(st, v)
            if not self.spec_mode:
                self.nonnull(st, v, node)
                if not st.branch(z3.And(-n <= i, i < n), "index@%s" % getattr(node, "lineno", "?")):
                    self.raise_(IndexError, node)
            i = z3.simplify(i)
            if z3.is_int_value(i) and i.as_long() < 0:
                i = n + i
            elif not z3.is_int_value(i):
                i = z3.If(i < 0, n + i, i)
            return self.list_get(st, v, i)
        if isinstance(k, KTuple):
            i = z3.simplify(self.coerce(st, idx, KInt, node).term)
            if not z3.is_int_value(i):
                raise Unsupported("symbolic tuple index")
            return self.tuple_items(v)[i.as_long()]
        raise Unsupported("subscript of %s (line %s)" % (k, getattr(node, "lineno", "?")))

    def slice(self, st, v: SV, sl, node):
        if not isinstance(v.kind, KList):
            raise Unsupported("slice of %s" % v.kind)
        if sl.step is not None:
            raise Unsupported("slice step")
        n = self.list_len(st, v)
        lo = self.coerce(st, self.eval(st, sl.lower), KInt, node).term if sl.lower is not None else z3.IntVal(0)
        hi = self.coerce(st, self.eval(st, sl.upper), KInt, node).term if sl.upper is not None else n
        clamp = lambda x: z3.If(x < 0, z3.If(n + x < 0, 0, n + x), z3.If(x > n, n, x))
        lo, hi = clamp(lo), clamp(hi)
        ln = z3.If(hi - lo < 0, 0, hi - lo)
        out = self.new_list(st, KList(v.kind.elem, ""), ln)
        _, e = self.lnames(v.kind)
        _, eo = self.lnames(out.kind)
        arr = st.fresh("slc", z3.ArraySort(z3.IntSort(), sort_of(v.kind.elem)))
        ea = self.harr(st, e)
        i = z3.Int("slc_i")
        row = z3.simplify(ea[v.term])
        self.assume(st, qforall([i], arr[i] == row[lo + i], patterns=[arr[i]]))
        # the same fact indexed from the source side (so that a known source element finds its slice position)
        self.assume(st, qforall([i], arr[i - lo] == row[i], patterns=[row[i]]))
        st.heap[eo] = z3.Store(self.harr(st, eo), out.term, arr)
        out.guard = None
        st.ghost.setdefault("slices", {})[id(out)] = (v, lo)
        out_meta = (v, lo)
        self._slice_meta = getattr(self, "_slice_meta", {})
        self._slice_meta[out.term.get_id()] = out_meta
        return out

    def eval_Lambda(self, st, node):
        return SV(KConst, None, const=Closure(node, self.frame(st)))

    def eval_ListComp(self, st, node):
        from . import lib
        return lib.comprehension(self, st, node, "list")

    def eval_SetComp(self, st, node):
        from . import lib
        return lib.comprehension(self, st, node, "set")

    def eval_DictComp(self, st, node):
        from . import lib
        return lib.comprehension(self, st, node, "dict")

    def eval_GeneratorExp(self, st, node):
        return SV(KConst, None, const=("genexp", node, self.frame(st)))

    def eval_Starred(self, st, node):
        raise Unsupported("starred expression")

    # ---------------------------------------------------------------------------------------
    # calls
    def eval_Call(self, st, node):
        fn = node.func
        if isinstance(fn, ast.Name):
            nm = fn.id
            if nm in ("old", "forall", "exists", "implies", "fresh", "iff", "nondet", "only_fresh_modified") and (self.spec_mode or nm in ("implies",)):
                return self.spec_builtin(st, nm, node)
        if isinstance(fn, ast.Name) and fn.id == "cast" and len(node.args) == 2:
            return self.eval(st, node.args[1])     # typing.cast: identity, the type is not evaluated
        # idiom `dict(sorted(d.items(), key=...))`: a fresh dict with exactly d's items (iteration order is not modelled, so
        # re-ordering by key has no other effect)
        if isinstance(fn, ast.Name) and fn.id == "dict" and "dict" not in self.frame(st).env and len(node.args) == 1 and not node.keywords:
            a0 = node.args[0]
            if isinstance(a0, ast.Call) and isinstance(a0.func, ast.Name) and a0.func.id == "sorted" and len(a0.args) == 1 \
                    and all(k.arg == "key" for k in a0.keywords) and isinstance(a0.args[0], ast.Call) \
                    and isinstance(a0.args[0].func, ast.Attribute) and a0.args[0].func.attr == "items" and not a0.args[0].args:
                src = self.eval(st, a0.args[0].func.value)
                if isinstance(src.kind, KOpt):
                    src = self.coerce(st, src, src.kind.inner, node)
                from . import lib
                lib.USED.add("dict(sorted(d.items()))")
                if src.kind is KConst and isinstance(src.const, EmptyLit):
                    return src
                if isinstance(src.kind, KDict):
                    if not self.spec_mode:
                        self.nonnull(st, src, node)
                    return self.copy_dict(st, src)
        # logger / warnings: no-ops, arguments not evaluated (DESIGN 3.1)
        if isinstance(fn, ast.Attribute) and isinstance(fn.value, ast.Name) and fn.value.id in ("_logger", "logger", "warnings", "logging"):
            if fn.value.id not in self.frame(st).env:
                return NONE
        f = self.eval(st, fn)
        args = []
        for a in node.args:
            if isinstance(a, ast.Starred):
                raise Unsupported("*args at call (line %s)" % node.lineno)
            args.append(self.eval(st, a))
        kwargs = {}
        for kw in node.keywords:
            if kw.arg is None:
                raise Unsupported("**kwargs at call (line %s)" % node.lineno)
            kwargs[kw.arg] = self.eval(st, kw.value)
        return self.call_value(st, f, args, kwargs, node)

    def call_value(self, st, f: SV, args, kwargs, node):
        if f.kind is KConst:
            c = f.const
            if isinstance(c, BoundMethod):
                return self.call_method(st, c, args, kwargs, node)
            if isinstance(c, tuple) and c and c[0] == "constfn":
                return c[1]
            if isinstance(c, tuple) and c and c[0] == "specfunc":
                r = self.reg.specfuncs[c[1]](self, st, *args, **kwargs)
                return r if isinstance(r, SV) else SV(KBool, r)
            if isinstance(c, Closure):
                return self.call_closure(st, c, args, node)
            return self.call_function(st, c, args, kwargs, node)
        if isinstance(f.kind, KRef):
            return self.call_unknown(st, f, args, kwargs, node)
        raise Unsupported("call of %s (line %s)" % (f.kind, getattr(node, "lineno", "?")))

    def call_closure(self, st, c: Closure, args, node):
        params = [a.arg for a in c.node.args.args]
        fr = Frame(c.frame.fi, dict(c.frame.env), c.frame.module, c.frame.contract)
        for p, a in zip(params, args):
            fr.env[p] = a
        st.frames.append(fr)
        try:
            return self.eval(st, c.node.body)
        finally:
            st.frames.pop()

    def call_method(self, st, bm: BoundMethod, args, kwargs, node):
        recv = bm.recv
        if bm.func is not None:
            return self.call_function(st, bm.func, [recv] + list(args), kwargs, node)
        k = recv.kind
        if isinstance(k, KRef) and (k.cls, bm.name) in self.methods:
            return self.methods[(k.cls, bm.name)](self, st, recv, args, kwargs, node)
        tag = "list" if isinstance(k, KList) else "dict" if isinstance(k, KDict) else "set" if isinstance(k, KSet) else k.name
        h = self.methods.get((tag, bm.name))
        if h is None:
            raise Unsupported("method %s.%s (line %s)" % (tag, bm.name, getattr(node, "lineno", "?")))
        return h(self, st, recv, args, kwargs, node)

    def call_unknown(self, st, f: SV, args, kwargs, node):
        h = self.reg.unknown_callables.get(f.kind.cls)
        if h is None:
            raise Unsupported("call of unknown callable %s (line %s)" % (f.kind, getattr(node, "lineno", "?")))
        return h(self, st, f, args, kwargs, node)

    def call_function(self, st, fobj, args, kwargs, node):
        # 1. library table
        try:
            h = self.builtins.get(fobj)
        except TypeError:
            h = None
        if h is not None:
            return h(self, st, args, kwargs, node)
        # 2. classes
        if inspect.isclass(fobj):
            return self.call_class(st, fobj, args, kwargs, node)
        # 3. repository functions: contract, else inline
        fi = self.fe.func_of_object(fobj)
        if fi is None:
            raise Unsupported("call of %r: not in repository and no library contract (line %s)"
                              % (fobj, getattr(node, "lineno", "?")))
        return self.call_repo_function(st, fi, args, kwargs, node)

    def call_repo_function(self, st, fi: FuncInfo, args, kwargs, node):
        c = self.reg.contracts.get(fi.key)
        top = st.frames[0] if st.frames else None
        if top is not None and top.contract is not None and not self.spec_mode and len(st.frames) == 1:
            # a function that only has contract variants (per dispatch class): the calling contract names the variant its
            # call goes through (`call_variants={qualname: variant}`); the variant's declared parameter types are then
            # checked against the actual arguments like any contract's
            v = getattr(top.contract, "call_variants", {}).get(fi.qualname)
            if v is not None:
                c = self.reg.contracts.get((fi.key[0], fi.key[1] + "#" + v))
        if top is not None and top.contract is not None and fi.qualname in top.contract.inline_callees and not self.spec_mode:
            from .contracts import Contract
            synth = Contract(fi.file, fi.qualname, loops=top.contract.inline_callees[fi.qualname],
                             types=(c.types if c is not None else None), locals=(c.locals if c is not None else None))
            synth.inline_callees = top.contract.inline_callees
            return self.inline_call(st, fi, args, kwargs, node, synth)
        # self-calls inside the class under verification: loop-free callees are inlined (their
        # contracts' invariants do not hold in the middle of the caller)
        if (c is not None and not c.inline and not self.spec_mode and top is not None and top.fi is not None
                and top.fi.cls is not None and fi.cls is not None and issubclass(top.fi.cls, fi.cls)
                and args and args[0] is top.env.get("self") and self.inlinable(fi) and not c.no_self_inline
                and not c.trusted):
            return self.inline_call(st, fi, args, kwargs, node, None)
        if c is not None and not c.inline and not self.spec_mode:
            return self.apply_contract(st, fi, c, args, kwargs, node)
        if c is not None and c.trusted and self.spec_mode:
            # pure context (comprehension element / spec clause): a trusted contract whose normal case has a
            # `returns` expression denotes that value
            for cs in c.cases:
                if cs.raises is None and cs.returns is not None:
                    env = self.bind_params(st, fi, args, kwargs, c, node)
                    ctx = SpecCtx(dict(st.heap), dict(env), pre_nref=st.nref)
                    return self.spec_value(st, cs.returns, ctx, env, fi.module, fi)
            raise Unsupported("trusted contract of %s has no pure reading" % fi)
        if c is None and not self.inlinable(fi) and not self.spec_mode:
            raise Unsupported("no contract for %s and not inlinable (called at line %s)" % (fi, getattr(node, "lineno", "?")))
        return self.inline_call(st, fi, args, kwargs, node, c)

    def inlinable(self, fi: FuncInfo) -> bool:
        """Loop-free bodies only (calls inside are resolved recursively, depth-bounded)."""
        for n in ast.walk(fi.node):
            if isinstance(n, (ast.For, ast.While, ast.Yield, ast.YieldFrom, ast.AsyncFor, ast.Await)):
                return False
        return True

    def bind_params(self, st, fi: FuncInfo, args, kwargs, contract=None, node=None):
        a = fi.node.args
        names = [x.arg for x in a.posonlyargs + a.args]
        anns = {x.arg: x.annotation for x in a.posonlyargs + a.args + a.kwonlyargs}
        defaults = dict(zip(names[len(names) - len(a.defaults):], a.defaults))
        for x, d in zip(a.kwonlyargs, a.kw_defaults):
            if d is not None:
                defaults[x.arg] = d
        if a.vararg or a.kwarg:
            raise Unsupported("*args/**kwargs in signature of %s" % fi)
        env = {}
        if len(args) > len(names):
            raise Unsupported("too many args for %s" % fi)
        for nm, v in zip(names, args):
            env[nm] = v
        for k, v in kwargs.items():
            if k in env:
                raise Unsupported("duplicate arg %s" % k)
            env[k] = v
        allnames = names + [x.arg for x in a.kwonlyargs]
        fr = Frame(fi, {}, fi.module)
        for nm in allnames:
            if nm not in env:
                if nm not in defaults:
                    raise Unsupported("missing argument %s for %s (line %s)" % (nm, fi, getattr(node, "lineno", "?")))
                st.frames.append(fr)
                try:
                    env[nm] = self.eval(st, defaults[nm])
                finally:
                    st.frames.pop()
        # coerce to declared kinds
        for nm in allnames:
            kind = self.param_kind(fi, nm, anns.get(nm), contract)
            if kind is not None:
                env[nm] = self.coerce(st, env[nm], kind, node)
        return env

    def param_kind(self, fi: FuncInfo, name, ann, contract=None):
        c = contract or self.reg.contracts.get(fi.key)
        if c is not None and name in c.types:
            return self.parse_type(c.types[name], fi.module)
        if name in ("self",) and fi.cls is not None:
            return self.kind_of_class(fi.cls)
        if name == "cls":
            return None
        if ann is None:
            return None
        try:
            return self.parse_type(ann, fi.module)
        except Unsupported:
            return None

    def inline_call(self, st, fi: FuncInfo, args, kwargs, node, contract=None):
        if self.inline_depth >= self.max_inline:
            raise Unsupported("inline depth exceeded at %s" % fi)
        env = self.bind_params(st, fi, args, kwargs, contract, node)
        fr = Frame(fi, env, fi.module, contract)
        if hasattr(self, "touched"):
            self.touched.setdefault(fi.key, self.fe.source_hash(fi))
        st.frames.append(fr)
        self.inline_depth += 1
        try:
            if self.spec_mode:
                return self.spec_inline(st, fi)
            try:
                self.exec_block(st, fi.node.body)
            except PyReturn as r:
                return r.value
            return NONE
        finally:
            self.inline_depth -= 1
            st.frames.pop()

    def spec_inline(self, st, fi: FuncInfo):
        """Spec-mode call of a pure function whose body is (docstring +) `return <expr>` or a simple
        if/return chain."""
        body = [s for s in fi.node.body if not (isinstance(s, ast.Expr) and isinstance(s.value, ast.Constant))]
        return self.spec_block(st, body)

    def spec_block(self, st, body):
        if not body:
            return NONE
        s = body[0]
        if isinstance(s, ast.Return):
            return self.eval(st, s.value) if s.value is not None else NONE
        if isinstance(s, ast.If):
            c = self.truth(st, self.eval(st, s.test))
            fr = self.frame(st)
            env0 = dict(fr.env)           # each branch starts from the environment before the `if`
            a = self.spec_block(st, s.body + body[1:]) if not _ends_in_return(s.body) else self.spec_block(st, s.body)
            fr.env = dict(env0)
            b = self.spec_block(st, (s.orelse or []) + body[1:])
            fr.env = env0
            a, b = self.unify(st, a, b)
            if a.kind is KNone:
                return a
            return SV(a.kind, z3.If(c, a.term, b.term))
        if isinstance(s, ast.Assign) and len(s.targets) == 1 and isinstance(s.targets[0], ast.Name):
            self.frame(st).env[s.targets[0].id] = self.eval(st, s.value)
            return self.spec_block(st, body[1:])
        if isinstance(s, ast.Raise):
            return SV(KVal, st.fresh("undef", val_sort()))
        raise Unsupported("spec-mode inline of statement %s" % type(s).__name__)

    def call_class(self, st, cls, args, kwargs, node):
        if issubclass(cls, BaseException):
            return SV(KConst, None, const=PyExc(cls, args, where="line %s" % getattr(node, "lineno", "?")))
        if issubclass(cls, enum.Enum):
            v = self.coerce(st, args[0], KInt, node)
            vals = [int(m.value) for m in cls]
            ok = z3.Or([v.term == x for x in vals])
            if not self.spec_mode and not st.branch(ok, "enum-range"):
                self.raise_(ValueError, node)
            return SV(KEnum(cls), v.term)
        name = self.register_class(cls)
        init = inspect.getattr_static(cls, "__init__", None)
        fi = self.fe.func_of_object(init) if init is not None else None
        obj = self.new_object(st, name)
        if fi is not None:
            self.call_repo_function(st, fi, [obj] + list(args), kwargs, node)
        elif args or kwargs:
            raise Unsupported("constructor of %s" % name)
        return obj

    # ---------------------------------------------------------------------------------------
    # spec-mode builtins
    def spec_builtin(self, st, nm, node):
        if nm == "old":
            ctx = self.spec_stack[-1]
            fr = self.frame(st)
            saved_heap, saved_env, saved_nref = st.heap, fr.env, st.nref
            st.heap = dict(ctx.pre_heap)
            fr.env = dict(ctx.pre_env)
            for k2, v2 in saved_env.items():
                fr.env.setdefault(k2, v2)
            if ctx.pre_nref is not None:
                st.nref = ctx.pre_nref
            try:
                return self.eval(st, node.args[0])
            finally:
                # arrays created lazily while evaluating old() are initial arrays: keep them
                for k2, v2 in st.heap.items():
                    if k2 not in saved_heap:
                        saved_heap[k2] = v2
                        ctx.pre_heap.setdefault(k2, v2)
                st.heap, fr.env, st.nref = saved_heap, saved_env, saved_nref
        if nm == "implies":
            a = self.truth(st, self.eval(st, node.args[0]))
            b = self.truth(st, self.eval(st, node.args[1]))
            return SV(KBool, z3.Implies(a, b))
        if nm == "iff":
            a = self.truth(st, self.eval(st, node.args[0]))
            b = self.truth(st, self.eval(st, node.args[1]))
            return SV(KBool, a == b)
        if nm in ("forall", "exists"):
            lam = node.args[-1]
            if not isinstance(lam, ast.Lambda):
                raise Unsupported("forall needs a lambda")
            fr = self.frame(st)
            saved = dict(fr.env)
            vs = []
            kinds = {}
            trig_node = None
            for kw in node.keywords:
                if kw.arg == "trigger":
                    trig_node = kw.value
                    continue
                kinds[kw.arg] = self.parse_type(kw.value.value if isinstance(kw.value, ast.Constant) else kw.value, fr.module)
            for a in lam.args.args:
                kind = kinds.get(a.arg, KInt)
                v = z3.Const("q_%s_%d" % (a.arg, st.counter), sort_of(kind))
                st.counter += 1
                vs.append(v)
                fr.env[a.arg] = SV(kind, v)
            pats = None
            try:
                body = self.truth(st, self.eval(st, lam.body))
                if trig_node is not None:
                    tv = self.eval(st, trig_node.body if isinstance(trig_node, ast.Lambda) else trig_node)
                    if tv.term is not None:
                        pats = [tv.term]
            finally:
                fr.env = saved
            if nm == "forall":
                return SV(KBool, qforall(vs, body, patterns=pats))
            return SV(KBool, z3.Exists(vs, body))
        if nm == "only_fresh_modified":
            # frame: in every heap array that differs from the pre-state, objects allocated before the
            # call are unchanged (the callee only initialises objects it allocated itself)
            ctx = self.spec_stack[-1]
            conj = []
            r = z3.Int("ofm_r")
            for name, arr in st.heap.items():
                a0 = ctx.pre_heap.get(name)
                if a0 is None or z3.eq(a0, arr) or name.startswith("G:") or "@oldview" in name:
                    continue
                conj.append(qforall([r], z3.Implies(z3.And(0 <= r, r < ctx.pre_nref), arr[r] == a0[r]), patterns=[arr[r], a0[r]]))
            return SV(KBool, z3.And(conj) if conj else z3.BoolVal(True))
        if nm == "nondet":
            return SV(KBool, st.fresh("nondet", z3.BoolSort()))
        if nm == "fresh":
            ctx = self.spec_stack[-1]
            v = self.eval(st, node.args[0])
            return SV(KBool, z3.And(v.term >= ctx.pre_nref, v.term < st.nref))
        raise Unsupported(nm)

    def spec_eval(self, st, clause, ctx: SpecCtx, env=None, module=None, fi=None):
        """Evaluate a clause to a z3 Bool in the current (post) state; old() reads ctx."""
        self.spec_stack.append(ctx)
        self.spec_mode += 1
        pushed = False
        if env is not None:
            st.frames.append(Frame(fi, dict(env), module))
            pushed = True
        try:
            if callable(clause):
                r = clause(Cx(self, st, ctx))
                return r if not isinstance(r, SV) else self.truth(st, r)
            tree = _parse_clause(clause)
            return self.truth(st, self.eval(st, tree))
        finally:
            if pushed:
                st.frames.pop()
            self.spec_mode -= 1
            self.spec_stack.pop()

    def spec_value(self, st, text, ctx: SpecCtx, env=None, module=None, fi=None) -> SV:
        self.spec_stack.append(ctx)
        self.spec_mode += 1
        pushed = False
        if env is not None:
            st.frames.append(Frame(fi, dict(env), module))
            pushed = True
        try:
            if callable(text):
                return text(Cx(self, st, ctx))
            return self.eval(st, _parse_clause(text))
        finally:
            if pushed:
                st.frames.pop()
            self.spec_mode -= 1
            self.spec_stack.pop()


_clause_cache: dict = {}


def _parse_clause(text):
    if text not in _clause_cache:
        _clause_cache[text] = ast.parse(text.strip(), mode="eval").body
    return _clause_cache[text]


def _ends_in_return(body):
    return bool(body) and isinstance(body[-1], (ast.Return, ast.Raise))


class Cx:
    """Context handed to callable clauses and spec functions."""

    def __init__(self, eng, st, ctx):
        self.eng = eng
        self.st = st
        self.ctx = ctx

    def var(self, name) -> SV:
        return self.eng.frame(self.st).env[name]

    def old_var(self, name) -> SV:
        return self.ctx.pre_env[name]

    @property
    def result(self):
        return self.ctx.result

    def heap(self, name):
        return self.eng.harr(self.st, name)

    def old_heap(self, name):
        self.eng.harr(self.st, name)
        return self.ctx.pre_heap.get(name, self.st.heap0.get(name))

    def expr(self, text) -> SV:
        return self.eng.eval(self.st, _parse_clause(text))

    def b(self, text):
        return self.eng.truth(self.st, self.expr(text))
