"""Witness for the journal compare-and-set (WAITING -> RUNNING succeeds once): a worker that already owns the
RUNNING trial claims it again."""


def run():
    import os, tempfile
    import optuna
    from optuna.trial import TrialState
    from optuna.storages.journal import JournalStorage, JournalFileBackend
    optuna.logging.set_verbosity(optuna.logging.ERROR)
    d = tempfile.mkdtemp(prefix="verif_f4_")
    try:
        st = JournalStorage(JournalFileBackend(os.path.join(d, "j.log")))
        sid = st.create_new_study([optuna.study.StudyDirection.MINIMIZE], "s")
        tmpl = optuna.trial.create_trial(state=TrialState.WAITING)
        tid = st.create_new_trial(sid, template_trial=tmpl)
        r1 = st.set_trial_state_values(tid, TrialState.RUNNING)
        r2 = st.set_trial_state_values(tid, TrialState.RUNNING)
        return {"function": "optuna/storages/journal/_storage.py:JournalStorage.set_trial_state_values",
                "steps": ["create WAITING trial", "set_trial_state_values(RUNNING)", "set_trial_state_values(RUNNING) again, same worker"],
                "observed": "first claim returned %r, second claim returned %r (contract: True, False)" % (r1, r2),
                "reproduced": bool(r2)}
    finally:
        import shutil
        shutil.rmtree(d, ignore_errors=True)
