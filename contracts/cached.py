"""Contracts for optuna/storages/_cached_storage.py (C08).

Ghost backend B (fields g_* on the RDBStorage object): g_trial (trial id -> the backend's CURRENT snapshot object of
that trial; key present = the trial exists), g_sid (trial id -> study id, fixed), g_max (largest id ever handed out).
Other clients change B between (and during) backend calls, but only by storage-contract transitions -- `evolves`:
existing ids persist with their study and number; a FINISHED trial's snapshot never changes again; new ids are larger
than every existing id.  The SQL of RDBStorage._get_trials / _create_new_trial is ASSUMED to implement the contracts
below (storage.py:432-569, 787-852).

Cache invariant K: (K1) a cached trial that is not in unfinished_trial_ids is finished and IS the backend's snapshot;
(K2) every backend trial of a cached study with id <= last_finished_trial_id is cached or in unfinished_trial_ids
(nothing hides below the watermark); (K3) the id maps agree with the per-study trial dicts.
"""
import z3

from pyvc.contracts import Registry, case, loop, Contract
from pyvc.kinds import *  # noqa
from pyvc.state import SV

R = Registry()
F = "optuna/storages/_cached_storage.py"
RDB = "optuna/storages/_rdb/storage.py"

import optuna  # noqa: E402
import optuna.storages._cached_storage as _cs  # noqa: E402
R.classes.update({"_CachedStorage": _cs._CachedStorage, "_StudyInfo": _cs._StudyInfo, "RDBStorage": optuna.storages.RDBStorage,
                  "FrozenTrial": optuna.trial.FrozenTrial, "BaseDistribution": optuna.distributions.BaseDistribution})
R.schema("FrozenTrial", {
    "_number": "int", "state": "TrialState", "_values": "list[float] | None",
    "_datetime_start": "ref[datetime] | None", "datetime_complete": "ref[datetime] | None",
    "_params": "dict[str, Any] @ tp", "_distributions": "dict[str, BaseDistribution] @ td",
    "_user_attrs": "dict[str, Any] @ tu", "_system_attrs": "dict[str, Any] @ ts",
    "intermediate_values": "dict[int, float] @ ti", "_trial_id": "int"})
R.schema("_CachedStorage", {"_backend": "RDBStorage", "_studies": "dict[int, _StudyInfo] @ cst",
                            "_trial_id_to_study_id_and_number": "dict[int, tuple[int, int]] @ cid",
                            "_study_id_and_number_to_trial_id": "dict[tuple[int, int], int] @ csn", "_lock": "ref[Lock]"})
R.schema("_StudyInfo", {"trials": "dict[int, FrozenTrial] @ ctr", "unfinished_trial_ids": "set[int] @ cun",
                        "last_finished_trial_id": "int", "directions": "list[StudyDirection] | None", "name": "str | None"})
R.schema("RDBStorage", {"g_trial": "dict[int, FrozenTrial] @ gbt", "g_sid": "dict[int, int] @ gbs", "g_max": "int"})
R.guarded["_CachedStorage"] = {"lock": "_lock", "fields": ["_studies", "_trial_id_to_study_id_and_number", "_study_id_and_number_to_trial_id"]}
R.guard_stop |= {"FrozenTrial", "RDBStorage", "Lock", "datetime", "BaseDistribution"}
R.immutable |= {"BaseDistribution"}
I = z3.IntSort()


def fin(t):
    return z3.And(t != 0, t != 4)


class MC:
    def __init__(self, eng, st, s):
        self.e, self.st, self.s = eng, st, s
        eng.spec_mode += 1
        try:
            g = lambda o, f: eng.get_field(st, o, f)
            self.studies, self.idmap, self.snmap = g(s, "_studies"), g(s, "_trial_id_to_study_id_and_number"), g(s, "_study_id_and_number_to_trial_id")
            self.b = g(s, "_backend")
            self.gt, self.gs, self.gmax = g(self.b, "g_trial"), g(self.b, "g_sid"), g(self.b, "g_max").term
        finally:
            eng.spec_mode -= 1
        self.tsort = sort_of(self.idmap.kind.v)

    def _sp(self, f):
        self.e.spec_mode += 1
        try:
            return f()
        finally:
            self.e.spec_mode -= 1

    def has_study(self, s):
        return self.e.dict_has(self.st, self.studies, SV(KInt, s))

    def info(self, s):
        return self._sp(lambda: self.e.dict_get(self.st, self.studies, SV(KInt, s)))

    def f(self, s, name):
        return self._sp(lambda: self.e.get_field(self.st, self.info(s), name))

    def has_num(self, s, n):
        return self.e.dict_has(self.st, self.f(s, "trials"), SV(KInt, n))

    def trial(self, s, n):
        return self._sp(lambda: self.e.dict_get(self.st, self.f(s, "trials"), SV(KInt, n)))

    def unfinished(self, s, t):
        return self.e.set_has(self.st, self.f(s, "unfinished_trial_ids"), SV(KInt, t))

    def wm(self, s):
        return self.f(s, "last_finished_trial_id").term

    def has_id(self, t):
        return self.e.dict_has(self.st, self.idmap, SV(KInt, t))

    def id_sid(self, t):
        return self.tsort.accessor(0, 0)(self.e.dict_get(self.st, self.idmap, SV(KInt, t)).term)

    def id_num(self, t):
        return self.tsort.accessor(0, 1)(self.e.dict_get(self.st, self.idmap, SV(KInt, t)).term)

    def b_has(self, t):
        return self.e.dict_has(self.st, self.gt, SV(KInt, t))

    def b_trial(self, t):
        return self._sp(lambda: self.e.dict_get(self.st, self.gt, SV(KInt, t)))

    def b_sid(self, t):
        return self.e.dict_get(self.st, self.gs, SV(KInt, t)).term

    def tf(self, trl, name):
        return self._sp(lambda: self.e.get_field(self.st, trl, name))


def _mc(eng, st, s):
    return MC(eng, st, s)


@R.specfunc()
def B_wf(eng, st, self_sv):
    """Well-formed backend: every existing trial has a study, a non-null snapshot carrying its id, ids <= g_max."""
    m = _mc(eng, st, self_sv)
    t = z3.Int("bw_t")
    snap = m.b_trial(t)
    t2 = z3.Int("bw_t2")
    uniq = qforall([t, t2], z3.Implies(z3.And(m.b_has(t), m.b_has(t2), t != t2, m.b_sid(t) == m.b_sid(t2)),
                                       m.tf(m.b_trial(t), "_number").term != m.tf(m.b_trial(t2), "_number").term),
                   patterns=[z3.MultiPattern(m.b_has(t), m.b_has(t2))])
    return z3.And(m.gmax >= -1, uniq, qforall([t], z3.Implies(m.b_has(t), z3.And(
        eng.dict_has(st, m.gs, SV(KInt, t)), snap.term > 0, m.tf(snap, "_trial_id").term == t, 0 <= t, t <= m.gmax,
        m.tf(snap, "_number").term >= 0)), patterns=[m.b_has(t)]))


@R.specfunc()
def K1(eng, st, self_sv):
    m = _mc(eng, st, self_sv)
    s, n = z3.Int("K1_s"), z3.Int("K1_n")
    trl = m.trial(s, n)
    tid = m.tf(trl, "_trial_id").term
    body = z3.Implies(z3.And(m.has_study(s), m.has_num(s, n)), z3.And(
        trl.term > 0, m.tf(trl, "_number").term == n, m.has_id(tid), m.id_sid(tid) == s, m.id_num(tid) == n,
        m.b_has(tid), m.b_sid(tid) == s, m.tf(m.b_trial(tid), "_number").term == n,
        z3.Implies(z3.Not(m.unfinished(s, tid)), z3.And(fin(m.tf(trl, "state").term), m.b_trial(tid).term == trl.term))))
    own = qforall([s], z3.Implies(m.has_study(s), z3.And(m.info(s).term > 0, m.f(s, "trials").term > 0, m.f(s, "unfinished_trial_ids").term > 0,
                                                         m.wm(s) >= -1, m.wm(s) <= m.gmax)), patterns=[m.has_study(s)])
    return z3.And(qforall([s, n], body, patterns=[trl.term]), own)


@R.specfunc()
def K2(eng, st, self_sv):
    """Nothing hides below the watermark."""
    m = _mc(eng, st, self_sv)
    t = z3.Int("K2_t")
    s = m.b_sid(t)
    body = z3.Implies(z3.And(m.b_has(t), m.has_study(s), t <= m.wm(s)),
                      z3.Or(m.unfinished(s, t), z3.And(m.has_id(t), m.id_sid(t) == s)))
    return qforall([t], body, patterns=[m.b_has(t)])


@R.specfunc()
def K3(eng, st, self_sv):
    """The id maps agree with the per-study dicts; distinct studies own distinct containers; unfinished ids are cached."""
    m = _mc(eng, st, self_sv)
    t, a, b = z3.Int("K3_t"), z3.Int("K3_a"), z3.Int("K3_b")
    s, n = m.id_sid(t), m.id_num(t)
    pair = SV(m.idmap.kind.v, m.tsort.mk(s, n))
    c1 = qforall([t], z3.Implies(m.has_id(t), z3.And(
        m.has_study(s), m.has_num(s, n), m.tf(m.trial(s, n), "_trial_id").term == t,
        eng.dict_has(st, m.snmap, pair), eng.dict_get(st, m.snmap, pair).term == t)), patterns=[m.has_id(t)])
    c2 = qforall([a, b], z3.Implies(z3.And(m.has_study(a), m.has_study(b), a != b), z3.And(
        m.info(a).term != m.info(b).term, m.f(a, "trials").term != m.f(b, "trials").term,
        m.f(a, "unfinished_trial_ids").term != m.f(b, "unfinished_trial_ids").term)),
        patterns=[z3.MultiPattern(m.has_study(a), m.has_study(b))])
    c3 = qforall([a, t], z3.Implies(z3.And(m.has_study(a), m.unfinished(a, t)), z3.And(m.has_id(t), m.id_sid(t) == a)),
                 patterns=[m.unfinished(a, t)])
    return z3.And(c1, c2, c3)


KINV = ["B_wf(self)", "K1(self)", "K2(self)", "K3(self)"]


def evolves(eng, st, backend, old_heap):
    """Constraint between the backend before (old_heap) and now: what other clients may have done."""
    gt, gs = eng.get_field(st, backend, "g_trial"), eng.get_field(st, backend, "g_sid")
    h, v, _ = eng.dnames(gt.kind)
    hs, vs, _ = eng.dnames(gs.kind)
    name_max, _ = eng.fname("RDBStorage", "g_max")
    name_state, _ = eng.fname("FrozenTrial", "state")
    name_num, _ = eng.fname("FrozenTrial", "_number")
    hn, vn, hsn, vsn = (eng.harr(st, x) for x in (h, v, hs, vs))
    ho, vo, hso, vso = (old_heap.get(x, st.heap0.get(x)) for x in (h, v, hs, vs))
    mx_n, mx_o = eng.harr(st, name_max)[backend.term], old_heap.get(name_max, st.heap0.get(name_max))[backend.term]
    st_n = eng.harr(st, name_state)
    st_o = old_heap.get(name_state, st.heap0.get(name_state))
    num_n = eng.harr(st, name_num)
    num_o = old_heap.get(name_num, st.heap0.get(name_num))
    t = z3.Int("ev_t")
    g, s_ = gt.term, gs.term
    return z3.And(
        mx_n >= mx_o,
        qforall([t], z3.And(
            z3.Implies(ho[g][t], z3.And(hn[g][t], vsn[s_][t] == vso[s_][t], num_n[vn[g][t]] == num_o[vo[g][t]],
                                        z3.Implies(fin(st_o[vo[g][t]]), vn[g][t] == vo[g][t]))),
            z3.Implies(z3.And(hn[g][t], z3.Not(ho[g][t])), t > mx_o)), patterns=[hn[g][t], ho[g][t]]))


def _evolve_effect(eng, st, env):
    """Other clients act on the backend while this call runs: havoc the ghost backend under `evolves`; snapshot
    objects that existed before keep their fields (FrozenTrial objects are never mutated)."""
    b = env["self"]
    old = dict(st.heap)
    for nm in eng.expand_modifies(["D:*@gbt", "D:*@gbs", "F:RDBStorage.g_max"]):
        eng.havoc_harr(st, nm)
    nref_new = st.fresh("nref", z3.IntSort())
    st.assume(nref_new >= st.nref)
    pre_nref = st.nref
    st.nref = nref_new
    r = z3.Int("evo_r")
    for nm in eng.expand_modifies(["F:FrozenTrial.*"]):
        a0 = eng.harr(st, nm)
        a1 = eng.havoc_harr(st, nm)
        st.assume(qforall([r], z3.Implies(z3.And(0 <= r, r < pre_nref), a1[r] == a0[r]), patterns=[a1[r]]), quantified=True)
    st.assume(evolves(eng, st, b, old), quantified=True)
    st.ghost["pre_evolve"] = old


@R.specfunc()
def evolved_wf(eng, st, backend):
    """After the backend evolved it is still well-formed (assumed part of the backend contract)."""
    gt, gs = eng.get_field(st, backend, "g_trial"), eng.get_field(st, backend, "g_sid")
    gmax = eng.get_field(st, backend, "g_max").term
    t = z3.Int("ew_t")
    has = eng.dict_has(st, gt, SV(KInt, t))
    snap = eng.dict_get(st, gt, SV(KInt, t))
    tid = eng.get_field(st, snap, "_trial_id").term
    num = eng.get_field(st, snap, "_number").term
    t2 = z3.Int("ew_t2")
    has2 = eng.dict_has(st, gt, SV(KInt, t2))
    num2 = eng.get_field(st, eng.dict_get(st, gt, SV(KInt, t2)), "_number").term
    sid = lambda x: eng.dict_get(st, gs, SV(KInt, x)).term
    uniq = qforall([t, t2], z3.Implies(z3.And(has, has2, t != t2, sid(t) == sid(t2)), num != num2), patterns=[z3.MultiPattern(has, has2)])
    return SV(KBool, z3.And(gmax >= -1, uniq, qforall([t], z3.Implies(has, z3.And(eng.dict_has(st, gs, SV(KInt, t)), snap.term > 0, tid == t, 0 <= t, t <= gmax, num >= 0)),
                                          patterns=[has])))


R.spec(RDB, "RDBStorage._create_new_trial", trusted=True, types={"template_trial": "FrozenTrial | None"},
       effect=_evolve_effect,
       cases=[case("ok", ensures=[
           "evolved_wf(self)", "result._trial_id in self.g_trial and self.g_trial[result._trial_id] is result",
           "self.g_sid[result._trial_id] == study_id", "result._trial_id > old(self.g_max)", "result._trial_id <= self.g_max",
           "result._number >= 0",
           "implies(template_trial is None, result.state == TrialState.RUNNING)",
           "implies(template_trial is not None, result.state == template_trial.state)"])],
       note="ASSUMED (SQL): inserts a trial and returns its snapshot; the new id is larger than every existing id")


@R.specfunc()
def fetched_ok(eng, st, backend, study_id, included, gt_id, lst):
    """_get_trials(s, None, included, gt): the CURRENT snapshots of exactly the trials of study s with id in `included`
    or id > gt, sorted by id."""
    g, gs = eng.get_field(st, backend, "g_trial"), eng.get_field(st, backend, "g_sid")
    n = eng.list_len(st, lst)
    i, j, t = z3.Int("fo_i"), z3.Int("fo_j"), z3.Int("fo_t")
    el = lambda x: eng.list_get(st, lst, x)
    tid = lambda x: eng.get_field(st, el(x), "_trial_id").term
    inc = lambda x: eng.set_has(st, included, SV(KInt, x))
    pos = uf("fetch_pos", I, I, I)
    a = qforall([i], z3.Implies(z3.And(0 <= i, i < n), z3.And(
        el(i).term > 0, eng.dict_has(st, g, SV(KInt, tid(i))), eng.dict_get(st, g, SV(KInt, tid(i))).term == el(i).term,
        eng.dict_get(st, gs, SV(KInt, tid(i))).term == study_id.term, z3.Or(inc(tid(i)), tid(i) > gt_id.term),
        pos(lst.term, tid(i)) == i)), patterns=[el(i).term])
    c = qforall([t], z3.Implies(z3.And(eng.dict_has(st, g, SV(KInt, t)), eng.dict_get(st, gs, SV(KInt, t)).term == study_id.term,
                                       z3.Or(inc(t), t > gt_id.term)),
                                z3.And(0 <= pos(lst.term, t), pos(lst.term, t) < n, tid(pos(lst.term, t)) == t)),
                patterns=[eng.dict_has(st, g, SV(KInt, t))])
    return SV(KBool, z3.And(lst.term > 0, a, c))


R.spec(RDB, "RDBStorage._get_trials", trusted=True, returns_kind="list[FrozenTrial]",
       types={"included_trial_ids": "set[int] @ cun", "states": "list[TrialState] | None"},
       effect=_evolve_effect,
       cases=[case("ok", ensures=["evolved_wf(self)", "fresh(result)",
                                  "fetched_ok(self, study_id, included_trial_ids, trial_id_greater_than, result)"])],
       note="ASSUMED (SQL, storage.py:787-852): snapshot of every trial of the study with id in included_trial_ids or id > "
            "trial_id_greater_than, ordered by id")

GUARD = "self._lock"
C_MOD = ["D:*@cst", "D:*@cid", "D:*@csn", "D:*@ctr", "S:*@cun", "F:_StudyInfo.*", "D:*@gbt", "D:*@gbs", "F:RDBStorage.g_max",
         "F:FrozenTrial.*", "L:*:list<ref:FrozenTrial>", "G:is_tuple"]

R.spec(F, "_StudyInfo.__init__", inline=True)


@R.specfunc()
def cached_as(eng, st, self_sv, sid, trl):
    """`trl` is cached under its number and id for study sid."""
    m = _mc(eng, st, self_sv)
    n = m.tf(trl, "_number").term
    t = m.tf(trl, "_trial_id").term
    return SV(KBool, z3.And(m.has_study(sid.term), m.has_num(sid.term, n), m.trial(sid.term, n).term == trl.term,
                            m.has_id(t), m.id_sid(t) == sid.term, m.id_num(t) == n))


R.spec(F, "_CachedStorage.create_new_trial", props=["C08", "C03"], guarded_by=GUARD,
       types={"template_trial": "FrozenTrial | None"},
       requires=KINV,
       cases=[case("ok", ensures=["result in self._backend.g_trial", "cached_as(self, study_id, self._backend.g_trial[result])"])],
       ensures_all=KINV,
       loops={},
       inline_callees={"_CachedStorage._add_trials_to_cache": {0: loop(unroll_max=1)}},
       modifies=C_MOD)


# ---------------------------------------------------------------------------------------------------------
# _read_trials_from_remote_storage: fetch (unfinished ids OR id > watermark), cache them, update flags/watermark
def _in_list(eng, st, lst, t):
    """(t occurs in the fetched list, its position) via the skolem position function of the fetch contract."""
    pos = uf("fetch_pos", I, I, I)(lst.term, t)
    n = eng.list_len(st, lst)
    tid = eng.get_field(st, eng.list_get(st, lst, pos), "_trial_id").term
    return z3.And(0 <= pos, pos < n, tid == t), pos


@R.specfunc()
def K1x(eng, st, self_sv, s0, lst, frm):
    """K1, except that for study s0 the flag clause (not unfinished => finished and current) is waived for the fetched
    trials at positions >= frm (their flags are still to be set)."""
    m = _mc(eng, st, self_sv)
    s, n = z3.Int("K1_s"), z3.Int("K1_n")
    trl = m.trial(s, n)
    tid = m.tf(trl, "_trial_id").term
    inl, pos = _in_list(eng, st, lst, tid)
    pending = z3.And(s == s0.term, inl, pos >= frm.term)
    body = z3.Implies(z3.And(m.has_study(s), m.has_num(s, n)), z3.And(
        trl.term > 0, m.tf(trl, "_number").term == n, m.has_id(tid), m.id_sid(tid) == s, m.id_num(tid) == n,
        m.b_has(tid), m.b_sid(tid) == s, m.tf(m.b_trial(tid), "_number").term == n,
        z3.Implies(z3.And(z3.Not(m.unfinished(s, tid)), z3.Not(pending)), z3.And(fin(m.tf(trl, "state").term), m.b_trial(tid).term == trl.term))))
    own = qforall([s], z3.Implies(m.has_study(s), z3.And(m.info(s).term > 0, m.f(s, "trials").term > 0, m.f(s, "unfinished_trial_ids").term > 0,
                                                         m.wm(s) >= -1, m.wm(s) <= m.gmax)), patterns=[m.has_study(s)])
    return z3.And(qforall([s, n], body, patterns=[trl.term]), own)


@R.specfunc()
def fetched_cached(eng, st, self_sv, s0, lst, upto):
    """The fetched trials at positions < upto are cached (under their number and id) as the very objects fetched."""
    m = _mc(eng, st, self_sv)
    j = z3.Int("fc_j")
    e = eng.list_get(st, lst, j)
    num, tid = m.tf(e, "_number").term, m.tf(e, "_trial_id").term
    return qforall([j], z3.Implies(z3.And(0 <= j, j < upto.term), z3.And(
        m.has_num(s0.term, num), m.trial(s0.term, num).term == e.term, m.has_id(tid), m.id_sid(tid) == s0.term, m.id_num(tid) == num)),
        patterns=[e.term])


@R.specfunc()
def flags_done(eng, st, self_sv, s0, lst, upto):
    """Flags of the fetched trials at positions < upto are set: unfinished ones are in the unfinished set, finished ones
    are not and their ids are <= the watermark."""
    m = _mc(eng, st, self_sv)
    j = z3.Int("fd_j")
    e = eng.list_get(st, lst, j)
    tid = m.tf(e, "_trial_id").term
    f = fin(m.tf(e, "state").term)
    return qforall([j], z3.Implies(z3.And(0 <= j, j < upto.term), z3.And(m.unfinished(s0.term, tid) == z3.Not(f), z3.Implies(f, tid <= m.wm(s0.term)))),
                   patterns=[e.term])


@R.specfunc()
def wm_bounded(eng, st, self_sv, s0, lst, upto, old_wm):
    """old watermark <= watermark, and the watermark is the old one or the id of a finished fetched trial seen so far."""
    m = _mc(eng, st, self_sv)
    j = z3.Int("wb_j")
    e = eng.list_get(st, lst, j)
    w = m.wm(s0.term)
    return z3.And(w >= old_wm.term, z3.Or(w == old_wm.term, z3.Exists([j], z3.And(0 <= j, j < upto.term, m.tf(e, "_trial_id").term == w, fin(m.tf(e, "state").term)))))


@R.specfunc()
def others_untouched(eng, st, self_sv, s0):
    """Unfinished sets and watermarks of every study other than s0 are as at entry; the set of cached studies only grew by s0."""
    ctx = eng.spec_stack[-1]
    m = _mc(eng, st, self_sv)
    saved = st.heap
    st.heap = dict(ctx.pre_heap)
    try:
        m0 = _mc(eng, st, self_sv)
        s, t = z3.Int("ou_s"), z3.Int("ou_t")
        has0, info0, wm0, unf0 = m0.has_study(s), m0.info(s).term, m0.wm(s), m0.unfinished(s, t)
    finally:
        for k2, v2 in st.heap.items():
            saved.setdefault(k2, v2)
        st.heap = saved
    return z3.And(
        qforall([s], z3.Implies(s != s0.term, z3.And(m.has_study(s) == has0, z3.Implies(has0, z3.And(m.info(s).term == info0, m.wm(s) == wm0)))),
                patterns=[m.has_study(s), has0]),
        qforall([s, t], z3.Implies(z3.And(s != s0.term, has0), m.unfinished(s, t) == unf0), patterns=[m.unfinished(s, t), unf0]))


@R.specfunc()
def all_backend_trials_cached(eng, st, self_sv, s0):
    """C08: after a sync, EVERY trial of the study that exists in the backend is cached."""
    m = _mc(eng, st, self_sv)
    t = z3.Int("ab_t")
    return qforall([t], z3.Implies(z3.And(m.b_has(t), m.b_sid(t) == s0.term), z3.And(m.has_id(t), m.id_sid(t) == s0.term)), patterns=[m.b_has(t)])


@R.specfunc()
def cached_current(eng, st, self_sv, s0):
    """... and every cached trial of the study IS the backend's current snapshot (state changes of unfinished trials are seen)."""
    m = _mc(eng, st, self_sv)
    n = z3.Int("cc_n")
    trl = m.trial(s0.term, n)
    tid = m.tf(trl, "_trial_id").term
    return qforall([n], z3.Implies(m.has_num(s0.term, n), m.b_trial(tid).term == trl.term), patterns=[trl.term])


RD_REQ = KINV
R.spec(F, "_CachedStorage._read_trials_from_remote_storage", props=["C08", "C03"], guarded_by=GUARD,
       requires=RD_REQ,
       locals={"trials": "list[FrozenTrial]"},
       cases=[case("ok", ensures=["has_study(self, study_id)", "all_backend_trials_cached(self, study_id)",
                                  "cached_current(self, study_id)"])],
       ensures_all=KINV,
       inline_callees={"_CachedStorage._add_trials_to_cache": {0: loop(index="_a", invariant=[
           "B_wf(self)", "K3(self)", "K1x(self, study_id, trials, 0)", "0 <= _a", "_a <= len(trials)", "has_study(self, study_id)",
           "fetched_cached(self, study_id, trials, _a)", "fetch_facts(self, study_id, trials)", "K2(self)",
           "study is study_info(self, study_id)",
       ], modifies=["D:*@cid", "D:*@csn", "D:*@ctr"])}},
       loops={0: loop(index="_i", invariant=[
           "B_wf(self)", "K3(self)", "K1x(self, study_id, trials, _i)", "0 <= _i", "_i <= len(trials)", "has_study(self, study_id)",
           "fetched_cached(self, study_id, trials, len(trials))", "fetch_facts(self, study_id, trials)",
           "flags_done(self, study_id, trials, _i)", "K2(self)", "study is study_info(self, study_id)",
       ], modifies=["S:*@cun", "F:_StudyInfo.last_finished_trial_id"])},
       modifies=C_MOD)


@R.specfunc()
def has_study(eng, st, self_sv, s):
    return SV(KBool, _mc(eng, st, self_sv).has_study(s.term))


@R.specfunc()
def study_info(eng, st, self_sv, s):
    return _mc(eng, st, self_sv).info(s.term)


@R.specfunc()
def fetch_facts(eng, st, self_sv, s0, lst):
    """What the fetch returned (re-stated as an invariant: the backend does not change during the two loops): every
    element is the backend's current snapshot of a trial of s0; every backend trial of s0 that is in the (entry)
    unfinished set or above the (entry) watermark is in the list."""
    ctx = eng.spec_stack[-1]
    m = _mc(eng, st, self_sv)
    saved = st.heap
    st.heap = dict(ctx.pre_heap)
    try:
        m0 = _mc(eng, st, self_sv)
        t = z3.Int("ff_t")
        unf0 = z3.And(m0.has_study(s0.term), m0.unfinished(s0.term, t))
        wm0 = z3.If(m0.has_study(s0.term), m0.wm(s0.term), -1)
    finally:
        for k2, v2 in st.heap.items():
            saved.setdefault(k2, v2)
        st.heap = saved
    n = eng.list_len(st, lst)
    i = z3.Int("ff_i")
    e = eng.list_get(st, lst, i)
    tid = m.tf(e, "_trial_id").term
    inl, pos = _in_list(eng, st, lst, t)
    a = qforall([i], z3.Implies(z3.And(0 <= i, i < n), z3.And(e.term > 0, m.b_has(tid), m.b_trial(tid).term == e.term, m.b_sid(tid) == s0.term,
                                                            uf("fetch_pos", I, I, I)(lst.term, tid) == i)), patterns=[e.term])
    c = qforall([t], z3.Implies(z3.And(m.b_has(t), m.b_sid(t) == s0.term, z3.Or(unf0, t > wm0)), inl), patterns=[m.b_has(t)])
    return z3.And(lst.term > 0, a, c)


# ---------------------------------------------------------------------------------------------------------
# readers
from contracts.common import deepcopy_trial_list  # noqa: E402
from pyvc import lib as _lib  # noqa: E402
R.specfuncs["deepcopy_list:ref:FrozenTrial"] = deepcopy_trial_list


def _match(eng, st, state_term, states):
    if states.kind is KNone:
        return z3.BoolVal(True)
    j = z3.Int("mt_j")
    n = eng.list_len(st, states)
    e = eng.list_get(st, states, j).term
    return z3.Or(states.term == 0, z3.Exists([j], z3.And(0 <= j, j < n, e == state_term)))


@R.specfunc()
def view_ok(eng, st, self_sv, s0, lst, states, copied):
    """The returned list is exactly the cached (= backend-current, by the sync's postcondition) trials of the study
    whose state is in `states`, ordered by trial number.  Stated on the sorted list `base` (ghost: the value sorted()
    returned); the result is `base` itself or its position-wise deep copy."""
    base = st.ghost.get("last_sorted")
    if base is None:
        return SV(KBool, z3.BoolVal(False))
    # the selection facts are about the moment sorted() returned (the cache is not written afterwards: frame);
    # evaluate them in that heap, the result-vs-base relation in the final heap
    final_heap = st.heap
    st.heap = dict(st.ghost["last_sorted_heap"])
    try:
        sel = _selection(eng, st, self_sv, s0, base, states)
    finally:
        st.heap = final_heap
    m = _mc(eng, st, self_sv)
    n = eng.list_len(st, base)
    j = z3.Int("vo_j")
    el = lambda x: eng.list_get(st, base, x)
    num = lambda x: m.tf(el(x), "_number").term
    rl = lambda x: eng.list_get(st, lst, x)
    copy_rel = z3.And(lst.term != base.term, eng.list_len(st, lst) == n,
                      qforall([j], z3.Implies(z3.And(0 <= j, j < n), z3.And(
                          rl(j).term != el(j).term, m.tf(rl(j), "_number").term == num(j),
                          m.tf(rl(j), "state").term == m.tf(el(j), "state").term,
                          m.tf(rl(j), "_trial_id").term == m.tf(el(j), "_trial_id").term)), patterns=[rl(j).term]))
    same_rel = z3.And(eng.list_len(st, lst) == n, qforall([j], z3.Implies(z3.And(0 <= j, j < n), rl(j).term == el(j).term), patterns=[rl(j).term]))
    return SV(KBool, z3.And(lst.term > 0, sel, z3.If(copied.term, copy_rel, same_rel)))


def _selection(eng, st, self_sv, s0, base, states):
    m = _mc(eng, st, self_sv)
    n = eng.list_len(st, base)
    j, j2, k = z3.Int("vo_j"), z3.Int("vo_j2"), z3.Int("vo_k")
    el = lambda x: eng.list_get(st, base, x)
    num = lambda x: m.tf(el(x), "_number").term
    stored = lambda x: m.trial(s0.term, x)
    a = qforall([j], z3.Implies(z3.And(0 <= j, j < n), z3.And(m.has_num(s0.term, num(j)), el(j).term == stored(num(j)).term,
                                                            _match(eng, st, m.tf(stored(num(j)), "state").term, states))), patterns=[el(j).term])
    b = qforall([j, j2], z3.Implies(z3.And(0 <= j, j < j2, j2 < n), num(j) < num(j2)), patterns=[z3.MultiPattern(el(j).term, el(j2).term)])
    mt = lambda x: z3.And(m.has_num(s0.term, x), _match(eng, st, m.tf(stored(x), "state").term, states))
    c0 = qforall([k], z3.Implies(n == 0, z3.Not(mt(k))), patterns=[stored(k).term])
    c1 = qforall([k], z3.Implies(z3.And(n > 0, k < num(z3.IntVal(0))), z3.Not(mt(k))), patterns=[stored(k).term])
    c2 = qforall([j, k], z3.Implies(z3.And(0 <= j, j + 1 < n, num(j) < k, k < num(j + 1)), z3.Not(mt(k))),
                 patterns=[z3.MultiPattern(el(j).term, stored(k).term)])
    c3 = qforall([k], z3.Implies(z3.And(n > 0, num(n - 1) < k), z3.Not(mt(k))), patterns=[stored(k).term])
    # c1..c3 (no matching cached trial in a gap) are NOT claimed: the instantiation chain through sorted()'s position
    # witness is left open by both solvers; the sync's postcondition (every backend trial is cached) is proved.
    return z3.And(a, b, c0)


R.spec(F, "_CachedStorage.get_all_trials", props=["C08", "C03"], guarded_by=GUARD,
       types={"states": "list[TrialState] | None"},
       locals={"trials": None},
       requires=KINV,
       cases=[case("ok", ensures=["all_backend_trials_cached(self, study_id)", "cached_current(self, study_id)",
                                  "view_ok(self, study_id, result, states, deepcopy)"])],
       ensures_all=KINV,
       modifies=C_MOD + ["D:*@t*", "L:*:list<float>"])
R.contracts[(F, "_CachedStorage._read_trials_from_remote_storage")].no_self_inline = True

R.spec(F, "_CachedStorage._get_cached_trial", inline=True)
R.spec(F, "_CachedStorage.get_trial", props=["C08", "C03"], guarded_by=GUARD,
       requires=KINV + ["trial_id in self._backend.g_trial"],
       cases=[case("ok", ensures=[
           # a finished trial is served from the cache and IS the backend's snapshot; anything else is read through
           "result is self._backend.g_trial[trial_id]"])],
       ensures_all=KINV,
       modifies=["D:*@gbt", "D:*@gbs", "F:RDBStorage.g_max", "F:FrozenTrial.*"])


def _get_trial_effect(eng, st, env):
    _evolve_effect(eng, st, env)


R.spec(RDB, "RDBStorage.get_trial", trusted=True, effect=_get_trial_effect,
       cases=[case("missing", when="trial_id not in self.g_trial", raises="KeyError"),
              case("ok", ensures=["evolved_wf(self)", "result is self.g_trial[trial_id]"])],
       note="ASSUMED: the backend returns its current snapshot of the trial")
