#!/usr/bin/env python3
"""Run pytest on the given paths (cwd = repo dir given first) and report baseline-stable tests that no longer pass.
usage: compare_baseline.py <repo_dir> <pytest args...>"""
import json, subprocess, sys, tempfile, os
import xml.etree.ElementTree as ET
repo = sys.argv[1]
args = sys.argv[2:]
stable = set(json.load(open("/root/.vp/BASELINE.json"))["stable_pass"])
fd, xml = tempfile.mkstemp(suffix=".xml")
os.close(fd)
cmd = ["/venv/bin/python", "-m", "pytest", "-q", "-p", "no:cacheprovider", "--timeout=900", "--continue-on-collection-errors", "--junitxml=" + xml] + args
p = subprocess.run(cmd, cwd=repo, capture_output=True, text=True)
print(p.stdout.strip().splitlines()[-1] if p.stdout.strip() else p.stderr[-300:])
seen, bad = set(), []
for tc in ET.parse(xml).getroot().iter("testcase"):
    tid = "%s::%s" % (tc.get("classname"), tc.get("name"))
    seen.add(tid)
    failed = any(ch.tag in ("failure", "error", "skipped") for ch in tc)
    if failed and tid in stable:
        bad.append(tid)
os.unlink(xml)
print("ran %d tests, %d of them baseline-stable; baseline-stable tests not passing: %d" % (len(seen), len(seen & stable), len(bad)))
for b in bad[:40]:
    print("  REGRESSION", b)
