"""Witness for BaseGASampler.get_parent_population:post/ok/ret0 (the parent cache stores storage ids but is read back by
position in the number-ordered trial list): NSGA-II on the SECOND study of a shared in-memory storage, where trial ids
differ from trial numbers."""


def run():
    import warnings
    warnings.simplefilter("ignore")
    import optuna
    optuna.logging.set_verbosity(optuna.logging.ERROR)
    storage = optuna.storages.InMemoryStorage()
    first = optuna.create_study(storage=storage, study_name="other")
    first.optimize(lambda t: t.suggest_float("x", 0, 1), n_trials=7)          # ids 0..6 belong to another study

    def objective(t):
        return t.suggest_float("x", 0, 1), t.suggest_float("y", 0, 1)
    study = optuna.create_study(storage=storage, study_name="ga", directions=["minimize", "minimize"],
                                sampler=optuna.samplers.NSGAIISampler(population_size=4, seed=1))
    observed = "no divergence"
    bad = False
    try:
        study.optimize(objective, n_trials=14)
        # ids != numbers: the cached parent ids index the wrong trials; compare with what the cache stores
        sampler = study.sampler
        attrs = storage.get_study_system_attrs(study._study_id)
        for k, ids in attrs.items():
            if "parent" in k:
                gen = int(k.rsplit(":", 1)[1])
                got = [t._trial_id for t in sampler.get_parent_population(study, gen)]
                if got != list(ids):
                    bad = True
                    observed = "generation %d: cache holds trial ids %s, get_parent_population returned trials with ids %s" % (gen, list(ids), got)
                    break
    except IndexError as e:
        bad = True
        observed = "NSGA-II on the second study of a shared InMemoryStorage raised IndexError (%s) in get_parent_population" % e
    return {"function": "optuna/samplers/_ga/_base.py:BaseGASampler.get_parent_population",
            "steps": ["study 'other' takes trial ids 0..6", "NSGAIISampler(population_size=4) optimises study 'ga' on the same storage (ids 7..)",
                      "generation 1 reads the cached parent ids back as list positions"],
            "observed": observed, "reproduced": bad}
