"""Abstract storage model AS (DESIGN section 4) as the ASSUMED interface contract of BaseStorage,
used when verifying callers (Study, _tell, _optimize, heartbeat, samplers).  Ghost fields live on
the storage object: g_state (trial id -> state of every existing trial) plus a ghost record of the
calls of set_trial_state_values (counter and last arguments).  Two implementations are proved to
satisfy the corresponding clauses (contracts/in_memory.py, contracts/journal*.py); for the others
these contracts are trusted."""
import z3

from pyvc.contracts import Registry, case
from pyvc.kinds import *  # noqa
from pyvc.state import SV

R = Registry()
B = "optuna/storages/_base.py"

import optuna  # noqa: E402  (sys.path already points at $VERIF_REPO)
import optuna.study.study as _study_mod  # noqa: E402
import optuna.trial._trial as _trial_mod  # noqa: E402

R.classes.update({
    "Study": optuna.study.Study, "Trial": optuna.trial.Trial, "FrozenTrial": optuna.trial.FrozenTrial,
    "BaseStorage": optuna.storages.BaseStorage, "BaseSampler": optuna.samplers.BaseSampler,
    "BasePruner": optuna.pruners.BasePruner, "_ThreadLocalStudyAttribute": _study_mod._ThreadLocalStudyAttribute,
    "TrialState": optuna.trial.TrialState, "StudyDirection": optuna.study.StudyDirection,
})
R.val_classes += ["Trial"]

R.schema("BaseStorage", {
    "g_state": "dict[int, TrialState] @ as_state",
    "g_ssv_calls": "int",
    "g_ssv_tid": "int",
    "g_ssv_state": "TrialState",
    "g_ssv_values": "list[float] | None",
})
R.schema("Study", {
    "study_name": "str", "_study_id": "int", "_storage": "BaseStorage", "_directions": "list[StudyDirection]",
    "sampler": "BaseSampler", "pruner": "BasePruner", "_thread_local": "_ThreadLocalStudyAttribute",
    "_stop_flag": "bool",
})
R.schema("_ThreadLocalStudyAttribute", {"in_optimize_loop": "bool", "cached_all_trials": "list[FrozenTrial] | None"})
R.schema("Trial", {"_trial_id": "int", "study": "Study", "storage": "BaseStorage",
                   "_cached_frozen_trial": "FrozenTrial"})
R.schema("FrozenTrial", {
    "_number": "int", "state": "TrialState", "_values": "list[float] | None",
    "_datetime_start": "ref[datetime] | None", "datetime_complete": "ref[datetime] | None",
    "_params": "dict[str, Any] @ tp", "_distributions": "dict[str, BaseDistribution] @ td",
    "_user_attrs": "dict[str, Any] @ tu", "_system_attrs": "dict[str, Any] @ ts",
    "intermediate_values": "dict[int, float] @ ti", "_trial_id": "int",
})
R.immutable |= {"BaseDistribution", "FloatDistribution", "IntDistribution", "CategoricalDistribution",
                "BaseSampler", "BasePruner"}

AS_MOD = ["D:*:dict<int,enum:TrialState>@as_state", "F:BaseStorage.g_ssv_*"]


@R.specfunc()
def finished(eng, st, s):
    return SV(KBool, z3.And(s.term != 0, s.term != 4))


@R.specfunc()
def as_same_except(eng, st, storage, tid):
    """g_state is unchanged except at tid (which still exists)."""
    ctx = eng.spec_stack[-1]
    d = eng.get_field(st, storage, "g_state")
    h, v, n = eng.dnames(d.kind)
    hn, vn = eng.harr(st, h)[d.term], eng.harr(st, v)[d.term]
    ho = ctx.pre_heap.get(h, st.heap0.get(h))[d.term]
    vo = ctx.pre_heap.get(v, st.heap0.get(v))[d.term]
    k = z3.Int("ase_k")
    other = z3.BoolVal(True) if tid.kind is KNone else (k != tid.term)
    return SV(KBool, z3.And(
        qforall([k], z3.And(hn[k] == ho[k], z3.Implies(other, vn[k] == vo[k])), patterns=[hn[k]]),
    ))


@R.specfunc()
def as_unchanged(eng, st, storage):
    """No trial changed state and set_trial_state_values was not called."""
    ctx = eng.spec_stack[-1]
    d = eng.get_field(st, storage, "g_state")
    h, v, n = eng.dnames(d.kind)
    conj = []
    for name in (h, v):
        cur = eng.harr(st, name)
        old = ctx.pre_heap.get(name, st.heap0.get(name))
        conj.append(cur[d.term] == old[d.term])
    name, _ = eng.fname("BaseStorage", "g_ssv_calls")
    conj.append(eng.harr(st, name)[storage.term] == ctx.pre_heap.get(name, st.heap0.get(name))[storage.term])
    return SV(KBool, z3.And(conj))


R.spec(B, "BaseStorage.get_trial", trusted=True, props=[],
       cases=[case("missing", when="trial_id not in self.g_state", raises="KeyError"),
              case("ok", ensures=["result._trial_id == trial_id", "result.state == self.g_state[trial_id]"])],
       note="assumed AS contract: the returned trial carries the stored state")

R.spec(B, "BaseStorage.get_trial_id_from_study_id_trial_number", trusted=True,
       cases=[case("missing", when="nondet()", raises="KeyError"),
              case("ok", ensures=["result in self.g_state"])])

R.spec(B, "BaseStorage.set_trial_state_values", trusted=True,
       types={"values": "list[float] | None"},
       requires=["state != TrialState.WAITING"],
       cases=[
           case("missing", when="trial_id not in self.g_state", raises="KeyError",
                ensures=["as_same_except(self, None)"]),
           case("finished", when="finished(self.g_state[trial_id])", raises="UpdateFinishedTrialError",
                ensures=["as_same_except(self, None)"]),
           case("lost", when="state == TrialState.RUNNING and self.g_state[trial_id] != TrialState.WAITING",
                returns="False", ensures=["as_same_except(self, None)"]),
           case("ok", returns="True", ensures=["self.g_state[trial_id] == state", "as_same_except(self, trial_id)"]),
       ],
       ensures_all=["self.g_ssv_calls == old(self.g_ssv_calls) + 1", "self.g_ssv_tid == trial_id",
                    "self.g_ssv_state == state", "self.g_ssv_values is values"],
       modifies=AS_MOD,
       note="assumed AS contract (proved for InMemoryStorage in contracts/in_memory.py): compare-and-set semantics")

R.spec(B, "BaseStorage.remove_session", trusted=True, cases=[case("ok")])

R.spec("optuna/pruners/__init__.py", "_filter_study", trusted=True,
       cases=[case("ok", ensures=["result._storage is study._storage", "result.sampler is study.sampler",
                                  "result._study_id == study._study_id", "result._directions is study._directions"])],
       note="assumed: the (possibly bracket-filtered) study shares storage, sampler and directions")

R.spec("optuna/samplers/_base.py", "BaseSampler.after_trial", trusted=True,
       types={"values": "list[float] | None"},
       cases=[case("raises", when="nondet()", raises="Exception"), case("ok")],
       note="unknown hook: may raise any Exception; cannot change trial states except through the storage API "
            "(finished trials are frozen by the storage contract)")
R.spec("optuna/samplers/_base.py", "BaseSampler.reseed_rng", trusted=True,
       cases=[case("raises", when="nondet()", raises="Exception"), case("ok")])


# --- ghost bookkeeping for C02: asks, runs, callback invocations --------------------------------
R.schema("BaseStorage", dict(R.schemas["BaseStorage"], g_ask_calls="int", g_last_asked="int", g_runs="int",
                             g_cb_calls="int"))


@R.specfunc()
def as_monotone_except(eng, st, storage, tid):
    """Every trial other than `tid` still exists exactly if it existed, and its state is unchanged or
    went RUNNING -> FAIL (stale-trial sweep)."""
    ctx = eng.spec_stack[-1]
    d = eng.get_field(st, storage, "g_state")
    h, v, n = eng.dnames(d.kind)
    hn, vn = eng.harr(st, h)[d.term], eng.harr(st, v)[d.term]
    ho = ctx.pre_heap.get(h, st.heap0.get(h))[d.term]
    vo = ctx.pre_heap.get(v, st.heap0.get(v))[d.term]
    k = z3.Int("ame_k")
    other = z3.BoolVal(True) if tid.kind is KNone else (k != tid.term)
    return SV(KBool, qforall([k], z3.Implies(other, z3.And(
        hn[k] == ho[k], z3.Or(vn[k] == vo[k], z3.And(vo[k] == 0, vn[k] == 3)))), patterns=[hn[k]]))


@R.specfunc()
def new_trials_finished(eng, st, storage):
    """Every trial that did not exist at entry is finished; trials that existed still exist."""
    ctx = eng.spec_stack[-1]
    d = eng.get_field(st, storage, "g_state")
    h, v, n = eng.dnames(d.kind)
    hn, vn = eng.harr(st, h)[d.term], eng.harr(st, v)[d.term]
    h0 = st.heap0.get(h, ctx.pre_heap.get(h))[d.term]
    k = z3.Int("ntf_k")
    return SV(KBool, qforall([k], z3.And(z3.Implies(h0[k], hn[k]),
                                         z3.Implies(z3.And(hn[k], z3.Not(h0[k])), z3.And(vn[k] != 0, vn[k] != 4))),
                             patterns=[hn[k]]))


ASK_MOD = AS_MOD + ["F:BaseStorage.g_ask_calls", "F:BaseStorage.g_last_asked"]
GHOST_MOD = ASK_MOD + ["F:BaseStorage.g_runs", "F:BaseStorage.g_cb_calls"]

R.spec("optuna/study/study.py", "Study.ask", trusted=True,
       types={"fixed_distributions": "Any"},
       cases=[
           case("raises", when="nondet()", raises="Exception",
                ensures=["self._storage.g_ask_calls == old(self._storage.g_ask_calls)",
                         "as_monotone_except(self._storage, None)"]),
           case("ok", ensures=[
               "self._storage.g_ask_calls == old(self._storage.g_ask_calls) + 1",
               "self._storage.g_last_asked == result._trial_id",
               "result._trial_id in self._storage.g_state",
               "self._storage.g_state[result._trial_id] == TrialState.RUNNING",
               # either a new trial or a claimed WAITING one
               "as_monotone_except(self._storage, result._trial_id)",
               "result.study is self", "result.storage is self._storage",
           ]),
       ],
       modifies=ASK_MOD + ["F:_ThreadLocalStudyAttribute.cached_all_trials"],
       note="assumed: ask returns a RUNNING trial (new, or a claimed WAITING one) and touches no other trial; "
            "an exception raised by sampler.before_trial AFTER the trial was created is outside the claim")

R.spec("optuna/storages/_heartbeat.py", "is_heartbeat_enabled", trusted=True, cases=[case("ok")])
R.spec("optuna/storages/_heartbeat.py", "fail_stale_trials", trusted=True,
       cases=[case("raises", when="nondet()", raises="Exception", ensures=["as_monotone_except(study._storage, None)"]),
              case("ok", ensures=["as_monotone_except(study._storage, None)"])],
       modifies=AS_MOD, note="assumed here, contract proved under C19")
R.spec("optuna/storages/_heartbeat.py", "get_heartbeat_thread", trusted=True,
       returns_kind="ref[BaseHeartbeatThread]", cases=[case("ok")])
R.spec("optuna/study/study.py", "Study._log_completed_trial", trusted=True, cases=[case("ok")],
       note="logging only")


@R.specfunc("__with__:BaseHeartbeatThread")
def _with_heartbeat(eng, st, cm, item, node):
    # start()/join() of the heartbeat thread do not touch trial states; __exit__ returns None
    eng.exec_block(st, node.body)
