"""Contracts for optuna/trial/_trial.py (C10 suggest cases, C04 fixed parameters, C20 ownership of the
trial-local working copy)."""
import z3

from pyvc.contracts import Registry, case, loop, Contract
from pyvc.kinds import *  # noqa
from pyvc.state import SV
from contracts import storage_model

R = Registry()
R.merge(storage_model.R)
T = "optuna/trial/_trial.py"
D_ = "optuna/distributions.py"
S_ = "optuna/samplers/_base.py"
B = storage_model.B

import optuna.distributions as _od  # noqa: E402
R.classes.update({"BaseDistribution": _od.BaseDistribution})
R.schema("Trial", {"_trial_id": "int", "study": "Study", "storage": "BaseStorage",
                   "_cached_frozen_trial": "FrozenTrial",
                   "relative_search_space": "dict[str, BaseDistribution] @ rss",
                   "_relative_params": "dict[str, Any] @ rp | None",
                   "_fixed_params": "Any"})
R.schema("BaseStorage", dict(R.schemas["BaseStorage"], g_stp_calls="int", g_stp_tid="int", g_stp_name="str",
                             g_stp_value="float", g_stp_dist="BaseDistribution | None"))


def _uf_contains(d, x):
    return uf("dist_contains", z3.IntSort(), flt_sort(), z3.BoolSort())(d, x)


@R.specfunc()
def dist_contains(eng, st, d, x):
    return SV(KBool, _uf_contains(d.term, eng.coerce(st, x, KFloat).term))


@R.specfunc()
def dist_compatible(eng, st, a, b):
    return SV(KBool, uf("dist_compatible", z3.IntSort(), z3.IntSort(), z3.BoolSort())(a.term, b.term))


@R.specfunc()
def internal_repr(eng, st, d, x):
    return SV(KFloat, uf("internal_repr", z3.IntSort(), val_sort(), flt_sort())(d.term, eng.coerce(st, x, KVal).term))


@R.specfunc()
def dist_single(eng, st, d):
    return SV(KBool, uf("dist_single", z3.IntSort(), z3.BoolSort())(d.term))


@R.specfunc()
def single_value(eng, st, d):
    return SV(KVal, uf("single_value", z3.IntSort(), val_sort())(d.term))


@R.specfunc()
def fixed_has(eng, st, fp, name):
    d = eng.coerce(st, fp, KDict(KStr, KVal))
    return SV(KBool, eng.dict_has(st, d, name))


@R.specfunc()
def fixed_get(eng, st, fp, name):
    d = eng.coerce(st, fp, KDict(KStr, KVal))
    return eng.dict_get(st, d, name)


@R.specfunc()
def is_vdict(eng, st, v):
    return SV(KBool, val_sort().is_vdict(v.term))


# --- trusted interface contracts (dynamic dispatch over distributions / samplers; storage interface) ----
R.spec(D_, "check_distribution_compatibility", trusted=True,
       cases=[case("incompatible", when="not dist_compatible(dist_old, dist_new)", raises="ValueError"), case("ok")])
R.spec(D_, "BaseDistribution.to_internal_repr", trusted=True, returns_kind="float", types={"param_value_in_external_repr": "Any"},
       cases=[case("bad", when="nondet()", raises="ValueError"), case("ok", returns="internal_repr(self, param_value_in_external_repr)")])
R.spec(D_, "BaseDistribution._contains", trusted=True, returns_kind="bool", types={"param_value_in_internal_repr": "float"},
       cases=[case("ok", returns="dist_contains(self, param_value_in_internal_repr)")])
R.spec(D_, "BaseDistribution.single", trusted=True, returns_kind="bool", cases=[case("ok", returns="dist_single(self)")])
R.spec(D_, "_get_single_value", trusted=True, returns_kind="Any",
       requires=["dist_single(distribution)"],
       cases=[case("ok", returns="single_value(distribution)",
                   ensures=["dist_contains(distribution, internal_repr(distribution, single_value(distribution)))"])],
       note="proved for Int/Float(no step) in contracts/transform.py (single() <=> low == high; value low is contained)")
R.spec(S_, "BaseSampler.sample_independent", trusted=True, returns_kind="Any",
       types={"param_distribution": "BaseDistribution", "trial": "FrozenTrial", "study": "Study"},
       cases=[case("raises", when="nondet()", raises="Exception"),
              case("ok", ensures=["dist_contains(param_distribution, internal_repr(param_distribution, result))"])],
       note="ASSUMED sampler interface contract: an independently sampled value lies in the distribution "
            "(scalar untransform proved in contracts/transform.py; numpy sampling code not covered)")
R.spec(S_, "BaseSampler.before_trial", trusted=True, cases=[case("raises", when="nondet()", raises="Exception"), case("ok")])
R.spec(S_, "BaseSampler.infer_relative_search_space", trusted=True, returns_kind="dict[str, BaseDistribution] @ rss",
       cases=[case("raises", when="nondet()", raises="Exception"), case("ok", ensures=["fresh(result)"])])
R.spec(S_, "BaseSampler.sample_relative", trusted=True, returns_kind="dict[str, Any] @ rp",
       types={"search_space": "dict[str, BaseDistribution] @ rss"},
       cases=[case("raises", when="nondet()", raises="Exception"), case("ok", ensures=["fresh(result)"])])
R.spec(B, "BaseStorage.set_trial_param", trusted=True, types={"distribution": "BaseDistribution"},
       cases=[case("rejected", when="nondet()", raises="Exception", ensures=["self.g_stp_calls == old(self.g_stp_calls)"]),
              case("ok", ensures=["self.g_stp_calls == old(self.g_stp_calls) + 1", "self.g_stp_tid == trial_id",
                                  "self.g_stp_name == param_name", "self.g_stp_value == param_value_internal",
                                  "self.g_stp_dist is distribution"])],
       modifies=["F:BaseStorage.g_stp_*"],
       note="assumed AS contract; ghost record of the call (proved for InMemoryStorage.set_trial_param under C01)")
R.spec(T, "Trial._get_latest_trial", trusted=True,
       cases=[case("ok", ensures=["fresh(result)", "only_fresh_modified()",
                                  "result._params is self._cached_frozen_trial._params",
                                  "result._distributions is self._cached_frozen_trial._distributions",
                                  "result._number == self._cached_frozen_trial._number",
                                  "result._trial_id == self._cached_frozen_trial._trial_id"])],
       modifies=["F:FrozenTrial.*"],
       note="assumed: shallow copy of the working copy (copy.copy shares the params/distributions dicts) with lazy system attrs")

CACHED = "self._cached_frozen_trial"
RELP = "self._relative_params"

R.spec(T, "Trial.relative_params", trusted=False, props=["C10"], inline=True)


@R.specfunc()
def dicts_same_except(eng, st, self_sv, name):
    """Of all params/distributions dicts that existed before the call, only the working copy's own two changed,
    and only at key `name` (C20: nothing else is written by suggest)."""
    ctx = eng.spec_stack[-1]
    cached = eng.get_field(st, self_sv, "_cached_frozen_trial")
    conj = []
    for f in ("_params", "_distributions"):
        d = eng.get_field(st, cached, f)
        h, v, n = eng.dnames(d.kind)
        for nm in (h, v):
            cur = eng.harr(st, nm)
            old = ctx.pre_heap.get(nm, st.heap0.get(nm))
            r = z3.Int("dse_r")
            k = z3.String("dse_k")
            conj.append(qforall([r], z3.Implies(z3.And(0 <= r, r < ctx.pre_nref, r != d.term), cur[r] == old[r]), patterns=[cur[r]]))
            conj.append(qforall([k], z3.Implies(k != name.term, cur[d.term][k] == old[d.term][k]), patterns=[cur[d.term][k]]))
    return SV(KBool, z3.And(conj))


@R.specfunc()
def params_dists_agree(eng, st, self_sv):
    """W4 for the working copy: dom(params) == dom(distributions)."""
    cached = eng.get_field(st, self_sv, "_cached_frozen_trial")
    p, d = eng.get_field(st, cached, "_params"), eng.get_field(st, cached, "_distributions")
    k = z3.String("pda_k")
    ks = SV(KStr, k)
    return SV(KBool, qforall([k], eng.dict_has(st, p, ks) == eng.dict_has(st, d, ks), patterns=[eng.dict_has(st, p, ks), eng.dict_has(st, d, ks)]))


NEW = "name not in old(%s._distributions)" % CACHED
R.spec(T, "Trial._suggest", props=["C10", "C04", "C20"],
       types={"distribution": "BaseDistribution"},
       requires=["is_vdict(self._fixed_params)", "params_dists_agree(self)"],
       cases=[
           case("reuse-incompatible", when="name in %s._distributions and not dist_compatible(%s._distributions[name], distribution)" % (CACHED, CACHED),
                raises="ValueError", ensures=["self.storage.g_stp_calls == old(self.storage.g_stp_calls)"]),
           # asking for the same name again returns the same value and writes nothing
           case("reuse", when="name in %s._distributions" % CACHED,
                returns="old(%s._params[name])" % CACHED,
                ensures=["self.storage.g_stp_calls == old(self.storage.g_stp_calls)"]),
           case("new", any_outcome=True,
                ensures=["dicts_same_except(self, name)"],
                ensures_return=[
                    # enqueued / fixed values win over the sampler, verbatim
                    "implies(fixed_has(self._fixed_params, name), result is fixed_get(self._fixed_params, name))",
                    "implies(not fixed_has(self._fixed_params, name) and dist_single(distribution), result is single_value(distribution))",
                    # every value that does not come from fixed_params lies in the declared domain
                    "implies(not fixed_has(self._fixed_params, name), dist_contains(distribution, internal_repr(distribution, result)))",
                    # the value recorded in the storage is (the internal form of) the value the objective receives
                    "self.storage.g_stp_calls == old(self.storage.g_stp_calls) + 1",
                    "self.storage.g_stp_tid == self._trial_id and self.storage.g_stp_name == name",
                    "self.storage.g_stp_dist is distribution",
                    "self.storage.g_stp_value == internal_repr(distribution, result)",
                    # and it is what a later suggest of the same name returns
                    "name in %s._params and %s._params[name] is result" % (CACHED, CACHED),
                    "name in %s._distributions and %s._distributions[name] is distribution" % (CACHED, CACHED),
                    "params_dists_agree(self)",
                ]),
       ],
       modifies=["F:BaseStorage.g_stp_*", "F:Trial._relative_params", "D:*@tp", "D:*@td", "D:*@rp", "F:FrozenTrial.*"])

R.spec(T, "Trial._is_fixed_param", inline=True, types={"distribution": "BaseDistribution"})
R.spec(T, "Trial._is_relative_param", inline=True, types={"distribution": "BaseDistribution"})

R.spec(T, "Trial.__init__", props=["C20", "C04"],
       types={"study": "Study"},
       cases=[case("any", any_outcome=True, ensures=[], ensures_return=[
           "self._trial_id == trial_id and self.study is study and self.storage is study._storage",
           "%s._trial_id == trial_id" % CACHED,
           # C20: the working copy that suggest/report/set_user_attr mutate is OWNED by the Trial -- it must not be
           # an object (or share a dict with an object) that the storage hands out to other readers
           "fresh(%s)" % CACHED,
           "fresh(%s._params) and fresh(%s._distributions) and fresh(%s._user_attrs) and fresh(%s._system_attrs) "
           "and fresh(%s.intermediate_values)" % ((CACHED,) * 5),
           "self._relative_params is None",
       ])],
       modifies=["F:Trial.*", "F:FrozenTrial.*", "D:*@t*", "D:*@rss", "L:*:list<float>", "D:*:dict<str,val>", "G:is_tuple"])
