"""Witness for F11 (C01): RDBStorage.set_trial_param on a parameter name the trial already has kept the OLD value (the
second INSERT hit the unique constraint and the IntegrityError was swallowed); in-memory and journal storages overwrite."""


def run():
    import warnings
    warnings.simplefilter("ignore")
    import optuna
    from optuna.distributions import FloatDistribution
    from optuna.storages import InMemoryStorage, RDBStorage
    from optuna.study import StudyDirection
    optuna.logging.set_verbosity(optuna.logging.ERROR)
    out = {}
    for name, st in (("in-memory", InMemoryStorage()), ("rdb", RDBStorage("sqlite:///:memory:"))):
        s = st.create_new_study([StudyDirection.MINIMIZE], "w")
        t = st.create_new_trial(s)
        d = FloatDistribution(-1.0, 1.0)
        st.set_trial_param(t, "x", 1.0, d)
        st.set_trial_param(t, "x", -1.0, d)
        out[name] = st.get_trial(t).params["x"]
    bad = out["rdb"] != out["in-memory"]
    return {"function": "optuna/storages/_rdb/storage.py:RDBStorage._set_trial_param_without_commit",
            "steps": ["create study, create trial", "set_trial_param(t, 'x', 1.0, Float(-1,1))", "set_trial_param(t, 'x', -1.0, Float(-1,1))", "get_trial(t).params['x']"],
            "observed": "in-memory: %r, RDB(sqlite): %r" % (out["in-memory"], out["rdb"]), "reproduced": bad}


if __name__ == "__main__":
    print(run())
