"""Front end: reads the real source under $VERIF_REPO on every run.

Code text comes from `ast.parse` of the repository files; names are resolved through the imported
real modules (constants, enum values, classes, MRO).  Nothing is copied by hand.
"""
from __future__ import annotations

import ast
import hashlib
import importlib
import inspect
import os
import sys

REPO = os.environ.get("VERIF_REPO", "/repo")


def setup_repo_path():
    repo = os.path.abspath(os.environ.get("VERIF_REPO", "/repo"))
    if sys.path[0] != repo:
        sys.path.insert(0, repo)
    for m in list(sys.modules):
        if m == "optuna" or m.startswith("optuna."):
            f = getattr(sys.modules[m], "__file__", None)
            if f and not os.path.abspath(f).startswith(repo):
                del sys.modules[m]
    return repo


class FuncInfo:
    def __init__(self, module, qualname, node, file, cls=None):
        self.module = module          # real module object
        self.qualname = qualname
        self.node = node              # ast.FunctionDef
        self.file = file              # path relative to repo
        self.cls = cls                # real class object or None
        self.src = None

    @property
    def key(self):
        return (self.file, self.qualname)

    def __repr__(self):
        return "%s:%s" % (self.file, self.qualname)


class Frontend:
    def __init__(self, repo=None):
        self.repo = os.path.abspath(repo or os.environ.get("VERIF_REPO", "/repo"))
        self._files: dict = {}
        self._funcs: dict = {}

    def relpath(self, path):
        path = os.path.abspath(path)
        if path.startswith(self.repo + os.sep):
            return path[len(self.repo) + 1:]
        return path

    def parse_file(self, rel):
        if rel not in self._files:
            path = os.path.join(self.repo, rel)
            with open(path, "r", encoding="utf-8") as f:
                src = f.read()
            tree = ast.parse(src, filename=path)
            index = {}
            self._index(tree, "", index)
            self._files[rel] = (src, tree, index)
        return self._files[rel]

    def _index(self, node, prefix, index):
        for ch in ast.iter_child_nodes(node):
            if isinstance(ch, (ast.FunctionDef, ast.AsyncFunctionDef)):
                q = prefix + ch.name
                # property setters share the getter's name: keep both under distinct keys
                deco = [ast.unparse(d) for d in ch.decorator_list]
                if any(d.endswith(".setter") for d in deco):
                    index[q + ".setter"] = ch
                elif any("overload" in d for d in deco):
                    pass
                else:
                    index[q] = ch
                self._index(ch, q + ".<locals>.", index)
            elif isinstance(ch, ast.ClassDef):
                index[prefix + ch.name] = ch
                self._index(ch, prefix + ch.name + ".", index)
            elif isinstance(ch, (ast.If, ast.Try, ast.With)):
                self._index(ch, prefix, index)

    def module_of_file(self, rel):
        mod = rel[:-3].replace(os.sep, ".")
        if mod.endswith(".__init__"):
            mod = mod[: -len(".__init__")]
        return importlib.import_module(mod)

    def func(self, rel, qualname) -> FuncInfo:
        k = (rel, qualname)
        if k in self._funcs:
            return self._funcs[k]
        src, tree, index = self.parse_file(rel)
        if qualname not in index:
            raise KeyError("function %s not found in %s" % (qualname, rel))
        node = index[qualname]
        module = self.module_of_file(rel)
        cls = None
        parts = qualname.replace(".setter", "").split(".")
        if len(parts) >= 2 and "<locals>" not in parts:
            obj = module
            try:
                for p in parts[:-1]:
                    obj = getattr(obj, p)
                cls = obj if inspect.isclass(obj) else None
            except AttributeError:
                cls = None
        fi = FuncInfo(module, qualname, node, rel, cls)
        fi.src = ast.get_source_segment(src, node) or ""
        self._funcs[k] = fi
        return fi

    def class_ast(self, cls):
        """AST of a real class defined under the repo (None for library classes)."""
        try:
            path = os.path.abspath(inspect.getsourcefile(cls))
        except (TypeError, OSError):
            return None
        if not path.startswith(self.repo + os.sep):
            return None
        _, _, index = self.parse_file(self.relpath(path))
        node = index.get(cls.__qualname__)
        return node if isinstance(node, ast.ClassDef) else None

    def lemma_func(self, c) -> FuncInfo:
        import importlib
        import textwrap
        params = ", ".join(c.lemma_params)
        src = "def %s(%s):\n%s\n" % (c.qualname.replace("-", "_").replace(".", "_"), params,
                                     textwrap.indent(textwrap.dedent(c.lemma_src).strip("\n"), "    "))
        node = ast.parse(src).body[0]
        module = importlib.import_module(c.lemma_module)
        fi = FuncInfo(module, c.qualname, node, "<lemma>", None)
        fi.src = src
        return fi

    def func_of_object(self, fobj, setter=False) -> FuncInfo | None:
        """Locate the FuncInfo of a real function object (unwrapping decorators)."""
        try:
            f = inspect.unwrap(fobj)
        except Exception:
            f = fobj
        if isinstance(f, (staticmethod, classmethod)):
            f = f.__func__
        code = getattr(f, "__code__", None)
        if code is None:
            return None
        path = os.path.abspath(code.co_filename)
        if not path.startswith(self.repo + os.sep):
            return None
        rel = self.relpath(path)
        q = f.__qualname__ + (".setter" if setter else "")
        try:
            return self.func(rel, q)
        except KeyError:
            return None

    def source_hash(self, fi: FuncInfo) -> str:
        return hashlib.sha256((fi.src or "").encode()).hexdigest()[:16]
