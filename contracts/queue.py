"""Contracts for the trial queue at the Study level (C04): Study._pop_waiting_trial_id claims at most one WAITING trial through
the storage's compare-and-set and returns exactly the id it won."""
import z3

from pyvc.contracts import Registry, case, loop
from pyvc.kinds import *  # noqa
from pyvc.state import SV
from contracts import storage_model

R = Registry()
R.merge(storage_model.R)
SY = "optuna/study/study.py"
I = z3.IntSort()

R.spec("optuna/storages/_base.py", "BaseStorage.get_all_trials", trusted=True, variant="queue",
       types={"states": "Any"}, returns_kind="list[FrozenTrial]",
       cases=[case("missing", when="nondet()", raises="KeyError"),
              case("ok", ensures=["fresh(result)",
                                  "forall(lambda i: implies(0 <= i and i < len(result), result[i] is not None), trigger=result[i])"])],
       note="assumed: returns some list of trial snapshots (which ones is irrelevant here: every claim goes through the storage's "
            "compare-and-set, whose contract decides)")


@R.specfunc()
def claimed_exactly(eng, st, storage, tid):
    """g_state changed at `tid` only: it was WAITING and is RUNNING now."""
    ctx = eng.spec_stack[-1]
    d = eng.get_field(st, storage, "g_state")
    h, v, n = eng.dnames(d.kind)
    hn, vn = eng.harr(st, h)[d.term], eng.harr(st, v)[d.term]
    ho = ctx.pre_heap.get(h, st.heap0.get(h))[d.term]
    vo = ctx.pre_heap.get(v, st.heap0.get(v))[d.term]
    k = z3.Int("ce_k")
    t = sort_of(tid.kind).v(tid.term) if isinstance(tid.kind, KOpt) else tid.term
    return SV(KBool, z3.And(ho[t], hn[t], vo[t] == 4, vn[t] == 0,
                            qforall([k], z3.And(hn[k] == ho[k], z3.Implies(k != t, vn[k] == vo[k])), patterns=[hn[k], vn[k]])))


@R.specfunc()
def states_unchanged(eng, st, storage):
    ctx = eng.spec_stack[-1]
    d = eng.get_field(st, storage, "g_state")
    h, v, n = eng.dnames(d.kind)
    hn, vn = eng.harr(st, h)[d.term], eng.harr(st, v)[d.term]
    ho = ctx.pre_heap.get(h, st.heap0.get(h))[d.term]
    vo = ctx.pre_heap.get(v, st.heap0.get(v))[d.term]
    k = z3.Int("su_k")
    return SV(KBool, qforall([k], z3.And(hn[k] == ho[k], vn[k] == vo[k]), patterns=[hn[k], vn[k]]))


R.spec(SY, "Study._pop_waiting_trial_id", props=["C04"], returns_kind="int | None",
       cases=[case("any", any_outcome=True, ensures_raise=[
           # an exception (KeyError of a deleted study, UpdateFinishedTrialError of a trial finished meanwhile) leaves every
           # trial as it was: a claim that raised did not succeed
           "states_unchanged(self._storage)"],
           ensures_return=[
           # no trial claimed: nothing changed; a trial claimed: exactly that one went WAITING -> RUNNING, by this call
           "implies(result is None, states_unchanged(self._storage))",
           "implies(result is not None, claimed_exactly(self._storage, result))"])],
       loops={0: loop(index="_i", invariant=["0 <= _i", "states_unchanged(self._storage)",
                                             "forall(lambda i: implies(0 <= i and i < len(_seq), _seq[i] is not None), trigger=_seq[i])"],
                      modifies=storage_model.AS_MOD)},
       call_variants={"BaseStorage.get_all_trials": "queue"},
       modifies=storage_model.AS_MOD + ["L:*:list<ref:FrozenTrial>", "G:is_tuple"])


# --- Study.ask (default usage: no fixed distributions): replaces, for that usage, the ASSUMED contract of storage_model ----------
from contracts import trial as _trial  # noqa: E402
R.merge(_trial.R)

R.spec("optuna/storages/_base.py", "BaseStorage.create_new_trial", trusted=True, types={"template_trial": "FrozenTrial | None"},
       returns_kind="int", requires=["template_trial is None"],
       cases=[case("missing", when="nondet()", raises="KeyError", ensures=["states_unchanged(self)"]),
              case("ok", ensures=["created_running(self, result)"])],
       modifies=storage_model.AS_MOD,
       note="assumed AS contract (proved for InMemoryStorage under C01): a new trial id, RUNNING, nothing else changes")


@R.specfunc()
def created_running(eng, st, storage, tid):
    ctx = eng.spec_stack[-1]
    d = eng.get_field(st, storage, "g_state")
    h, v, n = eng.dnames(d.kind)
    hn, vn = eng.harr(st, h)[d.term], eng.harr(st, v)[d.term]
    ho = ctx.pre_heap.get(h, st.heap0.get(h))[d.term]
    vo = ctx.pre_heap.get(v, st.heap0.get(v))[d.term]
    k = z3.Int("cr_k")
    t = tid.term
    return SV(KBool, z3.And(z3.Not(ho[t]), hn[t], vn[t] == 0,
                            qforall([k], z3.Implies(k != t, z3.And(hn[k] == ho[k], vn[k] == vo[k])), patterns=[hn[k], vn[k]])))


@R.specfunc()
def asked_ok(eng, st, self_sv, result):
    """The returned Trial's id names a RUNNING trial that is either new or was WAITING and was claimed by this very call;
    every other trial is exactly as before."""
    storage = eng.get_field(st, self_sv, "_storage")
    tid = eng.get_field(st, result, "_trial_id")
    a = R.specfuncs["created_running"](eng, st, storage, tid).term
    b = R.specfuncs["claimed_exactly"](eng, st, storage, tid).term
    return SV(KBool, z3.Or(a, b))


R.spec(SY, "Study.ask", variant="proved", props=["C04", "C02"], types={"fixed_distributions": "Any"}, returns_kind="Trial",
       requires=["fixed_distributions is None"],
       cases=[case("any", any_outcome=True,
                   ensures_return=["asked_ok(self, result)", "result.study is self and result.storage is self._storage"])],
       call_variants={"BaseStorage.get_all_trials": "queue"},
       loops={0: loop(unroll_max=1)},
       modifies=storage_model.AS_MOD + ["F:_ThreadLocalStudyAttribute.cached_all_trials", "F:Trial.*", "F:FrozenTrial.*", "D:*", "L:*", "G:is_tuple"])


@R.specfunc()
def converted(eng, st, d):
    t = uf("converted_distribution", I, I)(d.term)
    st.assume(z3.And(t > 0, t < st.nref0))
    return SV(KRef("BaseDistribution"), t)


R.spec("optuna/distributions.py", "_convert_old_distribution_to_new_distribution", trusted=True, types={"distribution": "BaseDistribution"},
       returns_kind="BaseDistribution", cases=[case("ok", returns="converted(distribution)")],
       note="deprecated-distribution shim: some distribution, a function of its argument")


# --- C10 at the user-facing API: Trial.suggest_int ------------------------------------------------------------------------------
from contracts import distributions as _dist  # noqa: E402
R.merge(_dist.R)
TT = "optuna/trial/_trial.py"
R.spec(TT, "Trial._check_distribution", trusted=True, types={"distribution": "BaseDistribution"}, cases=[case("ok")], modifies=[],
       note="only warns about inconsistent re-suggestion; no state change")


@R.specfunc()
def int_dispatch(eng, st, d):
    """Dynamic dispatch made explicit for an IntDistribution object d (assumed: this IS what `d._contains(x)` and
    `d.to_internal_repr(v)` evaluate to; both concrete methods are proved against these readings in contracts/distributions.py
    and contracts/transform.py): contains(d, x) for integral x, and internal_repr(d, v) = float(v)."""
    from pyvc import lib
    x = z3.Const("id_x", flt_sort())
    v = z3.Const("id_v", val_sort())
    low, high, step = (eng.get_field(st, d, f).term for f in ("low", "high", "step"))
    r = f_r(x)
    xi = z3.ToInt(r)
    pymod = (xi - low) - z3.If(step > 0, (xi - low) / step, (-(xi - low)) / (-step)) * step
    cont = uf("dist_contains", z3.IntSort(), flt_sort(), z3.BoolSort())(d.term, x)
    ir = uf("internal_repr", z3.IntSort(), val_sort(), flt_sort())(d.term, v)
    return SV(KBool, z3.And(
        qforall([x], z3.Implies(cont, z3.And(f_is_fin(x), z3.ToReal(xi) == r, low <= xi, xi <= high, pymod == 0)), patterns=[cont]),
        qforall([v], ir == lib.val_to_float_term(v), patterns=[ir])))


R.spec(TT, "Trial.suggest_int", props=["C10"], returns_kind="int",
       requires=["is_vdict(self._fixed_params)", "params_dists_agree(self)", "step >= 1", "low <= high", "implies(log, low >= 1 and step == 1)",
                 "name not in self._cached_frozen_trial._distributions", "not fixed_has(self._fixed_params, name)"],
       cases=[case("any", any_outcome=True, ensures_return=[
           # a freshly suggested integer parameter lies in [low, high] and on the step grid
           "low <= result and result <= high and (result - low) % step == 0"])],
       setup=None, locals={"distribution": "IntDistribution"},
       assume_after={"distribution": "int_dispatch(distribution)"},
       modifies=["F:BaseStorage.g_stp_*", "F:Trial._relative_params", "D:*@tp", "D:*@td", "D:*@rp", "F:FrozenTrial.*", "F:IntDistribution.*"])
R.contracts[(TT, "Trial._suggest")].no_self_inline = True        # suggest_int goes through _suggest's CONTRACT


@R.specfunc()
def float_dispatch(eng, st, d):
    """Dispatch made explicit for a FloatDistribution without step: contains(d, x) implies low <= x <= high (the concrete
    method is proved against this reading in contracts/transform.py, variant `nostep`)."""
    x = z3.Const("fd_x", flt_sort())
    low, high = eng.get_field(st, d, "low").term, eng.get_field(st, d, "high").term
    cont = uf("dist_contains", z3.IntSort(), flt_sort(), z3.BoolSort())(d.term, x)
    from pyvc import lib
    v = z3.Const("fd_v", val_sort())
    ir = uf("internal_repr", z3.IntSort(), val_sort(), flt_sort())(d.term, v)
    return SV(KBool, z3.And(qforall([x], z3.Implies(cont, z3.And(f_le(low, x), f_le(x, high))), patterns=[cont]),
                            qforall([v], ir == lib.val_to_float_term(v), patterns=[ir])))


R.spec("optuna/distributions.py", "FloatDistribution.__init__", trusted=True, variant="nostep",
       types={"low": "float", "high": "float", "step": "float | None"},
       requires=["step is None"],
       cases=[case("invalid", when="nondet()", raises="ValueError"),
              case("ok", ensures=["self.low is low and self.high is high and self.step is None and self.log == log"])],
       modifies=["F:FloatDistribution.*"],
       note="assumed here (constructor validation of FloatDistribution; the stepped path is covered by the bounded lattice)")

R.spec(TT, "Trial.suggest_float", props=["C10"], types={"step": "float | None", "low": "float", "high": "float"}, returns_kind="Any",
       requires=["is_vdict(self._fixed_params)", "params_dists_agree(self)", "step is None",
                 "name not in self._cached_frozen_trial._distributions", "not fixed_has(self._fixed_params, name)"],
       cases=[case("any", any_outcome=True, ensures_return=[
           # a freshly suggested float parameter (no step) lies in [low, high]
           "low <= float_of(result) and float_of(result) <= high"])],
       locals={"distribution": "FloatDistribution"},
       assume_after={"distribution": "float_dispatch(distribution)"},
       call_variants={"FloatDistribution.__init__": "nostep"},
       modifies=["F:BaseStorage.g_stp_*", "F:Trial._relative_params", "D:*@tp", "D:*@td", "D:*@rp", "F:FrozenTrial.*", "F:FloatDistribution.*"])


@R.specfunc()
def float_of(eng, st, v):
    from pyvc import lib
    return SV(KFloat, lib.val_to_float_term(eng.coerce(st, v, KVal).term))
