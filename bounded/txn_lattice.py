"""Bounded stand-in (labelled bounded, never counted as proved) for the SQLite half of C05 that no contract reaches: an
interrupted RDBStorage call is all-or-nothing only if ALL rows the call writes are committed by ONE transaction.  SQLAlchemy
engine events (attached from this harness; /repo is not edited) record every INSERT/UPDATE/DELETE and every COMMIT/ROLLBACK
issued during one storage call; the call passes when no COMMIT lies between its first and its last write statement (death of
the worker at any statement boundary then leaves either nothing or everything, by SQLite's transaction atomicity -- assumed).

bound: every mutating BaseStorage method of RDBStorage on a sqlite file database: create_new_study, delete_study (study with
       3 trials), set_study_user_attr / set_study_system_attr (new key, existing key), create_new_trial (plain; from
       templates in every state with 0..3 params, 1..2 values, 0..2 intermediate values, user and system attrs),
       set_trial_param (new, existing), set_trial_state_values (every target state, with/without values),
       set_trial_intermediate_value (new step, existing step, NaN/inf), set_trial_user_attr / set_trial_system_attr
       (new, existing), record_heartbeat (first, repeated)."""
from __future__ import annotations

import datetime
import itertools
import os
import tempfile


def run(pid, tier, seed):
    from pyvc.frontend import setup_repo_path
    setup_repo_path()
    import warnings
    warnings.simplefilter("ignore")
    import optuna
    import sqlalchemy
    from optuna.distributions import CategoricalDistribution, FloatDistribution, IntDistribution
    from optuna.storages import RDBStorage
    from optuna.study import StudyDirection
    from optuna.trial import FrozenTrial, TrialState
    optuna.logging.set_verbosity(optuna.logging.ERROR)
    viol, samples = [], []
    evals, nontrivial = 0, 0
    work = tempfile.mkdtemp(prefix="verif_txn_")
    log = []

    def bad(what, **inp):
        if len(viol) < 6:
            viol.append({"what": what, "input": {k: repr(v) for k, v in inp.items()}})

    try:
        st = RDBStorage("sqlite:///" + os.path.join(work, "t.db"), heartbeat_interval=60)
        eng = st.engine

        def on_exec(conn, cursor, statement, parameters, context, executemany):
            head = statement.lstrip().split(None, 1)[0].upper()
            if head in ("INSERT", "UPDATE", "DELETE"):
                log.append(("write", statement.split("\n")[0][:80]))
        sqlalchemy.event.listen(eng, "before_cursor_execute", on_exec)
        sqlalchemy.event.listen(eng, "commit", lambda conn: log.append(("commit", "")))
        sqlalchemy.event.listen(eng, "rollback", lambda conn: log.append(("rollback", "")))

        def call(label, f, *a, **kw):
            nonlocal evals, nontrivial
            del log[:]
            r = f(*a, **kw)
            evals += 1
            writes = [i for i, e in enumerate(log) if e[0] == "write"]
            if writes:
                nontrivial += 1
                inner = [i for i, e in enumerate(log) if e[0] in ("commit", "rollback") and writes[0] < i < writes[-1]]
                after = [i for i, e in enumerate(log) if e[0] == "commit" and i > writes[-1]]
                if inner:
                    bad("RDBStorage call commits between its first and its last write: death of the worker after that COMMIT leaves the call half applied",
                        call=label, statements=[("%s %s" % e).strip() for e in log])
                elif not after:
                    bad("RDBStorage call returned without committing its writes", call=label, statements=[("%s %s" % e).strip() for e in log])
            return r

        DISTS = {"x": FloatDistribution(-1.0, 1.0), "n": IntDistribution(0, 10), "c": CategoricalDistribution(["a", "b"])}
        INT = {"x": 0.25, "n": 3.0, "c": 1.0}
        now = datetime.datetime(2024, 1, 2, 3, 4, 5)
        s1 = call("create_new_study(1 objective)", st.create_new_study, [StudyDirection.MINIMIZE], "a")
        s2 = call("create_new_study(2 objectives)", st.create_new_study, [StudyDirection.MINIMIZE, StudyDirection.MAXIMIZE], "b")
        for key in ("k", "k"):
            call("set_study_user_attr", st.set_study_user_attr, s1, key, {"v": [1, 2]})
            call("set_study_system_attr", st.set_study_system_attr, s1, key, "w")
        t0 = call("create_new_trial()", st.create_new_trial, s1)
        for state, npar, nobj, niv in itertools.product(list(TrialState), (0, 1, 3), (1, 2), (0, 2)):
            names = sorted(DISTS)[:npar]
            tmpl = FrozenTrial(number=-1, trial_id=-1, state=state, value=None,
                               values=([0.5, float("inf")][:nobj] if state in (TrialState.COMPLETE, TrialState.PRUNED) else None),
                               datetime_start=(None if state == TrialState.WAITING else now),
                               datetime_complete=(now if state.is_finished() else None),
                               params={n: DISTS[n].to_external_repr(INT[n]) for n in names}, distributions={n: DISTS[n] for n in names},
                               user_attrs={"u": 1}, system_attrs={"s": [1]},
                               intermediate_values={i: (float("nan") if i else 0.5) for i in range(niv)})
            call("create_new_trial(template state=%s, %d params, %d values, %d intermediate values)" % (state.name, npar, nobj, niv),
                 st.create_new_trial, s1 if nobj == 1 else s2, template_trial=tmpl)
        for v in (0.25, -1.0):
            call("set_trial_param(%s)" % ("new" if v == 0.25 else "existing"), st.set_trial_param, t0, "x", v, DISTS["x"])
        for step, v in ((0, 0.5), (0, float("inf")), (1, float("nan")), (1, float("-inf"))):
            call("set_trial_intermediate_value(step %d, %r)" % (step, v), st.set_trial_intermediate_value, t0, step, v)
        for key in ("k", "k"):
            call("set_trial_user_attr", st.set_trial_user_attr, t0, key, [1])
            call("set_trial_system_attr", st.set_trial_system_attr, t0, key, {"a": None})
        call("record_heartbeat(first)", st.record_heartbeat, t0)
        call("record_heartbeat(repeated)", st.record_heartbeat, t0)
        for target, with_values in itertools.product((TrialState.RUNNING, TrialState.COMPLETE, TrialState.PRUNED, TrialState.FAIL), (False, True)):
            t = st.create_new_trial(s2)
            if target == TrialState.RUNNING:
                st.set_trial_state_values(t, TrialState.WAITING)
            call("set_trial_state_values(%s, values=%s)" % (target.name, with_values), st.set_trial_state_values, t, target,
                 [1.0, 2.0] if (with_values or target == TrialState.COMPLETE) else None)
        call("delete_study(study with trials)", st.delete_study, s2)
        st.remove_session()
        samples.append({"case": "create_new_trial from a COMPLETE template with 3 params, 2 values, 2 intermediate values: all INSERTs, then one COMMIT"})
    finally:
        import shutil
        shutil.rmtree(work, ignore_errors=True)
    return {"name": "bounded.txn_lattice", "function": "optuna/storages/_rdb/storage.py: every mutating BaseStorage method of RDBStorage (transaction boundaries on sqlite)",
            "bound": __doc__.split("bound:")[1].strip(), "evaluations": evals, "distinct_nontrivial": nontrivial,
            "rule": "every listed call is issued once; non-trivial = the call issued at least one INSERT/UPDATE/DELETE",
            "exhaustive": True, "samples": samples, "violations": viol}
