"""Bounded stand-in (labelled bounded, never counted as proved) for the backends of C01 that no contract reaches (SQLAlchemy
RDB, cached RDB) -- and, as a cross-check of the proofs, the journal file backend: random finite histories of BaseStorage
calls are replayed on the real InMemoryStorage (whose every method is PROVED against the documented contract under C01, so
it serves as the executable form of that contract) and on each other backend; after every call the return value (ids mapped
by creation order), the exception class and the whole readable state must agree.

bound: histories of 45 calls drawn with random.Random(VERIF_SEED + k), k < 50 (quick) / 400 (thorough), over <= 3 studies
       (1 or 2 objectives) and <= 8 trials, calls: create/delete study (explicit names, duplicates included), study
       user/system attrs, create trial (plain, or from a template in any state with params, values, intermediate values
       and attrs, NaN/inf included), set_trial_param (one fixed distribution per parameter name), set_trial_state_values
       (every state, values with +-inf), set_trial_intermediate_value (NaN, +-inf, overwrite of a step), trial attrs,
       lookups by (study, number), unknown ids; backends: RDBStorage(sqlite in memory), _CachedStorage over it,
       JournalStorage over a file.  Not run: gRPC proxy, Redis, MySQL/PostgreSQL."""
from __future__ import annotations

import math
import os
import random
import tempfile


def _norm(x):
    """Comparable form: NaN equal to NaN, tuples as lists."""
    if isinstance(x, bool):
        return repr(x)
    if isinstance(x, int) and abs(x) < 2 ** 53:
        return repr(float(x))                  # "read back equal": 2 == 2.0 (internal repr of a categorical index)
    if isinstance(x, float):
        return "nan" if math.isnan(x) else repr(x)
    if isinstance(x, (list, tuple)):
        return [_norm(v) for v in x]
    if isinstance(x, dict):
        return sorted((repr(k), _norm(v)) for k, v in x.items())
    return repr(x)


def run(pid, tier, seed):
    from pyvc.frontend import setup_repo_path
    setup_repo_path()
    import warnings
    warnings.simplefilter("ignore")
    import optuna
    from optuna.distributions import CategoricalDistribution, FloatDistribution, IntDistribution
    from optuna.storages import InMemoryStorage, JournalStorage, RDBStorage
    from optuna.storages._cached_storage import _CachedStorage
    from optuna.storages.journal import JournalFileBackend
    from optuna.study import StudyDirection
    from optuna.trial import FrozenTrial, TrialState
    import datetime
    optuna.logging.set_verbosity(optuna.logging.ERROR)
    viol, samples = [], []
    evals, nontrivial = 0, 0
    DISTS = {"x": FloatDistribution(-1.0, 1.0), "n": IntDistribution(0, 10), "c": CategoricalDistribution(["a", "b", None]),
             "lr": FloatDistribution(1e-3, 1.0, log=True)}
    INTERNAL = {"x": [-1.0, 0.25, 1.0], "n": [0.0, 3.0, 10.0], "c": [0.0, 1.0, 2.0], "lr": [1e-3, 0.5]}
    ATTRS = [1, "a", [1, 2], {"k": None}, 1.5, None, True]
    VALS = [0.5, -1.0, float("inf"), float("-inf"), 2.0]
    IVS = [0.25, float("inf"), float("-inf"), float("nan"), -3.0]
    STATES = [TrialState.RUNNING, TrialState.COMPLETE, TrialState.PRUNED, TrialState.FAIL, TrialState.WAITING]
    work = tempfile.mkdtemp(prefix="verif_storage_")

    class Box:
        """One backend plus its own id tables (ids differ between backends; positions in creation order do not)."""
        def __init__(self, name, st):
            self.name, self.st, self.studies, self.trials = name, st, [], []
            self.dead_studies, self.dead_trials, self.owner = set(), set(), {}

    def backends(k):
        return [Box("inmem", InMemoryStorage()), Box("rdb", RDBStorage("sqlite:///:memory:")),
                Box("cached-rdb", _CachedStorage(RDBStorage("sqlite:///:memory:"))),
                Box("journal", JournalStorage(JournalFileBackend(os.path.join(work, "h%d.log" % k))))]

    # SQL backends may hand the id of a deleted study/trial to a later one ("an id names exactly one LIVE object"), so a
    # position whose object was deleted is addressed by its old id only while no live object of that backend carries it
    def sid(b, i):
        if not (0 <= i < len(b.studies)):
            return 10 ** 6
        if i in b.dead_studies and any(b.studies[j] == b.studies[i] for j in range(len(b.studies)) if j not in b.dead_studies):
            return 10 ** 6
        return b.studies[i]

    def tid(b, i):
        if not (0 <= i < len(b.trials)):
            return 10 ** 6
        if i in b.dead_trials and any(b.trials[j] == b.trials[i] for j in range(len(b.trials)) if j not in b.dead_trials):
            return 10 ** 6
        return b.trials[i]

    def spos(b, study_id):
        return next((j for j in reversed(range(len(b.studies))) if b.studies[j] == study_id and j not in b.dead_studies), -1)

    def tpos(b, trial_id):
        return next((j for j in reversed(range(len(b.trials))) if b.trials[j] == trial_id and j not in b.dead_trials), -1)

    def view(b):
        out = []
        try:
            studies = sorted(b.st.get_all_studies(), key=lambda s: s.study_name)
        except Exception as e:  # noqa: BLE001
            return "get_all_studies raised %r" % (e,)
        for s in studies:
            trials = b.st.get_all_trials(s._study_id)
            pos = spos(b, s._study_id)
            out.append((s.study_name, pos, [d.name for d in s.directions], _norm(s.user_attrs), _norm(s.system_attrs),
                        b.st.get_n_trials(s._study_id),
                        [(t.number, tpos(b, t._trial_id), t.state.name, _norm(t.values),
                          _norm(t.params), sorted((k, repr(d)) for k, d in t.distributions.items()), _norm(t.intermediate_values),
                          _norm(t.user_attrs), _norm(t.system_attrs), t.datetime_start is None, t.datetime_complete is None)
                         for t in trials]))
        return out

    def gen_op(rng, n_studies, n_trials):
        r = rng.random()
        si = rng.randrange(-1, n_studies + 1) if rng.random() < 0.1 else (rng.randrange(n_studies) if n_studies else 0)
        ti = rng.randrange(-1, n_trials + 1) if rng.random() < 0.1 else (rng.randrange(n_trials) if n_trials else 0)
        if r < 0.07 or n_studies == 0:
            return ("create_study", rng.choice([1, 1, 2]), "s%d" % rng.randrange(4))
        if r < 0.10:
            return ("delete_study", si)
        if r < 0.16:
            return ("study_attr", rng.choice(["user", "system"]), si, rng.choice(["k1", "k2"]), rng.choice(ATTRS))
        if r < 0.30:
            tmpl = None
            if rng.random() < 0.5:
                names = rng.sample(sorted(DISTS), rng.randrange(0, 3))
                tmpl = (rng.choice(STATES), {n: rng.choice(INTERNAL[n]) for n in names}, rng.random() < 0.7,
                        {rng.randrange(3): rng.choice(IVS) for _ in range(rng.randrange(3))},
                        {rng.choice(["u1", "u2"]): rng.choice(ATTRS) for _ in range(rng.randrange(2))},
                        {rng.choice(["q1"]): rng.choice(ATTRS) for _ in range(rng.randrange(2))}, rng.choice(VALS), rng.choice(VALS))
            return ("create_trial", si, tmpl)
        if r < 0.42:
            n = rng.choice(sorted(DISTS))
            return ("param", ti, n, rng.choice(INTERNAL[n]))
        if r < 0.58:
            return ("state", ti, rng.choice(STATES), rng.random() < 0.6, rng.choice(VALS), rng.choice(VALS))
        if r < 0.72:
            return ("iv", ti, rng.randrange(3), rng.choice(IVS))
        if r < 0.82:
            return ("trial_attr", rng.choice(["user", "system"]), ti, rng.choice(["k1", "k2"]), rng.choice(ATTRS))
        if r < 0.88:
            return ("lookup", si, rng.randrange(4))
        if r < 0.92:
            return ("number", ti)
        if r < 0.96:
            return ("get_param", ti, rng.choice(sorted(DISTS)))
        return ("best", si)

    def apply(b, op):
        st = b.st
        k = op[0]
        if k == "create_study":
            s = st.create_new_study([StudyDirection.MINIMIZE, StudyDirection.MAXIMIZE][: op[1]], op[2])
            b.studies.append(s)
            return len(b.studies) - 1
        if k == "delete_study":
            r = st.delete_study(sid(b, op[1]))
            if 0 <= op[1] < len(b.studies):
                b.dead_studies.add(op[1])
                b.dead_trials |= {j for j, o in b.owner.items() if o == op[1]}
            return r
        if k == "study_attr":
            f = st.set_study_user_attr if op[1] == "user" else st.set_study_system_attr
            return f(sid(b, op[2]), op[3], op[4])
        if k == "create_trial":
            tmpl = None
            if op[2] is not None:
                state, params, with_values, ivs, ua, sa, v1, v2 = op[2]
                nobj = len(st.get_study_directions(sid(b, op[1])))
                finished = state.is_finished()
                now = datetime.datetime(2024, 1, 2, 3, 4, 5)
                tmpl = FrozenTrial(number=-1, trial_id=-1, state=state,
                                   value=None, values=([v1, v2][:nobj] if (with_values or state == TrialState.COMPLETE) else None),
                                   datetime_start=(None if state == TrialState.WAITING else now),
                                   datetime_complete=(now if finished else None),
                                   params={n: DISTS[n].to_external_repr(v) for n, v in params.items()},
                                   distributions={n: DISTS[n] for n in params}, user_attrs=dict(ua), system_attrs=dict(sa),
                                   intermediate_values=dict(ivs))
            t = st.create_new_trial(sid(b, op[1]), template_trial=tmpl)
            b.trials.append(t)
            b.owner[len(b.trials) - 1] = op[1]
            return len(b.trials) - 1
        if k == "param":
            return st.set_trial_param(tid(b, op[1]), op[2], op[3], DISTS[op[2]])
        if k == "state":
            t = tid(b, op[1])
            nobj = len(st.get_study_directions(st.get_study_id_from_trial_id(t)))
            values = [op[4], op[5]][:nobj] if (op[3] or op[2] == TrialState.COMPLETE) else None
            return st.set_trial_state_values(t, op[2], values)
        if k == "iv":
            return st.set_trial_intermediate_value(tid(b, op[1]), op[2], op[3])
        if k == "trial_attr":
            f = st.set_trial_user_attr if op[1] == "user" else st.set_trial_system_attr
            return f(tid(b, op[2]), op[3], op[4])
        if k == "lookup":
            t = st.get_trial_id_from_study_id_trial_number(sid(b, op[1]), op[2])
            return tpos(b, t)
        if k == "number":
            return st.get_trial_number_from_id(tid(b, op[1]))
        if k == "get_param":
            return st.get_trial_param(tid(b, op[1]), op[2])
        if k == "best":
            s = sid(b, op[1])
            if len(st.get_study_directions(s)) > 1:
                return "multi-objective: not asked"
            t = st.get_best_trial(s)
            return (tpos(b, t._trial_id), _norm(t.values))
        raise KeyError(k)

    n_hist = 50 if tier == "quick" else 400
    try:
        for k in range(n_hist):
            rng = random.Random(seed * 100003 + k)
            bs = backends(k)
            ref = bs[0]
            hist = []
            dead = set()
            for _step in range(45):
                op = gen_op(rng, len(ref.studies), len(ref.trials))
                already = False
                if op[0] == "param":
                    try:
                        already = op[2] in ref.st.get_trial(tid(ref, op[1])).params
                    except KeyError:
                        already = False
                    if already and rng.random() < 0.8:        # re-setting a stored parameter is kept rare
                        continue
                hist.append(op)
                outs = []
                for b in bs:
                    if b.name in dead:
                        outs.append(None)
                        continue
                    try:
                        outs.append(("ret", _norm(apply(b, op))))
                    except Exception as e:  # noqa: BLE001
                        outs.append(("exc", type(e).__name__))
                evals += 1
                vref = view(ref)
                for b, o in zip(bs[1:], outs[1:]):
                    if b.name in dead:
                        continue
                    nontrivial += 1
                    vb = view(b)
                    if o != outs[0] or vb != vref:
                        dead.add(b.name)                   # one report per backend and history
                        if len(viol) < 6:
                            diff = None
                            if o == outs[0] and isinstance(vb, list) and isinstance(vref, list):
                                diff = next(((x, y) for x, y in zip(vb, vref) if x != y), (len(vb), len(vref)))
                            viol.append({"what": "backend disagrees with the (proved) in-memory storage after a call",
                                         "input": {"backend": repr(b.name), "history_seed": repr(seed * 100003 + k), "call_index": repr(len(hist) - 1),
                                                   "call": repr(op), "call_kind": op[0], "param_already_set": already, "outcome": repr(o), "outcome_in_memory": repr(outs[0]),
                                                   "state_difference": repr(diff)[:1500], "history": repr(hist)[:4000]}})
            for b in bs:
                rm = getattr(b.st, "remove_session", None)
                if rm:
                    rm()
        samples.append({"case": "45 random BaseStorage calls (templates with NaN/inf, deletes, duplicate names, unknown ids): RDB(sqlite), cached RDB "
                                "and journal agree with InMemoryStorage on every return value, exception class and readable state"})
    finally:
        import shutil
        shutil.rmtree(work, ignore_errors=True)
    return {"name": "bounded.storage_lattice", "function": "optuna/storages/_rdb/storage.py, optuna/storages/_cached_storage.py, optuna/storages/journal/_storage.py (all BaseStorage methods)",
            "bound": __doc__.split("bound:")[1].strip(), "evaluations": evals, "distinct_nontrivial": nontrivial,
            "rule": "seeded random histories (not exhaustive); every call is applied to every backend and compared with the in-memory storage",
            "exhaustive": False, "samples": samples, "violations": viol}
