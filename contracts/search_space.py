"""Contracts for optuna/search_space/intersection.py and group_decomposed.py (C17)."""
import z3

from pyvc.contracts import Registry, case, loop
from pyvc.kinds import *  # noqa
from pyvc.state import SV
from contracts import storage_model
from pyvc import lib as _lib

R = Registry()
R.merge(storage_model.R)
IS = "optuna/search_space/intersection.py"
I = z3.IntSort()
S = z3.StringSort()


# distribution equality (BaseDistribution.__eq__: same class and same attribute dict) is an equivalence relation on
# distribution objects; nothing else about it is needed
def _deq(a, b):
    return uf("dist_eq", I, I, z3.BoolSort())(a, b)


def _deq_axioms(st):
    x, y, z = z3.Ints("de_x de_y de_z")
    if not st.ghost.get("deq_axioms"):
        st.ghost["deq_axioms"] = True
        st.assume(z3.And(qforall([x], _deq(x, x), patterns=[_deq(x, x)]),
                         qforall([x, y], _deq(x, y) == _deq(y, x), patterns=[_deq(x, y)]),
                         qforall([x, y, z], z3.Implies(z3.And(_deq(x, y), _deq(y, z)), _deq(x, z)), patterns=[z3.MultiPattern(_deq(x, y), _deq(y, z))])),
                  quantified=True)


@R.specfunc("__eq__:BaseDistribution")
def dist_eq(eng, st, a, b):
    _deq_axioms(st)
    return z3.And(a.term != 0, b.term != 0, _deq(a.term, b.term))


def _dists(eng, st, t):
    return eng.get_field(st, t, "_distributions")


def _state(eng, st, t):
    return eng.get_field(st, t, "state").term


# TrialState: RUNNING=0 COMPLETE=1 PRUNED=2 FAIL=3 WAITING=4
def _contributes(state, include_pruned):
    """Finished trials whose distributions are intersected."""
    return z3.Or(state == 1, z3.And(include_pruned, state == 2))


def _pending(state):
    """Trials that may still finish and contribute later."""
    return z3.Or(state == 0, state == 4)


def _acc(i):
    return uf("accounted", I, z3.BoolSort())(i)


@R.specfunc()
def sorted_numbers(eng, st, trials):
    i, j = z3.Int("sn_i"), z3.Int("sn_j")
    n = eng.list_len(st, trials)
    ti, tj = eng.list_get(st, trials, i), eng.list_get(st, trials, j)
    ni, nj = eng.get_field(st, ti, "_number").term, eng.get_field(st, tj, "_number").term
    return SV(KBool, z3.And(qforall([i, j], z3.Implies(z3.And(0 <= i, i < j, j < n), ni < nj), patterns=[z3.MultiPattern(ti.term, tj.term)]),
                            qforall([i], z3.Implies(z3.And(0 <= i, i < n), z3.And(ni >= 0, ti.term != 0)), patterns=[ti.term])))


def _covers(eng, st, ss, trials, include_pruned, member):
    """ss (a dict, not None) is the intersection of the distributions of the trials selected by member(i, state):
    (a) every entry of ss occurs with an equal distribution in every selected trial;
    (b) a name missing from ss is missing from, or mapped to a different distribution by, some selected trial --
        relative to the distribution of the witness trial cover_w2(name)."""
    n = eng.list_len(st, trials)
    i = z3.Int("cv_i")
    nm = z3.String("cv_name")
    t = eng.list_get(st, trials, i)
    d = _dists(eng, st, t)
    key = SV(KStr, nm)
    sel = z3.And(0 <= i, i < n, member(i, _state(eng, st, t)))
    has_ss, has_t = eng.dict_has(st, ss, key), eng.dict_has(st, d, key)
    a = qforall([i, nm], z3.Implies(z3.And(sel, has_ss), z3.And(has_t, _deq(eng.dict_get(st, d, key).term, eng.dict_get(st, ss, key).term))),
                patterns=[z3.MultiPattern(t.term, has_ss)])
    return a


@R.specfunc()
def ss_sound_acc(eng, st, ss, trials, include_pruned):
    """Every entry of the cached search space agrees with every already-accounted trial."""
    return SV(KBool, _covers(eng, st, ss, trials, include_pruned.term, lambda i, s: _acc(i)))


@R.specfunc()
def ss_sound_all(eng, st, ss, trials, include_pruned):
    """Every entry of the search space occurs, with an equal distribution, in EVERY finished trial of interest."""
    return SV(KBool, _covers(eng, st, ss, trials, include_pruned.term, lambda i, s: _contributes(s, include_pruned.term)))


@R.specfunc()
def acc_ok(eng, st, trials, include_pruned, cached):
    """Ghost set `accounted` (indices into trials): only finished trials of interest; contains every such trial below the
    cursor; and no trial below the cursor is still pending."""
    n = eng.list_len(st, trials)
    i = z3.Int("ao_i")
    t = eng.list_get(st, trials, i)
    s = _state(eng, st, t)
    num = eng.get_field(st, t, "_number").term
    rng = z3.And(0 <= i, i < n)
    return SV(KBool, z3.And(
        qforall([i], z3.Implies(_acc(i), z3.And(rng, _contributes(s, include_pruned.term))), patterns=[_acc(i)]),
        qforall([i], z3.Implies(z3.And(rng, num < cached.term), z3.And(z3.Not(_pending(s)), z3.Implies(_contributes(s, include_pruned.term), _acc(i)))),
                patterns=[t.term])))


@R.specfunc()
def some_acc(eng, st):
    i = z3.Int("sa_i")
    return SV(KBool, z3.Exists([i], _acc(i)))


@R.specfunc()
def some_contributes(eng, st, trials, include_pruned):
    n = eng.list_len(st, trials)
    i = z3.Int("sc_i")
    t = eng.list_get(st, trials, i)
    return SV(KBool, z3.Exists([i], z3.And(0 <= i, i < n, _contributes(_state(eng, st, t), include_pruned.term))))


@R.specfunc()
def cursor_ok(eng, st, trials, cursor):
    """No trial numbered below the cursor is still WAITING or RUNNING (so nothing below it can change the result later)."""
    n = eng.list_len(st, trials)
    i = z3.Int("co_i")
    t = eng.list_get(st, trials, i)
    return SV(KBool, qforall([i], z3.Implies(z3.And(0 <= i, i < n, eng.get_field(st, t, "_number").term < cursor.term),
                                             z3.Not(_pending(_state(eng, st, t)))), patterns=[t.term]))


@R.specfunc()
def subdict_of(eng, st, a, b):
    """Every entry of dict a is an entry (same object) of dict b."""
    nm = z3.String("sd_name")
    key = SV(KStr, nm)
    ha, hb = eng.dict_has(st, a, key), eng.dict_has(st, b, key)
    return SV(KBool, qforall([nm], z3.Implies(ha, z3.And(hb, eng.dict_get(st, a, key).term == eng.dict_get(st, b, key).term)), patterns=[ha]))


R.spec("optuna/trial/_state.py", "TrialState.is_finished", inline=True)
R.spec("optuna/trial/_frozen.py", "FrozenTrial.distributions", inline=True)
R.spec("optuna/trial/_frozen.py", "FrozenTrial.number", inline=True)



def _interesting(state, include_pruned):
    return z3.Or(state == 0, state == 1, state == 4, z3.And(include_pruned, state == 2))


@R.specfunc()
def scan_inv(eng, st, trials, m, nc, ss, old_ss, include_pruned, cached, part=None):
    """Loop invariant of the reverse scan; indices >= m have been visited (none of them triggered the break)."""
    _deq_axioms(st)
    n = eng.list_len(st, trials)
    ip = include_pruned.term
    j = z3.Int("si_j")
    nm = z3.String("si_name")
    t = eng.list_get(st, trials, j)
    s = _state(eng, st, t)
    num = eng.get_field(st, t, "_number").term
    vis = z3.And(m.term <= j, j < n)
    key = SV(KStr, nm)
    d = _dists(eng, st, t)
    ssd = SV(ss.kind.inner, ss.kind.sort.v(ss.term)) if isinstance(ss.kind, KOpt) else ss
    ss_none = eng.is_none(st, ss)
    i3 = z3.Implies(nc.term == -1, qforall([j], z3.Implies(vis, z3.Not(_interesting(s, ip))), patterns=[t.term]))
    i4 = z3.Implies(nc.term != -1, qforall([j], z3.Implies(z3.And(vis, _pending(s)), nc.term <= num), patterns=[t.term]))
    jj = z3.Int("si_jj")
    tj = eng.list_get(st, trials, jj)
    none_iff = ss_none == z3.And(z3.Not(z3.Exists([jj], _acc(jj))),
                                 qforall([j], z3.Implies(vis, z3.Not(_contributes(s, ip))), patterns=[t.term]))
    has_ss, has_t = eng.dict_has(st, ssd, key), eng.dict_has(st, d, key)
    sound = z3.Implies(z3.Not(ss_none), qforall([j, nm], z3.Implies(
        z3.And(0 <= j, j < n, z3.Or(_acc(j), z3.And(vis, _contributes(s, ip))), has_ss),
        z3.And(has_t, _deq(eng.dict_get(st, d, key).term, eng.dict_get(st, ssd, key).term))), patterns=[z3.MultiPattern(t.term, has_ss)]))
    return SV(KBool, {"i3": i3, "i4": i4, "none_iff": none_iff, "sound": sound}[part] if part else z3.And(i3, i4, none_iff, sound))


for _p in ("i3", "i4", "none_iff", "sound"):
    def _mk(_p=_p):
        def f(eng, st, trials, m, nc, ss, old_ss, include_pruned, cached):
            return scan_inv(eng, st, trials, m, nc, ss, old_ss, include_pruned, cached, _p)
        f.__name__ = "scan_" + _p
        return f
    R.specfuncs["scan_" + _p] = _mk()



def _complete(eng, st, ss, trials, selected):
    """A name missing from ss is missing from a selected trial, or two selected trials disagree on its distribution."""
    _deq_axioms(st)
    n = eng.list_len(st, trials)
    a, b = z3.Int("cp_a"), z3.Int("cp_b")
    nm = z3.String("cp_name")
    key = SV(KStr, nm)
    ssd = SV(ss.kind.inner, ss.kind.sort.v(ss.term)) if isinstance(ss.kind, KOpt) else ss
    ta, tb = eng.list_get(st, trials, a), eng.list_get(st, trials, b)
    da, db = _dists(eng, st, ta), _dists(eng, st, tb)
    sel_a = z3.And(0 <= a, a < n, selected(a, _state(eng, st, ta)))
    sel_b = z3.And(0 <= b, b < n, selected(b, _state(eng, st, tb)))
    ha, hb = eng.dict_has(st, da, key), eng.dict_has(st, db, key)
    has_ss = eng.dict_has(st, ssd, key)
    wit = z3.Exists([a, b], z3.And(sel_a, sel_b, z3.Or(z3.Not(ha), z3.And(ha, hb, z3.Not(_deq(eng.dict_get(st, da, key).term, eng.dict_get(st, db, key).term))))))
    return qforall([nm], z3.Implies(z3.Not(has_ss), wit), patterns=[has_ss])


@R.specfunc()
def ss_complete_acc(eng, st, ss, trials, include_pruned):
    return SV(KBool, _complete(eng, st, ss, trials, lambda i, s: _acc(i)))


@R.specfunc()
def ss_complete_all(eng, st, ss, trials, include_pruned):
    return SV(KBool, _complete(eng, st, ss, trials, lambda i, s: _contributes(s, include_pruned.term)))


@R.specfunc()
def scan_complete(eng, st, trials, m, ss, include_pruned):
    n = eng.list_len(st, trials)
    return SV(KBool, z3.Implies(z3.Not(eng.is_none(st, ss)),
                                _complete(eng, st, ss, trials, lambda i, s: z3.Or(_acc(i), z3.And(m.term <= i, i < n, _contributes(s, include_pruned.term))))))


R.spec(IS, "_calculate", props=["C17"],
       types={"trials": "list[FrozenTrial]", "search_space": "dict[str, BaseDistribution] | None"},
       locals={"search_space": "dict[str, BaseDistribution] | None", "states_of_interest": "list[TrialState]"},
       requires=["sorted_numbers(trials)", "cached_trial_number >= -1",
                 "acc_ok(trials, include_pruned, cached_trial_number)",
                 "(search_space is None) == (not some_acc())",
                 "implies(search_space is not None, ss_sound_acc(search_space, trials, include_pruned))",
                 "implies(search_space is not None, ss_complete_acc(search_space, trials, include_pruned))"],
       cases=[case("ok", ensures=[
           # equals the from-scratch intersection (soundness half): None iff no finished trial of interest, otherwise every
           # entry occurs with an equal distribution in EVERY finished trial of interest of the current list
           "(result[0] is None) == (not some_contributes(trials, include_pruned))",
           "implies(result[0] is not None, ss_sound_all(result[0], trials, include_pruned))",
           # ... completeness half: a name that is missing is missing from, or disputed between, finished trials of interest
           "implies(result[0] is not None, ss_complete_all(result[0], trials, include_pruned))",
           # the new cursor never skips a trial that may still finish
           "result[1] >= -1 and cursor_ok(trials, result[1])",
           # once established it never grows
           "implies(old(search_space) is not None, result[0] is not None and subdict_of(result[0], old(search_space)))",
       ])],
       loops={0: loop(index="_i", invariant=[
           "0 <= _i and _i <= len(trials)", "next_cached_trial_number >= -1",
           "scan_i3(trials, len(trials) - _i, next_cached_trial_number, search_space, old(search_space), include_pruned, cached_trial_number)",
           "scan_i4(trials, len(trials) - _i, next_cached_trial_number, search_space, old(search_space), include_pruned, cached_trial_number)",
           "scan_none_iff(trials, len(trials) - _i, next_cached_trial_number, search_space, old(search_space), include_pruned, cached_trial_number)",
           "scan_sound(trials, len(trials) - _i, next_cached_trial_number, search_space, old(search_space), include_pruned, cached_trial_number)",
           "implies(old(search_space) is not None, search_space is not None and subdict_of(search_space, old(search_space)))",
           "only_fresh_modified()",
           "scan_complete(trials, len(trials) - _i, search_space, include_pruned)",
       ], locals={"search_space": "dict[str, BaseDistribution] | None", "next_cached_trial_number": "int"},
           modifies=["D:*:dict<str,ref:BaseDistribution>", "D:*:dict<str,ref:BaseDistribution>@td"])},
       ensures_all=["only_fresh_modified()"],
       modifies=["D:*:dict<str,ref:BaseDistribution>", "D:*:dict<str,ref:BaseDistribution>@td", "L:*:list<enum:TrialState>", "G:is_tuple"])


# --- group decomposition ------------------------------------------------------------------------------------------
GD = "optuna/search_space/group_decomposed.py"
import optuna.search_space.group_decomposed as _gd  # noqa: E402
R.classes.update({"_SearchSpaceGroup": _gd._SearchSpaceGroup, "_GroupDecomposedSearchSpace": _gd._GroupDecomposedSearchSpace})
R.schema("_SearchSpaceGroup", {"_search_spaces": "list[dict[str, BaseDistribution]]"})


def _row(eng, st, d):
    h, _, _ = eng.dnames(d.kind)
    return eng.harr(st, h)[d.term]


def _home_query(st, q, nm):
    f = uf("home_query", I, S, z3.BoolSort())
    if not st.ghost.get("home_query_axiom"):
        st.ghost["home_query_axiom"] = True
        a, b = z3.Int("hq_q"), z3.String("hq_nm")
        st.assume(qforall([a, b], f(a, b), patterns=[f(a, b)]), quantified=True)
    return f(q, nm)


@R.specfunc()
def split_inv(eng, st, groups, nxt, dk, dist, upto, part=None):
    """Loop invariant of add_distributions after `upto` old groups: next_search_spaces holds, for each processed group
    G[q], its part inside the new key set (index 2q) and its part outside (index 2q+1); dist_keys holds the new keys not
    in any processed group."""
    D0 = _row(eng, st, dist)
    p = z3.Int("sp_p")
    nm = z3.String("sp_name")
    key = SV(KStr, nm)
    np_ = eng.list_get(st, nxt, p)
    q = p / 2
    gq = eng.list_get(st, groups, q)
    even = (p % 2) == 0
    has_np, has_gq = eng.dict_has(st, np_, key), eng.dict_has(st, gq, key)
    l2 = qforall([p, nm], z3.Implies(z3.And(0 <= p, p < 2 * upto.term),
                                     has_np == z3.And(has_gq, z3.If(even, D0[nm], z3.Not(D0[nm])))), patterns=[has_np])
    sh, _ = eng.snames(dk.kind)
    dkrow = eng.harr(st, sh)[dk.term]
    qq = z3.Int("sp_q")
    gqq = eng.list_get(st, groups, qq)
    in_earlier = z3.Exists([qq], z3.And(0 <= qq, qq < upto.term, eng.dict_has(st, gqq, key), _home_query(st, qq, nm)))
    l3 = qforall([nm], dkrow[nm] == z3.And(D0[nm], z3.Not(in_earlier)), patterns=[dkrow[nm], D0[nm]])
    ctx = eng.spec_stack[-1]
    nn = z3.And(np_.term != 0, np_.term >= ctx.pre_nref, np_.term < st.nref)     # allocated by this call, before now
    l4 = qforall([p], z3.Implies(z3.And(0 <= p, p < 2 * upto.term), nn), patterns=[np_.term])
    # the same split read from the old group's side (so that a key of an old group finds its new home)
    q2 = z3.Int("sp_q2")
    g2 = eng.list_get(st, groups, q2)
    has_g2 = eng.dict_has(st, g2, key)
    n_in, n_out = eng.list_get(st, nxt, 2 * q2), eng.list_get(st, nxt, 2 * q2 + 1)
    # (home_query is identically true: a trigger term that keeps l2 and l2b from feeding each other new index terms forever)
    l2b = qforall([q2, nm], z3.Implies(z3.And(_home_query(st, q2, nm), 0 <= q2, q2 < upto.term, has_g2),
                                       z3.And(z3.If(D0[nm], eng.dict_has(st, n_in, key), eng.dict_has(st, n_out, key)),
                                              _lib.idx_query(st, 2 * q2), _lib.idx_query(st, 2 * q2 + 1))), patterns=[_home_query(st, q2, nm)])
    l5 = qforall([p, nm], z3.Implies(z3.And(0 <= p, p < 2 * upto.term, has_np), eng.dict_size(st, np_) > 0), patterns=[has_np])
    parts = {"len": eng.list_len(st, nxt) == 2 * upto.term, "l2": l2, "l3": l3, "l4": l4, "l2b": l2b, "l5": l5}
    return SV(KBool, parts[part] if part else z3.And(list(parts.values())))


for _p in ("len", "l2", "l3", "l4", "l2b", "l5"):
    def _mk2(_p=_p):
        def f(eng, st, groups, nxt, dk, dist, upto):
            return split_inv(eng, st, groups, nxt, dk, dist, upto, _p)
        return f
    R.specfuncs["split_" + _p] = _mk2()


@R.specfunc()
def covers(eng, st, groups_new, groups_old, dist, part=None):
    """Union of the new groups == union of the old groups plus the new key set."""
    D0 = _row(eng, st, dist)
    nm = z3.String("cv2_name")
    key = SV(KStr, nm)
    j, q = z3.Int("cv2_j"), z3.Int("cv2_q")
    gj, gq = eng.list_get(st, groups_new, j), eng.list_get(st, groups_old, q)
    in_new = z3.Exists([j], z3.And(0 <= j, j < eng.list_len(st, groups_new), eng.dict_has(st, gj, key)))
    in_old = z3.Exists([q], z3.And(0 <= q, q < eng.list_len(st, groups_old), eng.dict_has(st, gq, key)))
    if part == "sub":
        return SV(KBool, qforall([j, nm], z3.Implies(z3.And(0 <= j, j < eng.list_len(st, groups_new), eng.dict_has(st, gj, key)), z3.Or(in_old, D0[nm])),
                                 patterns=[eng.dict_has(st, gj, key)]))
    if part == "sup_old":
        return SV(KBool, qforall([q, nm], z3.Implies(z3.And(_home_query(st, q, nm), 0 <= q, q < eng.list_len(st, groups_old), eng.dict_has(st, gq, key)), in_new),
                                 patterns=[eng.dict_has(st, gq, key)]))
    if part == "sup_new":
        return SV(KBool, qforall([nm], z3.Implies(D0[nm], in_new), patterns=[D0[nm]]))
    return SV(KBool, z3.ForAll([nm], in_new == z3.Or(in_old, D0[nm])))


for _p in ("sub", "sup_old", "sup_new"):
    def _mk3(_p=_p):
        def f(eng, st, groups_new, groups_old, dist):
            return covers(eng, st, groups_new, groups_old, dist, _p)
        return f
    R.specfuncs["covers_" + _p] = _mk3()


@R.specfunc()
def refines(eng, st, groups_new, groups_old, dist):
    """Every new group lies inside ONE old group and entirely on one side of the new key set, or consists only of keys that are
    new (in the new key set, in no old group).  The witness is named: filter_src(new list, j) is the position of the j-th new
    group in the intermediate list [G0 & D, G0 - D, G1 & D, G1 - D, ..., D - all]."""
    D0 = _row(eng, st, dist)
    m = eng.list_len(st, groups_old)
    j, q = z3.Int("rf_j"), z3.Int("rf_q")
    nm = z3.String("rf_name")
    key = SV(KStr, nm)
    gj = eng.list_get(st, groups_new, j)
    fs = _lib.filter_src(groups_new.term, j)
    gsrc = eng.list_get(st, groups_old, fs / 2)
    gq = eng.list_get(st, groups_old, q)
    has_j = eng.dict_has(st, gj, key)
    return SV(KBool, qforall([j, nm], z3.Implies(z3.And(0 <= j, j < eng.list_len(st, groups_new), has_j), z3.And(
        0 <= fs, fs <= 2 * m,
        z3.Implies(fs < 2 * m, z3.And(eng.dict_has(st, gsrc, key), D0[nm] == ((fs % 2) == 0))),
        z3.Implies(fs == 2 * m, z3.And(D0[nm], qforall([q], z3.Implies(z3.And(0 <= q, q < m), z3.Not(eng.dict_has(st, gq, key))),
                                                       patterns=[eng.dict_has(st, gq, key)]))))), patterns=[has_j]))


@R.specfunc()
def old_containers_unchanged(eng, st):
    """Every list/dict/set object allocated before the call keeps its contents (only the field self._search_spaces is
    re-pointed, to a fresh list)."""
    ctx = eng.spec_stack[-1]
    conj = []
    r = z3.Int("ocu_r")
    for name, arr in st.heap.items():
        a0 = ctx.pre_heap.get(name)
        if a0 is None or z3.eq(a0, arr) or name[:2] not in ("L:", "D:", "S:"):
            continue
        conj.append(qforall([r], z3.Implies(z3.And(0 <= r, r < ctx.pre_nref), arr[r] == a0[r]), patterns=[arr[r], a0[r]]))
    return SV(KBool, z3.And(conj) if conj else z3.BoolVal(True))


@R.specfunc()
def groups_wf(eng, st, groups):
    """Groups are dict objects (non-None), non-empty and pairwise disjoint."""
    n = eng.list_len(st, groups)
    a, b = z3.Int("gw_a"), z3.Int("gw_b")
    nm = z3.String("gw_name")
    key = SV(KStr, nm)
    ga, gb = eng.list_get(st, groups, a), eng.list_get(st, groups, b)
    return SV(KBool, z3.And(
        qforall([a], z3.Implies(z3.And(0 <= a, a < n), z3.And(ga.term != 0, eng.dict_size(st, ga) > 0)), patterns=[ga.term]),
        qforall([a, b, nm], z3.Implies(z3.And(0 <= a, a < b, b < n), z3.Not(z3.And(eng.dict_has(st, ga, key), eng.dict_has(st, gb, key)))),
                patterns=[z3.MultiPattern(eng.dict_has(st, ga, key), eng.dict_has(st, gb, key))])))


R.spec(GD, "_SearchSpaceGroup.add_distributions", props=["C17"],
       types={"distributions": "dict[str, BaseDistribution] @ td"},
       locals={"next_search_spaces": "list[dict[str, BaseDistribution]]", "dist_keys": "set[str]", "keys": "set[str]"},
       requires=["groups_wf(self._search_spaces)"],
       cases=[case("ok", ensures=[
           "covers_sub(self._search_spaces, old(self._search_spaces), distributions)",
           "covers_sup_old(self._search_spaces, old(self._search_spaces), distributions)",
           "covers_sup_new(self._search_spaces, old(self._search_spaces), distributions)",
           "fresh(self._search_spaces)",
           # the new groups are again non-empty and pairwise disjoint: a partition of the keys seen so far
           "groups_wf(self._search_spaces)",
           # refinement: a set of names that was a union of old groups is a union of new groups, and so is the new key set
           "refines(self._search_spaces, old(self._search_spaces), distributions)",
       ])],
       ensures_all=["old_containers_unchanged()"],
       loops={0: loop(index="_i", invariant=[
           "0 <= _i and _i <= len(old(self._search_spaces))", "self._search_spaces is old(self._search_spaces)",
           "fresh(next_search_spaces) and fresh(dist_keys)",
           "split_len(old(self._search_spaces), next_search_spaces, dist_keys, distributions, _i)",
           "split_l2(old(self._search_spaces), next_search_spaces, dist_keys, distributions, _i)",
           "split_l3(old(self._search_spaces), next_search_spaces, dist_keys, distributions, _i)",
           "split_l4(old(self._search_spaces), next_search_spaces, dist_keys, distributions, _i)",
           "split_l2b(old(self._search_spaces), next_search_spaces, dist_keys, distributions, _i)",
           "split_l5(old(self._search_spaces), next_search_spaces, dist_keys, distributions, _i)",
           "only_fresh_modified()",
       ], locals={"next_search_spaces": "list[dict[str, BaseDistribution]]", "dist_keys": "set[str]", "keys": "set[str]"},
           modifies=["S:*:set<str>", "L:*:list<dict<str,ref:BaseDistribution>>", "D:*:dict<str,ref:BaseDistribution>", "G:is_tuple"])},
       modifies=["S:*:set<str>", "L:*:list<dict<str,ref:BaseDistribution>>", "D:*:dict<str,ref:BaseDistribution>", "G:is_tuple",
                 "F:_SearchSpaceGroup._search_spaces"])


def deepcopy_group_list(eng, st, v, node=None):
    """copy.deepcopy(list[dict[str, BaseDistribution]]): a fresh list of fresh, pairwise distinct dicts with the same keys
    and the same (immutable, shared) distribution objects; nothing allocated before changes."""
    n = eng.list_len(st, v)
    old_nref = st.nref
    out = eng.new_list(st, KList(v.kind.elem, ""), n)
    new_nref = st.fresh("nref", z3.IntSort())
    st.assume(new_nref >= st.nref)
    st.nref = new_nref
    cp = st.fresh("dcg", z3.ArraySort(z3.IntSort(), z3.IntSort()))
    inv = st.fresh("dcg_inv", z3.ArraySort(z3.IntSort(), z3.IntSort()))
    i, r = z3.Int("dcg_i"), z3.Int("dcg_r")
    _, e_src = eng.lnames(v.kind)
    src = eng.harr(st, e_src)[v.term]
    _, e_dst = eng.lnames(out.kind)
    st.heap[e_dst] = z3.Store(eng.harr(st, e_dst), out.term, cp)
    inr = z3.And(0 <= i, i < n)
    names = eng.dnames(v.kind.elem)
    olds = [eng.harr(st, nm) for nm in names]
    news = [eng.havoc_harr(st, nm) for nm in names]
    for o, nw in zip(olds, news):
        st.assume(qforall([r], z3.Implies(z3.And(0 <= r, r <= old_nref), nw[r] == o[r]), patterns=[nw[r], o[r]]), quantified=True)
    st.assume(qforall([i], z3.Implies(inr, z3.And(cp[i] > old_nref, cp[i] < new_nref, inv[cp[i]] == i,
                                                  z3.And([nw[cp[i]] == o[src[i]] for o, nw in zip(olds, news)]))), patterns=[cp[i], src[i]]), quantified=True)
    eng.set_is_tuple(st, out, False)
    return out


R.specfuncs["deepcopy_list:dict<str,ref:BaseDistribution>"] = deepcopy_group_list

from contracts import study as _study  # noqa: E402  (abstract storage: BaseStorage.get_all_trials, as_trial)
R.merge(_study.R)
R.schema("_GroupDecomposedSearchSpace", {"_search_space": "_SearchSpaceGroup", "_study_id": "int | None", "_include_pruned": "bool"})


@R.specfunc()
def all_covered(eng, st, self_sv, study, group):
    """Every key of every current trial of interest (COMPLETE, and PRUNED if requested) occurs in some group."""
    storage = eng.get_field(st, study, "_storage")
    sid = eng.get_field(st, study, "_study_id")
    ip = eng.get_field(st, self_sv, "_include_pruned").term
    groups = eng.get_field(st, group, "_search_spaces")
    t = z3.Int("ac_t")
    tv = SV(KRef("FrozenTrial"), t)
    nm = z3.String("ac_name")
    key = SV(KStr, nm)
    j = z3.Int("ac_j")
    gj = eng.list_get(st, groups, j)
    s = eng.get_field(st, tv, "state").term
    has_t = eng.dict_has(st, _dists(eng, st, tv), key)
    in_groups = z3.Exists([j], z3.And(0 <= j, j < eng.list_len(st, groups), eng.dict_has(st, gj, key)))
    return SV(KBool, qforall([t, nm], z3.Implies(z3.And(_study._as_trial(storage.term, sid.term, t), _contributes(s, ip), has_t), in_groups),
                             patterns=[z3.MultiPattern(_study._as_trial(storage.term, sid.term, t), has_t)]))


@R.specfunc()
def covered_upto(eng, st, trials, upto, groups):
    """Keys of the first `upto` listed trials occur in some group."""
    i = z3.Int("cu_i")
    nm = z3.String("cu_name")
    key = SV(KStr, nm)
    j = z3.Int("cu_j")
    t = eng.list_get(st, trials, i)
    gj = eng.list_get(st, groups, j)
    has_t = eng.dict_has(st, _dists(eng, st, t), key)
    in_groups = z3.Exists([j], z3.And(0 <= j, j < eng.list_len(st, groups), eng.dict_has(st, gj, key)))
    return SV(KBool, qforall([i, nm], z3.Implies(z3.And(0 <= i, i < upto.term, has_t), in_groups), patterns=[has_t]))


def _union_body(eng, st, t, groups, extra):
    """A group that shares one name with the trial's parameter set lies entirely inside it."""
    j = z3.Int("ub_j")
    n1, n2 = z3.String("ub_n1"), z3.String("ub_n2")
    k1, k2 = SV(KStr, n1), SV(KStr, n2)
    gj = eng.list_get(st, groups, j)
    d = _dists(eng, st, t)
    h1, h2 = eng.dict_has(st, gj, k1), eng.dict_has(st, gj, k2)
    return [j, n1, n2], z3.Implies(z3.And(extra, 0 <= j, j < eng.list_len(st, groups), h1, h2, eng.dict_has(st, d, k1)), eng.dict_has(st, d, k2)), \
        z3.MultiPattern(h1, h2, t.term)


@R.specfunc()
def unions_upto(eng, st, trials, upto, groups):
    """The parameter set of each of the first `upto` listed trials is a union of groups."""
    i = z3.Int("uu_i")
    t = eng.list_get(st, trials, i)
    vs, body, pat = _union_body(eng, st, t, groups, z3.And(0 <= i, i < upto.term))
    return SV(KBool, qforall([i] + vs, body, patterns=[pat]))


@R.specfunc()
def all_unions(eng, st, self_sv, study, group):
    """The parameter set of every current trial of interest is a union of groups."""
    storage = eng.get_field(st, study, "_storage")
    sid = eng.get_field(st, study, "_study_id")
    ip = eng.get_field(st, self_sv, "_include_pruned").term
    groups = eng.get_field(st, group, "_search_spaces")
    t = z3.Int("au_t")
    tv = SV(KRef("FrozenTrial"), t)
    s = eng.get_field(st, tv, "state").term
    vs, body, pat = _union_body(eng, st, tv, groups, z3.And(_study._as_trial(storage.term, sid.term, t), _contributes(s, ip)))
    return SV(KBool, qforall([t] + vs, body, patterns=[pat]))


R.spec(GD, "_GroupDecomposedSearchSpace.calculate", props=["C17"], types={"study": "Study"},
       requires=["groups_wf(self._search_space._search_spaces)"],
       cases=[case("other-study", when="self._study_id is not None and self._study_id != study._study_id", raises="ValueError"),
              case("ok", any_outcome=True, ensures_return=[
                  "fresh(result) and fresh(result._search_spaces)",
                  # the returned (copied) groups cover the parameters of every current trial of interest
                  "all_covered(self, study, result)", "all_covered(self, study, self._search_space)",
                  # ... and every such trial's parameter set is a union of groups
                  "all_unions(self, study, self._search_space)", "all_unions(self, study, result)"])],
       loops={0: loop(index="_i", invariant=[
           "0 <= _i", "groups_wf(self._search_space._search_spaces)", "self._search_space is old(self._search_space)",
           "covered_upto(_seq, _i, self._search_space._search_spaces)", "old_containers_unchanged()",
           "unions_upto(_seq, _i, self._search_space._search_spaces)",
       ], modifies=["S:*:set<str>", "L:*:list<dict<str,ref:BaseDistribution>>", "D:*:dict<str,ref:BaseDistribution>", "G:is_tuple",
                    "F:_SearchSpaceGroup._search_spaces"])},
       modifies=["S:*:set<str>", "L:*", "D:*:dict<str,ref:BaseDistribution>", "G:is_tuple",
                 "F:_SearchSpaceGroup._search_spaces", "F:_GroupDecomposedSearchSpace._study_id"])


# --- IntersectionSearchSpace.calculate: the class keeps the ghost invariant of _calculate across calls ---------------------------
import optuna.search_space.intersection as _is  # noqa: E402
R.classes.update({"IntersectionSearchSpace": _is.IntersectionSearchSpace})
R.schema("IntersectionSearchSpace", {"_cached_trial_number": "int", "_search_space": "dict[str, BaseDistribution] | None",
                                     "_study_id": "int | None", "_include_pruned": "bool"})


@R.specfunc()
def study_trials(eng, st, study):
    """Ghost: the list Study.get_trials(deepcopy=False) returns now (all trials of the study, ordered by number)."""
    return SV(KList(KRef("FrozenTrial")), uf("study_trials", I, I)(study.term))


R.spec("optuna/study/study.py", "Study.get_trials", trusted=True, variant="all", returns_kind="list[FrozenTrial]",
       types={"states": "list[TrialState] | None"},
       cases=[case("ok", ensures=["result is study_trials(self)", "sorted_numbers(result)"])],
       note="assumed (C01): get_trials(deepcopy=False) lists the study's trials ordered by number")

R.spec(IS, "IntersectionSearchSpace.calculate", props=["C17"], types={"study": "Study"}, returns_kind="dict[str, BaseDistribution]",
       requires=["self._cached_trial_number >= -1", "sorted_numbers(study_trials(study))",
                 # the ghost invariant the previous call established, read against the study's CURRENT trials (history
                 # assumption: finished trials never change, so the accounted set is still a set of finished trials)
                 "acc_ok(study_trials(study), self._include_pruned, self._cached_trial_number)",
                 "(self._search_space is None) == (not some_acc())",
                 "implies(self._search_space is not None, ss_sound_acc(self._search_space, study_trials(study), self._include_pruned))",
                 "implies(self._search_space is not None, ss_complete_acc(self._search_space, study_trials(study), self._include_pruned))"],
       cases=[case("other-study", when="self._study_id is not None and self._study_id != study._study_id", raises="ValueError"),
              case("ok", ensures=[
                  "fresh(result)",
                  # what is returned is the from-scratch intersection over the study's current trials ...
                  "ss_sound_all(result, study_trials(study), self._include_pruned)",
                  "implies(some_contributes(study_trials(study), self._include_pruned), ss_complete_all(result, study_trials(study), self._include_pruned))",
                  "implies(not some_contributes(study_trials(study), self._include_pruned), len(result) == 0)",
                  # ... and the object again satisfies the invariant, with every finished trial of interest accounted for
                  "self._cached_trial_number >= -1 and cursor_ok(study_trials(study), self._cached_trial_number)",
                  "(self._search_space is None) == (not some_contributes(study_trials(study), self._include_pruned))",
                  "implies(self._search_space is not None, ss_sound_all(self._search_space, study_trials(study), self._include_pruned))",
              ])],
       call_variants={"Study.get_trials": "all"},
       modifies=["D:*:dict<str,ref:BaseDistribution>", "D:*:dict<str,ref:BaseDistribution>@td", "L:*:list<enum:TrialState>", "G:is_tuple",
                 "F:IntersectionSearchSpace._search_space", "F:IntersectionSearchSpace._cached_trial_number",
                 "F:IntersectionSearchSpace._study_id", "L:*:list<ref:FrozenTrial>"])
