"""Contract language (sidecar contracts; /repo is never annotated).

A clause is either a *spec expression text* (a Python expression evaluated symbolically by the same
expression translator that executes the code, extended with old(), result, implies(), forall(),
exists() and registered spec functions) or a Python callable `f(cx) -> z3 Bool` for clauses that
need direct access to heap arrays (quantified representation invariants).
"""
from __future__ import annotations

OTHERWISE = None


class Case:
    def __init__(self, name, when=OTHERWISE, returns=None, raises=None, ensures=(), returns_pred=None, any_outcome=False, ensures_return=(),
                 ensures_raise=()):
        self.name = name
        self.when = when            # clause over the PRE state (None = otherwise)
        self.returns = returns      # spec text: result == <returns>  (None: any value) -- normal return
        self.raises = raises        # exception class name (str) -- exceptional exit
        self.returns_pred = returns_pred
        self.ensures = list(ensures)
        self.any_outcome = any_outcome   # the case allows a normal return as well as any exception
        self.ensures_return = list(ensures_return)   # clauses that apply to normal returns only
        self.ensures_raise = list(ensures_raise)     # clauses that apply to exceptional exits only (any_outcome cases)


def case(name, when=OTHERWISE, returns=None, raises=None, ensures=(), returns_pred=None, any_outcome=False,
         ensures_return=(), ensures_raise=()):
    return Case(name, when, returns, raises, ensures, returns_pred, any_outcome, ensures_return, ensures_raise)


class LoopSpec:
    def __init__(self, invariant=(), index=None, modifies=(), locals_=None, decreases=None, unroll=False, unroll_max=0):
        self.invariant = list(invariant)
        self.index = index
        self.modifies = list(modifies)
        self.locals = dict(locals_ or {})
        self.decreases = decreases
        self.unroll = unroll
        self.unroll_max = unroll_max   # execute at most k iterations concretely; obligation: the sequence has <= k items


def loop(invariant=(), index=None, modifies=(), locals=None, decreases=None, unroll=False, unroll_max=0):
    return LoopSpec(invariant, index, modifies, locals, decreases, unroll, unroll_max)


class Contract:
    def __init__(self, file, qualname, *, types=None, requires=(), cases=None, ensures_all=(),
                 modifies=(), loops=None, inline=False, guarded_by=None, returns_kind=None,
                 ghost=None, props=(), pure=False, locals=None, trusted=False, note="",
                 allow_raise=(), fresh_result=False, setup=None, verify=True, assume_after=None, no_self_inline=False, variant=None, call_variants=None,
                 lemma_src=None, lemma_module=None, inline_callees=None, effect=None):
        self.file = file
        self.qualname = qualname
        self.types = dict(types or {})
        self.requires = list(requires)
        self.cases = list(cases) if cases is not None else [Case("normal")]
        self.ensures_all = list(ensures_all)
        self.modifies = list(modifies)      # heap array names / prefixes ending in '*'
        self.loops = dict(loops or {})
        self.inline = inline
        self.guarded_by = guarded_by        # e.g. "self._lock": every guarded access must hold it
        self.returns_kind = returns_kind    # type string for the result
        self.ghost = dict(ghost or {})
        self.props = list(props)            # property ids this contract serves
        self.pure = pure
        self.locals = dict(locals or {})
        self.trusted = trusted              # assumed, not verified (listed in evidence)
        self.note = note
        self.allow_raise = list(allow_raise)
        self.fresh_result = fresh_result
        self.setup = setup                  # callable(cx): extra symbolic setup before requires
        self.verify = verify
        self.no_self_inline = no_self_inline
        self.variant = variant            # several contracts for one function (e.g. per dispatch class)
        self.call_variants = dict(call_variants or {})     # for callers: which contract variant of a callee a call goes through
        self.lemma_src = lemma_src        # a lemma: a small program over contracts (asserts are obligations)
        self.lemma_module = lemma_module
        # {callee qualname: {loop ordinal: LoopSpec}}: callees inlined (mechanically, from their real source) at this
        # function's call sites instead of being replaced by their contracts, with call-site specific loop specs
        self.inline_callees = dict(inline_callees or {})
        self.effect = effect     # trusted contracts only: callable(eng, st, env) updating ghost (non-heap) state at call sites
        # {local variable: clause}: ASSUMED right after each assignment to that local (listed as an
        # assumption in evidence), e.g. 'a fresh uuid never collides with an existing study name'
        self.assume_after = dict(assume_after or {})

    @property
    def key(self):
        return (self.file, self.qualname + ("#" + self.variant if self.variant else ""))


class Registry:
    def __init__(self):
        self.contracts: dict = {}
        self.schemas: dict = {}        # class name -> {field: type string}
        self.specfuncs: dict = {}      # name -> callable(cx, *SV) -> SV
        self.guarded: dict = {}        # class name -> {'lock': field, 'fields': '*'|[..]} for C03
        self.immutable: set = {'datetime', 'Lock', 'callable'}   # classes whose instances are never mutated
        self.guard_stop: set = set()   # classes whose instances are immutable snapshots (not guarded)
        self.classes: dict = {}        # class name -> real class (filled by the engine)
        self.unknown_callables: dict = {}
        self.rt_helpers: dict = {}
        self.lemmas: list = []
        self.val_classes: list = []    # classes an `Any`-typed object may be (attribute access on Val)

    def spec(self, file, qualname, **kw):
        c = Contract(file, qualname, **kw)
        self.contracts[c.key] = c
        return c

    def lemma(self, name, src, module, params, requires=(), props=(), note="", **kw):
        """A lemma over contracts: `src` is a function body; calls are resolved through the callees'
        contracts (never their bodies); every `assert` must hold for all inputs."""
        c = Contract("<lemma>", name, types=params, requires=requires, props=props, note=note,
                     lemma_src=src, lemma_module=module, cases=[Case("holds")], **kw)
        c.lemma_params = list(params)
        self.contracts[c.key] = c
        return c

    def schema(self, cls, fields, bases=()):
        self.schemas[cls] = dict(fields)

    def specfunc(self, name=None):
        def deco(f):
            self.specfuncs[name or f.__name__] = f
            return f
        return deco

    def merge(self, other: "Registry"):
        self.contracts.update(other.contracts)
        self.schemas.update(other.schemas)
        self.specfuncs.update(other.specfuncs)
        self.guarded.update(other.guarded)
        self.guard_stop |= other.guard_stop
        self.immutable |= other.immutable
        self.val_classes += [c for c in other.val_classes if c not in self.val_classes]
        self.classes.update(other.classes)
        for k, v in other.rt_helpers.items():
            if isinstance(v, dict):
                self.rt_helpers.setdefault(k, {}).update(v)
            else:
                self.rt_helpers[k] = v
        self.unknown_callables.update(other.unknown_callables)
        self.lemmas.extend(other.lemmas)
