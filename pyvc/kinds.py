"""Kinds (static types of symbolic values) and their z3 sorts.

Every symbolic value is an SV(kind, term).  Kinds:
  int, bool, float (Flt datatype: fin(Real)|pinf|ninf|nan), str (z3 String), none,
  enum(cls) (Int), ref(cls) (Int, 0 == None), opt(inner), list(elem), dict(key,val), set(elem),
  tuple(items...) (python-side tuple of SVs, z3 tuple sort when stored), val (dynamic Val datatype),
  const (python-side constant: class, function, module, ...).
"""
from __future__ import annotations

import z3

_cache: dict = {}


class Kind:
    name = "?"
    nullable = False   # for reference kinds: may the value be None (not part of the key)

    def key(self) -> str:
        return self.name

    def __repr__(self):
        return self.key()

    def __eq__(self, other):
        return isinstance(other, Kind) and self.key() == other.key()

    def __hash__(self):
        return hash(self.key())


class _Simple(Kind):
    def __init__(self, name):
        self.name = name


KInt = _Simple("int")
KBool = _Simple("bool")
KFloat = _Simple("float")
KStr = _Simple("str")
KNone = _Simple("none")
KVal = _Simple("val")
KConst = _Simple("const")


class KEnum(Kind):
    def __init__(self, cls):
        self.cls = cls
        self.name = "enum"

    def key(self):
        return "enum:" + self.cls.__name__


class KRef(Kind):
    """Reference to an object of (a subclass of) class `cls` (a name string). 0 is None."""

    def __init__(self, cls: str):
        self.cls = cls
        self.name = "ref"

    def key(self):
        return "ref:" + self.cls


class KOpt(Kind):
    def __init__(self, inner: Kind):
        assert not isinstance(inner, (KOpt,)), inner
        self.inner = inner
        self.name = "opt"

    def key(self):
        return "opt<" + self.inner.key() + ">"


class KList(Kind):
    def __init__(self, elem: Kind, region: str = ""):
        self.elem = elem
        self.region = region
        self.name = "list"

    def key(self):
        return "list<" + self.elem.key() + ">" + ("@" + self.region if self.region else "")


class KDict(Kind):
    def __init__(self, k: Kind, v: Kind, region: str = ""):
        self.k = k
        self.v = v
        self.region = region
        self.name = "dict"

    def key(self):
        return "dict<" + self.k.key() + "," + self.v.key() + ">" + ("@" + self.region if self.region else "")


class KSet(Kind):
    def __init__(self, elem: Kind, region: str = ""):
        self.elem = elem
        self.region = region
        self.name = "set"

    def key(self):
        return "set<" + self.elem.key() + ">" + ("@" + self.region if self.region else "")


class KTuple(Kind):
    def __init__(self, items):
        self.items = tuple(items)
        self.name = "tuple"

    def key(self):
        return "tuple<" + ",".join(i.key() for i in self.items) + ">"


# ------------------------------------------------------------------------------------------------
# z3 sorts


def flt_sort():
    if "Flt" not in _cache:
        d = z3.Datatype("Flt")
        d.declare("fin", ("r", z3.RealSort()))
        d.declare("pinf")
        d.declare("ninf")
        d.declare("nan")
        _cache["Flt"] = d.create()
    return _cache["Flt"]


def val_sort():
    if "Val" not in _cache:
        F = flt_sort()
        d = z3.Datatype("Val")
        d.declare("vnone")
        d.declare("vbool", ("b", z3.BoolSort()))
        d.declare("vint", ("i", z3.IntSort()))
        d.declare("vflt", ("f", F))
        d.declare("vstr", ("s", z3.StringSort()))
        d.declare("vlist", ("lr", z3.IntSort()))   # heap list of Val
        d.declare("vtuple", ("tr", z3.IntSort()))  # heap (immutable) sequence of Val
        d.declare("vdict", ("dr", z3.IntSort()))   # heap dict str->Val
        d.declare("vobj", ("o", z3.IntSort()))     # any other object (opaque identity)
        _cache["Val"] = d.create()
    return _cache["Val"]


def opt_sort(inner_sort):
    k = "Opt_" + str(inner_sort)
    if k not in _cache:
        d = z3.Datatype(k)
        d.declare("none")
        d.declare("some", ("v", inner_sort))
        _cache[k] = d.create()
    return _cache[k]


def tuple_sort(sorts):
    k = "Tup_" + "_".join(str(s) for s in sorts)
    if k not in _cache:
        d = z3.Datatype(k)
        d.declare("mk", *[("f%d" % i, s) for i, s in enumerate(sorts)])
        _cache[k] = d.create()
    return _cache[k]


def sort_of(kind: Kind):
    if kind is KInt or isinstance(kind, (KEnum, KRef, KList, KDict, KSet)):
        return z3.IntSort()
    if kind is KBool:
        return z3.BoolSort()
    if kind is KFloat:
        return flt_sort()
    if kind is KStr:
        return z3.StringSort()
    if kind is KNone:
        return z3.IntSort()
    if kind is KVal:
        return val_sort()
    if isinstance(kind, KOpt):
        return opt_sort(sort_of(kind.inner))
    if isinstance(kind, KTuple):
        return tuple_sort([sort_of(i) for i in kind.items])
    raise TypeError("no sort for kind %r" % (kind,))


def is_refkind(kind: Kind) -> bool:
    return isinstance(kind, (KRef, KList, KDict, KSet))


# ------------------------------------------------------------------------------------------------
# Float helpers (IEEE order semantics; arithmetic exact on finite values, unknown otherwise)

def F():
    return flt_sort()


def f_fin(r):
    return F().fin(r)


def f_is_fin(x):
    return F().is_fin(x)


def f_is_nan(x):
    return F().is_nan(x)


def f_r(x):
    return F().r(x)


def f_const(v: float):
    import math
    if isinstance(v, float) and math.isnan(v):
        return F().nan
    if v == float("inf"):
        return F().pinf
    if v == float("-inf"):
        return F().ninf
    if isinstance(v, int):
        return F().fin(z3.RealVal(v))
    from fractions import Fraction
    fr = Fraction(v)
    return F().fin(z3.RealVal(fr.numerator) / z3.RealVal(fr.denominator))


def f_lt(a, b):
    Fs = F()
    return z3.And(
        z3.Not(Fs.is_nan(a)), z3.Not(Fs.is_nan(b)),
        z3.Or(
            z3.And(Fs.is_fin(a), Fs.is_fin(b), Fs.r(a) < Fs.r(b)),
            z3.And(Fs.is_ninf(a), z3.Not(Fs.is_ninf(b))),
            z3.And(Fs.is_pinf(b), z3.Not(Fs.is_pinf(a))),
        ),
    )


def f_eq(a, b):
    """Python == on floats (nan != nan)."""
    Fs = F()
    return z3.And(z3.Not(Fs.is_nan(a)), a == b)


def f_le(a, b):
    return z3.Or(f_lt(a, b), f_eq(a, b))


_uf: dict = {}


def uf(name, *sorts):
    if name not in _uf:
        _uf[name] = z3.Function(name, *sorts)
    return _uf[name]


_SUB_AS_UF = False


def f_arith(op: str, a, b):
    """a op b for floats. Exact on finite operands (no overflow: stated assumption); otherwise
    add/sub follow IEEE on infinities; mul/div with an infinite operand are an uninterpreted (unknown) result."""
    Fs = F()
    unk = uf("flt_" + op + "_special", Fs, Fs, Fs)(a, b)
    both = z3.And(Fs.is_fin(a), Fs.is_fin(b))
    anynan = z3.Or(Fs.is_nan(a), Fs.is_nan(b))
    if op == "add":
        # IEEE: inf + finite = inf, inf + inf = inf, inf + (-inf) = nan
        inf_case = z3.If(Fs.is_fin(a), b, z3.If(Fs.is_fin(b), a, z3.If(a == b, a, Fs.nan)))
        return z3.If(both, Fs.fin(Fs.r(a) + Fs.r(b)), z3.If(anynan, Fs.nan, inf_case))
    if op == "sub":
        return f_arith("add", a, f_neg(b)) if not _SUB_AS_UF else z3.If(both, Fs.fin(Fs.r(a) - Fs.r(b)), z3.If(anynan, Fs.nan, unk))
    if op == "mul":
        return z3.If(both, Fs.fin(Fs.r(a) * Fs.r(b)), z3.If(anynan, Fs.nan, unk))
    if op == "div":
        return z3.If(z3.And(both, Fs.r(b) != 0), Fs.fin(Fs.r(a) / Fs.r(b)), z3.If(anynan, Fs.nan, unk))
    raise ValueError(op)


def f_neg(a):
    Fs = F()
    return z3.If(Fs.is_fin(a), Fs.fin(-Fs.r(a)),
                 z3.If(Fs.is_pinf(a), Fs.ninf, z3.If(Fs.is_ninf(a), Fs.pinf, Fs.nan)))


def qforall(vs, body, patterns=None):
    """ForAll with explicit patterns; patterns z3 rejects (they contain ite/arith) are dropped one by
    one, falling back to z3's own trigger inference."""
    if patterns:
        # triggers are simplified first: select(store(a, i, v), i) must be seen as v, or E-matching never fires
        patterns = [(p if isinstance(p, z3.PatternRef) else z3.simplify(p)) for p in patterns]
        good = [p for p in patterns if _pattern_ok(p, vs)]
        if good:
            try:
                import os as _os
                if _os.environ.get("PYVC_QID"):
                    return z3.ForAll(vs, body, patterns=good, qid=str(good[0]).replace("\n", " ")[:70])
                return z3.ForAll(vs, body, patterns=good)
            except z3.Z3Exception:
                pass
    return z3.ForAll(vs, body)


def _pattern_ok(p, vs):
    """z3 patterns must be ite-free, non-ground applications."""
    if isinstance(p, z3.PatternRef):
        return True   # MultiPattern: let z3 decide
    stack = [p]
    seen = set()
    ids = {v.get_id() for v in vs}
    found = set()
    while stack:
        x = stack.pop()
        i = x.get_id()
        if i in seen:
            continue
        seen.add(i)
        if i in ids:
            found.add(i)
        if z3.is_app(x):
            k = x.decl().kind()
            if k in (z3.Z3_OP_ITE, z3.Z3_OP_AND, z3.Z3_OP_OR, z3.Z3_OP_NOT, z3.Z3_OP_IMPLIES, z3.Z3_OP_EQ,
                     z3.Z3_OP_LE, z3.Z3_OP_GE, z3.Z3_OP_LT, z3.Z3_OP_GT):
                return False
            stack.extend(x.children())
    if isinstance(p, z3.PatternRef):
        return True
    return found == ids


def val_wf(t, bound):
    """References embedded in a dynamic value point at allocated objects (0 < ref < allocation pointer)."""
    V = val_sort()
    return z3.And(
        z3.Implies(V.is_vlist(t), z3.And(V.lr(t) > 0, V.lr(t) < bound)),
        z3.Implies(V.is_vtuple(t), z3.And(V.tr(t) > 0, V.tr(t) < bound)),
        z3.Implies(V.is_vdict(t), z3.And(V.dr(t) > 0, V.dr(t) < bound)),
        z3.Implies(V.is_vobj(t), z3.And(V.o(t) > 0, V.o(t) < bound)))
