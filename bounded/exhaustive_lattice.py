"""Bounded stand-in (labelled bounded, never counted as proved) for the parts of C14 the VC generator cannot reach:
the Decimal loop of `_enumerate_candidates` for stepped floats, and whole runs of BruteForceSampler / GridSampler
(`_TreeNode` rebuilt from trial history with numpy, itertools grids).  The real code is executed; the oracle is
independent (exact rational arithmetic / explicit enumeration of the program's leaves).

bound: stepped floats low in {-1,-0.3,0,0.1,0.25}, high-low in {0,0.3,0.5,0.6,0.7,1,1.2,2}, step in {0.05,0.1,0.2,0.25,0.3,0.5,1}
       (280 triples); brute-force runs over 7 tree-shaped define-by-run programs (<= 32 leaves, conditional branches,
       shared sub-spaces, single-value domains, stepped floats) x 3 seeds x {plain, every-3rd-trial-fails, split into
       two optimize calls with a fresh sampler}; grid runs over 3 grids (<= 40 points) x {one call, interrupted after k
       trials and resumed with a FRESH default-seed sampler object}"""
from __future__ import annotations

import itertools
from fractions import Fraction


def _programs():
    """Each program: (name, objective(trial) -> key tuple, set of all reachable key tuples)."""
    progs = []

    def p1(t):
        return (t.suggest_int("a", 0, 3), t.suggest_categorical("c", ["x", "y"]))
    progs.append(("int x cat", p1, {(a, c) for a in range(4) for c in "xy"}))

    def p2(t):
        c = t.suggest_categorical("c", ["x", "y", "z"])
        if c == "x":
            return (c, t.suggest_int("a", 0, 2))
        if c == "y":
            return (c, t.suggest_float("f", 0.0, 0.3, step=0.1))
        return (c,)
    progs.append(("conditional, branches of different depth", p2,
                  {("x", a) for a in range(3)} | {("y", f) for f in _grid(0.0, 0.3, 0.1)} | {("z",)}))

    def p3(t):
        a = t.suggest_int("a", 1, 1)                    # single-value domain
        b = t.suggest_int("b", 0, 4, step=2)
        return (a, b)
    progs.append(("single-value domain and stepped int", p3, {(1, b) for b in (0, 2, 4)}))

    def p4(t):
        c = t.suggest_categorical("c", [True, False])
        s = t.suggest_int("shared", 0, 1)               # shared sub-space below both branches
        if c:
            return (c, s, t.suggest_float("f", 0.1, 0.7, step=0.1))
        return (c, s)
    f4 = _grid(0.1, 0.7, 0.1)
    progs.append(("shared sub-space, stepped float 0.1..0.7", p4,
                  {(True, s, f) for s in (0, 1) for f in f4} | {(False, s) for s in (0, 1)}))

    def p5(t):
        x = t.suggest_float("x", 0.0, 0.6, step=0.2)
        y = t.suggest_float("y", -0.3, 0.0, step=0.1)
        return (x, y)
    progs.append(("two stepped floats", p5, None))      # leaves computed from the exact rational grid below

    def p6(t):
        d = t.suggest_int("depth", 0, 2)
        out = [d]
        for i in range(d):
            out.append(t.suggest_categorical("k%d" % i, ["p", "q"]))
        return tuple(out)
    progs.append(("depth-dependent number of parameters", p6,
                  {(0,)} | {(1, a) for a in "pq"} | {(2, a, b) for a in "pq" for b in "pq"}))

    def p7(t):
        c = t.suggest_categorical("c", ["only"])
        return (c, t.suggest_int("n", -1, 1))
    progs.append(("single categorical choice", p7, {("only", n) for n in (-1, 0, 1)}))
    return progs


def _grid(lo, hi, step):
    """Exact grid of a stepped float range as floats (decimal-string semantics, like the sampler's Decimal loop)."""
    from decimal import Decimal
    a, b, s = Fraction(Decimal(str(lo))), Fraction(Decimal(str(hi))), Fraction(Decimal(str(step)))
    out, k = [], 0
    while a + k * s <= b:
        out.append(float(Decimal(str(lo)) + k * Decimal(str(step))))
        k += 1
    return out


def run(pid, tier, seed):
    from pyvc.frontend import setup_repo_path
    setup_repo_path()
    import warnings
    warnings.simplefilter("ignore")
    import optuna
    from optuna import distributions as D
    from optuna.samplers._brute_force import _enumerate_candidates
    optuna.logging.set_verbosity(optuna.logging.ERROR)
    viol, samples = [], []
    evals, nontrivial = 0, 0

    def bad(what, **inp):
        if len(viol) < 6:
            viol.append({"what": what, "input": {k: repr(v) for k, v in inp.items()}})

    # ---- candidates of stepped floats ---------------------------------------------------------------------------
    for lo, span, step in itertools.product([-1.0, -0.3, 0.0, 0.1, 0.25], [0.0, 0.3, 0.5, 0.6, 0.7, 1.0, 1.2, 2.0],
                                            [0.05, 0.1, 0.2, 0.25, 0.3, 0.5, 1.0]):
        try:
            d = D.FloatDistribution(lo, float(Fraction(str(lo)) + Fraction(str(span))), step=step)
        except ValueError:
            continue
        evals += 1
        got = list(_enumerate_candidates(d))
        want = _grid(d.low, d.high, d.step)
        if len(want) > 1:
            nontrivial += 1
        if got != want:
            bad("_enumerate_candidates(FloatDistribution) is not the exact grid low, low+step, ... <= high", low=d.low, high=d.high,
                step=d.step, got=got[:12], want=want[:12])
        elif not all(d._contains(v) for v in got) or len(set(got)) != len(got):
            bad("_enumerate_candidates(FloatDistribution) yields a duplicate or a value outside the distribution", low=d.low, high=d.high, step=d.step)
    samples.append({"case": "FloatDistribution(0.1, 0.7, step=0.1) -> 7 candidates ending in 0.7"})

    # ---- whole brute-force runs -----------------------------------------------------------------------------------
    seeds = [seed, seed + 1] if tier == "quick" else [seed, seed + 1, seed + 2]
    for name, obj, leaves in _programs():
        if leaves is None:
            leaves = {(x, y) for x in _grid(0.0, 0.6, 0.2) for y in _grid(-0.3, 0.0, 0.1)}
        for sd, mode in itertools.product(seeds, ("plain", "fail3", "split")):
            evals += 1
            nontrivial += 1
            seen = []
            calls = [0]

            def objective(t, _obj=obj, _mode=mode):
                key = tuple(float(v) if isinstance(v, float) else v for v in _obj(t))     # np.float64 -> float
                calls[0] += 1
                seen.append(key)                                 # evaluated = the objective ran on this combination
                if _mode == "fail3" and calls[0] % 3 == 0:
                    raise RuntimeError("planned failure")
                return 0.0
            study = optuna.create_study(sampler=optuna.samplers.BruteForceSampler(seed=sd))
            budget = 4 * len(leaves) + 20
            try:
                if mode == "split":
                    study.optimize(objective, n_trials=max(1, len(leaves) // 2), catch=(RuntimeError,))
                    study.sampler = optuna.samplers.BruteForceSampler(seed=sd + 7)      # resumed by a fresh sampler object
                    study.optimize(objective, n_trials=budget, catch=(RuntimeError,))
                else:
                    study.optimize(objective, n_trials=budget, catch=(RuntimeError,))
            except Exception as e:  # noqa: BLE001
                bad("BruteForceSampler run raised", program=name, seed=sd, mode=mode, error=e)
                continue
            done = [t for t in study.trials if t.state == optuna.trial.TrialState.COMPLETE]
            stopped = len(study.trials) < budget + (max(1, len(leaves) // 2) if mode == "split" else 0)
            if sorted(map(repr, seen)) != sorted(map(repr, leaves)):
                bad("BruteForceSampler did not evaluate every reachable combination exactly once", program=name, seed=sd, mode=mode,
                    evaluated=len(seen), distinct=len(set(seen)), reachable=len(leaves),
                    missing=sorted(map(repr, set(leaves) - set(seen)))[:5])
            if not stopped:
                bad("BruteForceSampler did not stop by itself", program=name, seed=sd, mode=mode, trials=len(study.trials))
    samples.append({"case": "program 'conditional, branches of different depth': 8 leaves, each evaluated once, then study.stop()"})

    # ---- grid sampler: one call, and interrupted + resumed with a fresh default-seed sampler -------------------------------
    grids = [{"x": [0, 1, 2], "y": ["a", "b"]}, {"x": [0.1, 0.2, 0.3, 0.4, 0.5], "y": [1, 2, 3, 4], "z": [True, False]},
             {"only": [7]}]
    for space, resume in itertools.product(grids, (False, True)):
        evals += 1
        nontrivial += 1
        points = set(itertools.product(*[space[k] for k in sorted(space)]))
        seen = []

        def gobj(t, _space=space):
            key = tuple(t.suggest_categorical(k, _space[k]) if not all(isinstance(v, (int, float)) and not isinstance(v, bool) for v in _space[k])
                        else (t.suggest_float(k, min(_space[k]), max(_space[k])) if any(isinstance(v, float) for v in _space[k])
                              else t.suggest_int(k, min(_space[k]), max(_space[k]))) for k in sorted(_space))
            seen.append(key)
            return 0.0
        study = optuna.create_study(sampler=optuna.samplers.GridSampler(space))
        if resume and len(points) > 2:
            study.optimize(gobj, n_trials=len(points) // 3)
            study.sampler = optuna.samplers.GridSampler(space)          # a new object, default seed, as after a restart
        study.optimize(gobj, n_trials=3 * len(points) + 5)
        if sorted(map(repr, seen)) != sorted(map(repr, points)):
            bad("GridSampler did not evaluate every grid point exactly once", grid=space, resumed=resume, evaluated=len(seen),
                distinct=len(set(seen)), points=len(points))
    samples.append({"case": "5x4x2 grid interrupted after 13 trials, resumed by a fresh GridSampler(space): 40 points, each once"})
    return {"name": "bounded.exhaustive_lattice", "function": "optuna/samplers/_brute_force.py (_enumerate_candidates float branch, whole runs), optuna/samplers/_grid.py (whole runs)",
            "bound": __doc__.split("bound:")[1].strip(), "evaluations": evals, "distinct_nontrivial": nontrivial,
            "rule": "every listed (triple | program x seed x mode | grid x resume) is run; non-trivial = more than one candidate / a whole run",
            "exhaustive": True, "samples": samples, "violations": viol}
