"""Bounded stand-in (labelled bounded, never counted as proved) for the parts of C13 the VC generator cannot reach: the
numpy code of the percentile pruner (np.nanpercentile interpolation, `100 - q` mirroring), of TPE / NSGA-II / QMC
direction handling and of the Wilcoxon pruner.  The real code is executed twice -- direction maximize on f, direction
minimize on -f, same seed, same study name -- and the two histories are compared; the oracle is the property itself.

bound: (a) `_get_percentile_intermediate_result_over_trials` on every list of <= 5 distinct values from {-2,-0.5,0,0.75,1,3}
       (plus one NaN / one missing step) x q in {0,10,25,50,75,90,100}: value(max, vals, q) == -value(min, -vals, q) up to
       8 ulps of the largest input, and the strict comparison with each lattice value agrees;  (b) whole runs: samplers {Random, TPE, TPE
       multivariate+group+constant_liar, NSGA-II, QMC} x pruners {Median, Percentile 25, Percentile 90 interval 2, SHA,
       Hyperband, Patient(Median), Threshold (mirrored bounds), Wilcoxon, Nop} x 2 objective programs x seeds (2 quick /
       4 thorough) x 40 trials x 6 steps;  (c) multi-objective: {TPE, NSGA-II, Random} x every subset of 2 (quick) / 3
       (thorough) objectives flipped x seeds, 30 trials, params sequence and Pareto front numbers compared (the comparison
       stops at the first trial that repeats an earlier trial's values: the property is about pairwise-distinct values);
       (d) NSGAIIElitePopulationSelectionStrategy.__call__ on every population {(i, pi(i))} of 3..4 (thorough: 5) points, pi
       any permutation, every population_size, every flip subset of the 2 objectives"""
from __future__ import annotations

import itertools
import math


def run(pid, tier, seed):
    from pyvc.frontend import setup_repo_path
    setup_repo_path()
    import warnings
    warnings.simplefilter("ignore")
    import optuna
    from optuna.pruners._percentile import _get_percentile_intermediate_result_over_trials as pct
    from optuna.study import StudyDirection
    from optuna.trial import TrialState, create_trial
    optuna.logging.set_verbosity(optuna.logging.ERROR)
    viol, samples = [], []
    evals, nontrivial = 0, 0

    def bad(what, **inp):
        if len(viol) < 6:
            viol.append({"what": what, "input": {k: repr(v) for k, v in inp.items()}})

    # ---- (a) percentile mirroring at the function level ------------------------------------------------------------------
    lattice = [-2.0, -0.5, 0.0, 0.75, 1.0, 3.0]

    def trials_of(vals, sign):
        out = []
        for n, v in enumerate(vals):
            iv = {} if v is None else {3: (sign * v if v == v else v)}
            out.append(create_trial(state=TrialState.COMPLETE, value=0.0, intermediate_values=iv))
        return out
    extra = [[1.0, float("nan"), -0.5], [0.75, None, 3.0, -2.0]]
    for vals in itertools.chain((list(c) for k in range(1, 6) for c in itertools.permutations(lattice, k) if list(c)[:2] == sorted(c)[:2]), extra):
        for q in (0.0, 10.0, 25.0, 50.0, 75.0, 90.0, 100.0):
            evals += 1
            try:
                a = pct(trials_of(vals, 1.0), StudyDirection.MAXIMIZE, 3, q, 1)
                b = pct(trials_of(vals, -1.0), StudyDirection.MINIMIZE, 3, q, 1)
            except Exception as e:  # noqa: BLE001
                bad("_get_percentile_intermediate_result_over_trials raised", values=vals, percentile=q, error=e)
                continue
            if len(vals) > 1:
                nontrivial += 1
            # interpolation a + t*(b-a) is not bit-symmetric: tolerance is 8 ulps of the largest input magnitude
            tol = 8 * math.ulp(max(abs(v) for v in vals if v is not None and v == v)) if a == a and b == b else 0.0
            if not ((a != a and b != b) or abs(a + b) <= tol):
                bad("percentile of the maximise history is not minus the percentile of the negated minimise history",
                    values=vals, percentile=q, maximize=a, minimize_negated=b)
                continue
            for x in lattice:                         # the pruning comparison agrees for every lattice value
                if abs(x - a) > 1e-9 and (x < a) != (-x > b):
                    bad("pruning comparison against the percentile differs between the mirrored histories", values=vals,
                        percentile=q, value=x, maximize=a, minimize_negated=b)
    samples.append({"case": "values [-2, 0.75, 3], q=25: maximize -> 75th percentile 1.875; minimize on negated -> -1.875"})

    # ---- (b) whole single-objective runs -----------------------------------------------------------------------------------
    def prog1(x, y, c, s):
        v = (x - 0.3) ** 2 + 0.5 * y + (0.25 if c == "a" else 0.0)
        return v, v + (5 - s) * 0.37 * (1 + x)

    def prog2(x, y, c, s):
        v = math.sin(3 * x) + 0.1 * y * (1 if c == "a" else -1)
        return v, v + ((s * 7 + y) % 4) * 0.21 - 0.05 * s        # non-monotone learning curve (exercises patience)

    S = {"random": lambda sd: optuna.samplers.RandomSampler(seed=sd),
         "tpe": lambda sd: optuna.samplers.TPESampler(seed=sd, n_startup_trials=5),
         "tpe-mv": lambda sd: optuna.samplers.TPESampler(seed=sd, n_startup_trials=5, multivariate=True, group=True, constant_liar=True),
         "nsga2": lambda sd: optuna.samplers.NSGAIISampler(seed=sd, population_size=8),
         "qmc": lambda sd: optuna.samplers.QMCSampler(seed=sd)}
    P = {"median": lambda m: optuna.pruners.MedianPruner(n_startup_trials=2, n_warmup_steps=1),
         "pct25": lambda m: optuna.pruners.PercentilePruner(25.0, n_startup_trials=2),
         "pct90i2": lambda m: optuna.pruners.PercentilePruner(90.0, n_startup_trials=1, interval_steps=2),
         "sha": lambda m: optuna.pruners.SuccessiveHalvingPruner(),
         "hyperband": lambda m: optuna.pruners.HyperbandPruner(max_resource=6),
         "patient": lambda m: optuna.pruners.PatientPruner(optuna.pruners.MedianPruner(n_startup_trials=2), patience=1),
         "threshold": lambda m: (optuna.pruners.ThresholdPruner(lower=-1.5, upper=2.5) if m else optuna.pruners.ThresholdPruner(lower=-2.5, upper=1.5)),
         "wilcoxon": lambda m: optuna.pruners.WilcoxonPruner(p_threshold=0.2),
         "nop": lambda m: optuna.pruners.NopPruner()}
    seeds = [seed, seed + 1] if tier == "quick" else [seed, seed + 1, seed + 2, seed + 3]

    def one(direction, sign, sampler, pruner, prog, n=40):
        def obj(t):
            x = t.suggest_float("x", -1, 1)
            y = t.suggest_int("y", 0, 5)
            c = t.suggest_categorical("c", ["a", "b"])
            for s in range(6):
                v, r = prog(x, y, c, s)
                t.report(sign * r, s)
                if t.should_prune():
                    raise optuna.TrialPruned()
            return sign * v
        st = optuna.create_study(direction=direction, sampler=sampler, pruner=pruner, study_name="mirror")
        st.optimize(obj, n_trials=n)
        return ([(tuple(sorted(t.params.items())), t.state.name, len(t.intermediate_values)) for t in st.trials], st.best_trial.number,
                [None if t.values is None else tuple(abs(v) for v in t.values) for t in st.trials])

    def distinct_prefix(*value_lists):
        """The property quantifies over programs with pairwise-distinct values: the comparison stops at the first trial whose
        (final) values repeat an earlier trial's in either run (GA samplers re-propose identical parameters); that trial's own
        parameters are still compared, since they were chosen from a distinct history."""
        k = min(len(v) for v in value_lists)
        for vals in value_lists:
            seen = set()
            for i, v in enumerate(vals):
                if v is not None and v in seen:
                    k = min(k, i + 1)
                    break
                seen.add(v)
        return k

    import optuna.samplers.nsgaii._elite_population_selection_strategy as _E
    ties = []
    _orig_sort = _E._crowding_distance_sort

    def _sort_spy(population):
        d = _E._calc_crowding_distance(list(population))
        ds = [d[t.number] for t in population]
        if len(set(ds)) < len(ds):
            ties.append(max(t.number for t in population))
        return _orig_sort(population)
    _E._crowding_distance_sort = _sort_spy

    pruned_any = {}
    for (sn, pn), (gi, prog), sd in itertools.product(itertools.product(S, P), enumerate((prog1, prog2)), seeds):
        if tier == "quick" and pn == "wilcoxon" and sn != "tpe":
            continue                                     # slow (scipy): one sampler in the quick tier
        evals += 1
        try:
            a = one("maximize", -1.0, S[sn](sd), P[pn](False), prog)        # f = -g, maximised; thresholds mirrored
            b = one("minimize", 1.0, S[sn](sd), P[pn](True), prog)          # g, minimised
        except Exception as e:  # noqa: BLE001
            bad("mirrored run raised", sampler=sn, pruner=pn, program=gi, seed=sd, error=e)
            continue
        npr = sum(1 for t in a[0] if t[1] == "PRUNED")
        pruned_any[pn] = pruned_any.get(pn, 0) + npr
        nontrivial += 1
        n_cmp = distinct_prefix(a[2], b[2])
        if n_cmp < len(a[0]):
            a, b = (a[0][:n_cmp], None), (b[0][:n_cmp], None)
        else:
            a, b = a[:2], b[:2]
        if a != b:
            k = next((i for i, (u, w) in enumerate(zip(a[0], b[0])) if u != w), None)
            bad("maximising f and minimising -f with the same seed diverge", sampler=sn, pruner=pn, program=gi, seed=sd,
                first_diverging_trial=k, maximize=(a[0][k] if k is not None else a[1]), minimize=(b[0][k] if k is not None else b[1]),
                best=(a[1], b[1]))
    for pn, n in pruned_any.items():
        if n == 0 and pn not in ("nop",):
            bad("stand-in is vacuous: pruner never pruned in any mirrored run", pruner=pn)
    samples.append({"case": "TPE(seed) x PercentilePruner(25): 40 trials, identical params / states / reported steps / best trial"})

    # ---- (c) multi-objective: flip any subset of objectives ---------------------------------------------------------------
    def mo(flips, sampler, n=30):
        k = len(flips)

        def obj(t):
            x = t.suggest_float("x", 0, 1)
            y = t.suggest_float("y", 0, 1)
            z = t.suggest_categorical("z", [0, 1])
            f = [x * x + y + 0.3 * z, (x - 1) ** 2 + y * y - 0.2 * z, abs(x - y) + 0.1 * z][:k]
            return tuple(-v if fl else v for v, fl in zip(f, flips))
        st = optuna.create_study(directions=["maximize" if fl else "minimize" for fl in flips], sampler=sampler, study_name="mirror")
        st.optimize(obj, n_trials=n)
        return ([tuple(sorted(t.params.items())) for t in st.trials], sorted(t.number for t in st.best_trials),
                [None if t.values is None else tuple(abs(v) for v in t.values) for t in st.trials])

    MS = {"tpe": lambda sd: optuna.samplers.TPESampler(seed=sd, n_startup_trials=5),
          "nsga2": lambda sd: optuna.samplers.NSGAIISampler(seed=sd, population_size=6, mutation_prob=0.5),
          "random": lambda sd: optuna.samplers.RandomSampler(seed=sd)}
    for k in ((2,) if tier == "quick" else (2, 3)):
        for sn, sd in itertools.product(MS, seeds):
            try:
                ties.clear()
                base = mo((False,) * k, MS[sn](sd))
                base_ties = list(ties)
            except Exception as e:  # noqa: BLE001
                bad("multi-objective run raised", sampler=sn, seed=sd, error=e)
                continue
            for flips in itertools.product((False, True), repeat=k):
                if not any(flips):
                    continue
                evals += 1
                nontrivial += 1
                try:
                    ties.clear()
                    got = mo(flips, MS[sn](sd))
                except Exception as e:  # noqa: BLE001
                    bad("multi-objective run raised", sampler=sn, seed=sd, flips=flips, error=e)
                    continue
                n_cmp = distinct_prefix(got[2], base[2])
                g2, b2 = ((got[0][:n_cmp], None), (base[0][:n_cmp], None)) if n_cmp < len(base[0]) else (got[:2], base[:2])
                if g2 != b2:
                    kk = next((i for i, (u, w) in enumerate(zip(g2[0], b2[0])) if u != w), None)
                    # a crowding-distance tie at the cut rank in a generation that ended before the first diverging trial
                    tie = any(t < (kk if kk is not None else 10 ** 9) for t in base_ties + ties)
                    bad("flipping the direction (and sign) of a subset of objectives changes the run", sampler=sn, seed=sd,
                        flipped=flips, first_diverging_trial=kk, compared_trials=n_cmp, pareto=(g2[1], b2[1]),
                        crowding_distance_tie_before_divergence=tie)
    # ---- (d) NSGA-II elite selection at the function level: populations whose objective values are pairwise distinct per
    #          objective (point i = (i, pi(i)) for every permutation pi), every population size, every flip subset
    from optuna.samplers.nsgaii._elite_population_selection_strategy import NSGAIIElitePopulationSelectionStrategy as _Elite
    studies = {fl: optuna.create_study(directions=["maximize" if f else "minimize" for f in fl]) for fl in itertools.product((False, True), repeat=2)}
    for n in ((3, 4) if tier == "quick" else (3, 4, 5)):
        for perm in itertools.permutations(range(n)):
            pts = [(float(i) + 0.25 * (i % 2), float(pi) * 1.5) for i, pi in enumerate(perm)]
            for size in range(2, n + 1):
                res = {}
                tie_seen = False
                for fl, stdy in studies.items():
                    pop = [create_trial(state=TrialState.COMPLETE, values=[-v if f else v for v, f in zip(pt, fl)]) for pt in pts]
                    for k, t in enumerate(pop):
                        t.number = k
                    ties.clear()
                    try:
                        res[fl] = [t.number for t in _Elite(population_size=size)(stdy, pop)]
                    except Exception as e:  # noqa: BLE001
                        res[fl] = repr(e)
                    tie_seen = tie_seen or bool(ties)
                evals += 1
                nontrivial += 1
                base_fl = (False, False)
                for fl in studies:
                    if res[fl] != res[base_fl]:
                        bad("NSGA-II elite selection differs when a subset of objectives is flipped (direction and sign)",
                            points=pts, population_size=size, flipped=fl, elite=res[fl], elite_unflipped=res[base_fl],
                            crowding_distance_tie_before_divergence=tie_seen, sampler="nsga2-elite")
                        break
    _E._crowding_distance_sort = _orig_sort
    samples.append({"case": "NSGA-II, 2 objectives, second flipped to maximize(-f2): same parameter sequence and Pareto front"})
    return {"name": "bounded.mirror_lattice",
            "function": "optuna/pruners/_percentile.py (_get_percentile_intermediate_result_over_trials), whole runs of samplers x pruners",
            "bound": __doc__.split("bound:")[1].strip(), "evaluations": evals, "distinct_nontrivial": nontrivial,
            "rule": "every listed (value list x q | sampler x pruner x program x seed | sampler x flip subset x seed) is run twice (mirrored) and compared",
            "exhaustive": True, "samples": samples, "violations": viol}
