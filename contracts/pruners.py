"""Contracts for optuna/pruners/*.py (C16, C13)."""
import z3

from pyvc.contracts import Registry, case, loop, Contract
from pyvc.kinds import *  # noqa
from pyvc.state import SV
from contracts import storage_model

R = Registry()
R.merge(storage_model.R)
P = "optuna/pruners/"

import optuna  # noqa: E402
import optuna.pruners as _pr  # noqa: E402
R.classes.update({"ThresholdPruner": _pr.ThresholdPruner, "NopPruner": _pr.NopPruner, "PercentilePruner": _pr.PercentilePruner,
                  "MedianPruner": _pr.MedianPruner, "PatientPruner": _pr.PatientPruner, "HyperbandPruner": _pr.HyperbandPruner,
                  "SuccessiveHalvingPruner": _pr.SuccessiveHalvingPruner, "BasePruner": _pr.BasePruner})
R.schema("ThresholdPruner", {"_lower": "float", "_upper": "float", "_n_warmup_steps": "int", "_interval_steps": "int"})
R.schema("PercentilePruner", {"_percentile": "float", "_n_startup_trials": "int", "_n_warmup_steps": "int", "_interval_steps": "int",
                              "_n_min_trials": "int"})
R.schema("PatientPruner", {"_wrapped_pruner": "BasePruner | None", "_patience": "int", "_min_delta": "float"})
R.schema("HyperbandPruner", {"_pruners": "list[SuccessiveHalvingPruner]", "_n_brackets": "int | None",
                             "_total_trial_allocation_budget": "int", "_trial_allocation_budgets": "list[int]"})
I = z3.IntSort()


def _iv(eng, st, trial):
    return eng.get_field(st, trial, "intermediate_values")


@R.specfunc()
def first_in_interval(eng, st, step, steps, n_warmup, interval):
    """No OTHER reported step lies at or after the nearest pruning step at or before `step`
    (nearest = (step - warmup) // interval * interval + warmup)."""
    s, w, iv = step.term, n_warmup.term, interval.term
    fd = (s - w) / iv          # z3 integer division = floor for positive divisor
    nearest = fd * iv + w
    k = z3.Int("fi_k")
    has = eng.dict_has(st, steps, SV(KInt, k))
    return SV(KBool, qforall([k], z3.Implies(z3.And(has, k != s), k < nearest), patterns=[has]))


PCT = P + "_percentile.py"
R.spec(PCT, "_is_first_in_interval_step", props=["C16"],
       types={"intermediate_steps": "dict[int, float] @ ti"},
       requires=["interval_steps >= 1", "n_warmup_steps >= 0", "step >= n_warmup_steps"],
       cases=[case("ok", returns="first_in_interval(step, intermediate_steps, n_warmup_steps, interval_steps)")],
       returns_kind="bool",
       loops={"reduce": loop(invariant=[
           "second_last_step >= -1", "0 <= _i and _i <= _n",
           "seen_below(intermediate_steps, _i, step, second_last_step)",
       ])})


@R.specfunc()
def seen_below(eng, st, steps, upto, step, acc):
    """acc = max of the keys enumerated so far other than `step`, or -1."""
    ks = eng.dict_keyseq(st, steps)
    j = z3.Int("sb_j")
    e = eng.list_get(st, ks, j).term
    a = qforall([j], z3.Implies(z3.And(0 <= j, j < upto.term, e != step.term), e <= acc.term), patterns=[e])
    b = z3.Or(acc.term == -1, z3.And(eng.dict_has(st, steps, acc), acc.term != step.term))
    return SV(KBool, z3.And(a, b))


R.spec("optuna/trial/_frozen.py", "FrozenTrial.last_step", inline=True)

TH = P + "_threshold.py"
R.spec(TH, "ThresholdPruner.prune", props=["C16", "C13"], types={"study": "Study", "trial": "FrozenTrial"},
       requires=["self._interval_steps >= 1", "self._n_warmup_steps >= 0", "steps_nonneg(trial)"],
       cases=[case("ok", returns=(
           # prunes exactly when the checked value is NaN or outside its bounds (and the gate is open)
           "len(trial.intermediate_values) > 0 and last_step_of(trial) >= self._n_warmup_steps and "
           "first_in_interval(last_step_of(trial), trial.intermediate_values, self._n_warmup_steps, self._interval_steps) and "
           "(math_isnan(trial.intermediate_values[last_step_of(trial)]) or "
           "trial.intermediate_values[last_step_of(trial)] < self._lower or trial.intermediate_values[last_step_of(trial)] > self._upper)"))],
       returns_kind="bool")
R.spec(P + "_nop.py", "NopPruner.prune", props=["C16"], types={"study": "Study", "trial": "FrozenTrial"},
       cases=[case("ok", returns="False")], returns_kind="bool")


@R.specfunc()
def steps_nonneg(eng, st, trial):
    d = _iv(eng, st, trial)
    k = z3.Int("sn_k")
    has = eng.dict_has(st, d, SV(KInt, k))
    return SV(KBool, qforall([k], z3.Implies(has, k >= 0), patterns=[has]))


@R.specfunc()
def last_step_of(eng, st, trial):
    """The maximum reported step (defined when there is one)."""
    d = _iv(eng, st, trial)
    t = uf("last_step_of", I, I)(d.term)
    k = z3.Int("ls_k")
    has = eng.dict_has(st, d, SV(KInt, k))
    st.assume(z3.Implies(eng.dict_size(st, d) > 0, z3.And(eng.dict_has(st, d, SV(KInt, t)),
                                                           qforall([k], z3.Implies(has, k <= t), patterns=[has]))), quantified=True)
    return SV(KInt, t)


@R.specfunc()
def math_isnan(eng, st, x):
    return SV(KBool, f_is_nan(eng.coerce(st, x, KFloat).term))


# --- percentile / median pruner ---------------------------------------------------------------------------
R.spec("optuna/study/study.py", "Study.get_trials", trusted=True, returns_kind="list[FrozenTrial]",
       types={"states": "list[TrialState] | None"},
       cases=[case("ok", ensures=["fresh(result)", "forall(lambda i: implies(0 <= i and i < len(result), "
                                  "states is None or result[i].state in states), trigger=result[i])"])],
       note="assumed (AS): get_trials(states=S) returns exactly the trials whose state is in S")
R.spec("optuna/study/study.py", "Study.direction", trusted=True, returns_kind="StudyDirection",
       cases=[case("ok", returns="self._directions[0]")], note="single-objective study")


@R.specfunc()
def best_own(eng, st, trial, direction, v):
    """v is the best (direction-wise) non-NaN value the trial reported, or NaN if all are NaN."""
    d = _iv(eng, st, trial)
    k = z3.Int("bo_k")
    has = eng.dict_has(st, d, SV(KInt, k))
    val = eng.dict_get(st, d, SV(KInt, k)).term
    allnan = qforall([k], z3.Implies(has, f_is_nan(val)), patterns=[has])
    maxi = direction.term == 2
    beats = z3.If(maxi, f_lt(v.term, val), f_lt(val, v.term))
    k2 = z3.Int("bo_k2")
    attained = z3.Exists([k2], z3.And(eng.dict_has(st, d, SV(KInt, k2)), eng.dict_get(st, d, SV(KInt, k2)).term == v.term))
    return SV(KBool, z3.If(allnan, f_is_nan(v.term), z3.And(z3.Not(f_is_nan(v.term)), attained,
                                                           qforall([k], z3.Implies(z3.And(has, z3.Not(f_is_nan(val))), z3.Not(beats)), patterns=[has]))))


R.spec(PCT, "_get_best_intermediate_result_over_steps", props=["C16", "C13"],
       types={"trial": "FrozenTrial"}, returns_kind="float",
       requires=["len(trial.intermediate_values) > 0"],
       cases=[case("ok", ensures=["best_own(trial, direction, result)"])])


@R.specfunc()
def others_at_step(eng, st, trials, step, p, direction):
    """p (non-NaN) lies between the smallest and the largest non-NaN value the given trials reported at `step`; so a
    value strictly better than all of them is strictly better than p."""
    n = eng.list_len(st, trials)
    i = z3.Int("oa_i")
    t = eng.list_get(st, trials, i)
    d = _iv(eng, st, t)
    has = eng.dict_has(st, d, step)
    val = eng.dict_get(st, d, step).term
    lo, hi = z3.Int("oa_lo"), z3.Int("oa_hi")

    def at(x):
        tt = eng.list_get(st, trials, x)
        dd = _iv(eng, st, tt)
        return eng.dict_has(st, dd, step), eng.dict_get(st, dd, step).term
    hlo, vlo = at(lo)
    hhi, vhi = at(hi)
    return SV(KBool, z3.Implies(z3.Not(f_is_nan(p.term)), z3.Exists([lo, hi], z3.And(
        0 <= lo, lo < n, 0 <= hi, hi < n, hlo, hhi, z3.Not(f_is_nan(vlo)), z3.Not(f_is_nan(vhi)),
        z3.Not(f_lt(p.term, vlo)), z3.Not(f_lt(vhi, p.term))))))


R.spec(PCT, "_get_percentile_intermediate_result_over_trials", props=["C16", "C13"],
       types={"completed_trials": "list[FrozenTrial]"}, returns_kind="float",
       locals={"intermediate_values": "list[float]"},
       requires=["0.0 <= percentile and percentile <= 100.0"],
       cases=[case("empty", when="len(completed_trials) == 0", raises="ValueError"),
              case("ok", ensures=["others_at_step(completed_trials, step, result, direction)"])])


@R.specfunc()
def strictly_best(eng, st, trial, trials, step, direction):
    """Every non-NaN value reported by `trial` is strictly better than every non-NaN value the other trials reported at `step`,
    and the trial has at least one non-NaN value."""
    d = _iv(eng, st, trial)
    k, i = z3.Int("sb_k"), z3.Int("sb_i")
    has = eng.dict_has(st, d, SV(KInt, k))
    val = eng.dict_get(st, d, SV(KInt, k)).term
    t = eng.list_get(st, trials, i)
    od = _iv(eng, st, t)
    ohas = eng.dict_has(st, od, step)
    oval = eng.dict_get(st, od, step).term
    maxi = direction.term == 2
    better = z3.If(maxi, f_lt(oval, val), f_lt(val, oval))
    n = eng.list_len(st, trials)
    some = z3.Exists([k], z3.And(has, z3.Not(f_is_nan(val))))
    return SV(KBool, z3.And(some, qforall([k, i], z3.Implies(z3.And(has, z3.Not(f_is_nan(val)), 0 <= i, i < n, ohas, z3.Not(f_is_nan(oval))), better),
                                          patterns=[z3.MultiPattern(has, ohas)])))


R.spec(PCT, "PercentilePruner.prune", props=["C16", "C13"], types={"study": "Study", "trial": "FrozenTrial"},
       requires=["self._interval_steps >= 1", "self._n_warmup_steps >= 0", "self._n_min_trials >= 1", "steps_nonneg(trial)",
                 "0.0 <= self._percentile and self._percentile <= 100.0", "len(study._directions) == 1"],
       returns_kind="bool",
       cases=[case("ok", ensures=[
           # never before the start-up trials, the warm-up steps, or off the interval grid
           "implies(result, len(trial.intermediate_values) > 0 and last_step_of(trial) >= self._n_warmup_steps and "
           "first_in_interval(last_step_of(trial), trial.intermediate_values, self._n_warmup_steps, self._interval_steps))",
           "implies(result, g_n_complete(study) >= 1 and g_n_complete(study) >= self._n_startup_trials)",
           # a trial that is strictly better than everything the completed trials reported at this step is never pruned
           "implies(len(trial.intermediate_values) > 0 and strictly_best(trial, g_complete(study), last_step_of(trial), study._directions[0]), not result)",
       ])],
       modifies=["L:*:list<float>", "G:is_tuple", "L:*:list<ref:FrozenTrial>", "L:*:list<enum:TrialState>"])


@R.specfunc()
def g_complete(eng, st, study):
    """Ghost: the list Study.get_trials(states=(COMPLETE,)) returned in this call."""
    return st.ghost.get("get_trials_result", SV(KList(KRef("FrozenTrial")), z3.IntVal(0)))


@R.specfunc()
def g_n_complete(eng, st, study):
    r = st.ghost.get("get_trials_result")
    return SV(KInt, eng.list_len(st, r) if r is not None else z3.IntVal(0))


def _remember_get_trials(eng, st, env):
    pass


_gt = R.contracts[("optuna/study/study.py", "Study.get_trials")]


# --- successive halving: promotion test ---------------------------------------------------------------
SHA = P + "_successive_halving.py"


@R.specfunc()
def strictly_better_than_all_others(eng, st, value, lst, direction):
    """`value` occurs in the list and is strictly better (direction-wise) than every OTHER occurrence... precisely: no
    element of the list is better than or equal to value except (one occurrence of) value itself is allowed to be equal."""
    n = eng.list_len(st, lst)
    i = z3.Int("sbo_i")
    e = eng.list_get(st, lst, i).term
    maxi = direction.term == 2
    worse_or_eq = z3.If(maxi, z3.Not(f_lt(value.term, e)), z3.Not(f_lt(e, value.term)))      # e is not better than value
    return SV(KBool, qforall([i], z3.Implies(z3.And(0 <= i, i < n), worse_or_eq), patterns=[e]))


@R.specfunc()
def in_list(eng, st, value, lst):
    n = eng.list_len(st, lst)
    i = z3.Int("il_i")
    return SV(KBool, z3.Exists([i], z3.And(0 <= i, i < n, eng.list_get(st, lst, i).term == value.term)))


R.spec(SHA, "_is_trial_promotable_to_next_rung", props=["C16", "C13"],
       types={"competing_values": "list[float]"}, returns_kind="bool",
       requires=["reduction_factor >= 2", "len(competing_values) >= 1", "not math_isnan(value)", "in_list(value, old(competing_values))",
                 "forall(lambda i: implies(0 <= i and i < len(competing_values), not math_isnan(competing_values[i])), trigger=competing_values[i])"],
       cases=[case("ok", ensures=[
           # a value that no competing value beats is always promotable (never pruned by the rung test)
           "implies(strictly_better_than_all_others(value, old_list(competing_values), study_direction), result)",
           # functional form (direction-parametric): promotable iff at most max(n // eta - 1, 0) competing values are
           # strictly better
           "result == (count_better(old_list(competing_values), value, study_direction) <= max(len(competing_values) // reduction_factor - 1, 0))",
           "only_row_changed(competing_values)", "len(competing_values) == old(len(competing_values))",
       ])],
       modifies=["L:e:list<float>"])


@R.specfunc()
def count_better(eng, st, lst, value, direction):
    """Number of list entries strictly better than `value`: below it when minimising, above it when maximising."""
    from pyvc import lib
    _, e_ = eng.lnames(lst.kind)
    row = z3.simplify(eng.harr(st, e_)[lst.term])
    n = eng.list_len(st, lst)
    return SV(KInt, z3.If(direction.term == 2, lib.count_gt_f(row, n, value.term), lib.count_lt_f(row, n, value.term)))


@R.specfunc()
def old_list(eng, st, lst):
    """The list with its contents at entry (list.sort() reorders it in place)."""
    ctx = eng.spec_stack[-1]
    n_, e_ = eng.lnames(lst.kind)
    ghost = SV(KList(KFloat, "oldview"), lst.term)
    gn, ge = eng.lnames(ghost.kind)
    st.heap[gn] = eng.harr(st, n_) if gn not in st.heap else st.heap[gn]
    st.heap[gn] = ctx.pre_heap.get(n_, st.heap0.get(n_))
    st.heap[ge] = ctx.pre_heap.get(e_, st.heap0.get(e_))
    return ghost


# --- hyperband: the bracket is a function of (study name, trial number) and the fixed budgets -------------------
HB = P + "_hyperband.py"


def _prefix(lst_term, k):
    return uf("budget_prefix", I, I, I)(lst_term, k)


@R.specfunc()
def prefix_axioms(eng, st, self_sv):
    b = eng.get_field(st, self_sv, "_trial_allocation_budgets")
    k = z3.Int("pa_k")
    e = eng.list_get(st, b, k).term
    n = eng.list_len(st, b)
    return SV(KBool, z3.And(_prefix(b.term, 0) == 0,
                            qforall([k], z3.Implies(z3.And(0 <= k, k < n), z3.And(e >= 1, _prefix(b.term, k + 1) == _prefix(b.term, k) + e)), patterns=[e])))


@R.specfunc()
def budget_prefix(eng, st, self_sv, k):
    b = eng.get_field(st, self_sv, "_trial_allocation_budgets")
    return SV(KInt, _prefix(b.term, k.term))


@R.specfunc()
def bracket_hash(eng, st, self_sv, study, trial):
    """crc32("<study_name>_<number>") mod total budget: a function of the study NAME and the trial NUMBER only."""
    from pyvc import lib
    V = val_sort()
    name = eng.get_field(st, study, "study_name").term
    num = eng.get_field(st, trial, "_number").term
    fmt = uf("str_format_2", z3.StringSort(), V, V, z3.StringSort())(z3.StringVal("{}_{}"), V.vstr(name), V.vint(num))
    total = eng.get_field(st, self_sv, "_total_trial_allocation_budget").term
    h = uf("crc32", z3.StringSort(), I)(fmt)
    return SV(KInt, h - (h / total) * total)


R.spec(HB, "HyperbandPruner._get_bracket_id", props=["C16", "C09"], types={"study": "Study", "trial": "FrozenTrial"},
       returns_kind="int",
       requires=["prefix_axioms(self)", "self._n_brackets is not None and self._n_brackets == len(self._trial_allocation_budgets)",
                 "len(self._pruners) == 0 or len(self._pruners) == self._n_brackets",
                 "self._total_trial_allocation_budget == budget_prefix(self, len(self._trial_allocation_budgets))",
                 "implies(len(self._pruners) > 0, self._total_trial_allocation_budget >= 1)"],
       cases=[case("uninitialised", when="len(self._pruners) == 0", returns="0"),
              case("ok", ensures=[
                  "0 <= result and result < self._n_brackets",
                  "budget_prefix(self, result) <= bracket_hash(self, study, trial)",
                  "bracket_hash(self, study, trial) < budget_prefix(self, result + 1)"])],
       loops={0: loop(index="_i", invariant=["0 <= _i", "_i <= self._n_brackets", "n == bracket_hash(self, study, trial) - budget_prefix(self, _i)",
                                             "n >= 0"], locals={"n": "int"})},
       modifies=[])


# --- patient pruner -------------------------------------------------------------------------------------------
PAT = P + "_patient.py"
R.spec(P + "_base.py", "BasePruner.prune", trusted=True, types={"study": "Study", "trial": "FrozenTrial"}, returns_kind="bool",
       cases=[case("ok", ensures=["result == wrapped_decision(self, study, trial)"])], modifies=[],
       note="the wrapped pruner is an arbitrary BasePruner: its decision is an uninterpreted function of (pruner, study, trial)")


@R.specfunc()
def wrapped_decision(eng, st, pruner, study, trial):
    return SV(KBool, uf("wrapped_decision", I, I, I, z3.BoolSort())(pruner.term, study.term, trial.term))


def _rank(eng, st, d, k):
    """Number of reported steps below k (a function of the key SET of the dict)."""
    from pyvc import lib
    eng.dict_keyseq(st, d)      # makes the link between the enumeration list.sort() sees and the key set available
    h, _, _ = eng.dnames(d.kind)
    return lib.rank_in_set(z3.simplify(eng.harr(st, h)[d.term]), k)


@R.specfunc()
def patience_exceeded(eng, st, trial, patience, min_delta, direction):
    """Position-free statement of the patience test.  rank(k) = number of reported steps below k; the `patience + 1`
    latest steps are those of rank >= n - patience - 1.  MINIMIZE: some non-NaN value reported before the window, plus
    min_delta, is still below every non-NaN value inside the window (and the window has one); MAXIMIZE mirrored."""
    d = _iv(eng, st, trial)
    n = eng.dict_size(st, d)
    cut = n - patience.term - 1
    a, b = z3.Int("pe_a"), z3.Int("pe_b")
    va = eng.dict_get(st, d, SV(KInt, a)).term
    vb = eng.dict_get(st, d, SV(KInt, b)).term
    has_a, has_b = eng.dict_has(st, d, SV(KInt, a)), eng.dict_has(st, d, SV(KInt, b))
    in_win = z3.And(has_a, _rank(eng, st, d, a) >= cut, z3.Not(f_is_nan(va)))
    mini = direction.term == 1
    md = min_delta.term
    beats = z3.If(mini, f_lt(f_arith("add", vb, md), va), f_lt(va, f_arith("sub", vb, md)))
    return SV(KBool, z3.And(
        z3.Exists([a], in_win),
        z3.Exists([b], z3.And(has_b, _rank(eng, st, d, b) < cut, z3.Not(f_is_nan(vb)),
                              qforall([a], z3.Implies(in_win, beats), patterns=[has_a])))))


R.spec(PAT, "PatientPruner.prune", props=["C16", "C13"], types={"study": "Study", "trial": "FrozenTrial"}, returns_kind="bool",
       requires=["self._patience >= 0", "self._min_delta >= 0.0"],
       cases=[case("nothing-reported", when="len(trial.intermediate_values) == 0", returns="False"),
              case("inside-the-patience-window", when="len(trial.intermediate_values) <= self._patience + 1", returns="False"),
              case("ok", ensures=[
                  "result == (patience_exceeded(trial, self._patience, self._min_delta, study._directions[0]) and "
                  "(self._wrapped_pruner is None or wrapped_decision(self._wrapped_pruner, study, trial)))"])],
       modifies=[])


@R.specfunc()
def only_row_changed(eng, st, lst):
    """Frame inside the float-list heap: every list other than `lst` keeps its contents and length."""
    ctx = eng.spec_stack[-1]
    n_, e_ = eng.lnames(lst.kind)
    o = z3.Int("orc_o")
    pre_e, pre_n = ctx.pre_heap.get(e_, st.heap0.get(e_)), ctx.pre_heap.get(n_, st.heap0.get(n_))
    cur_e, cur_n = eng.harr(st, e_), eng.harr(st, n_)
    return SV(KBool, qforall([o], z3.Implies(o != lst.term, z3.And(cur_e[o] == pre_e[o], cur_n[o] == pre_n[o])),
                             patterns=[cur_e[o], cur_n[o], pre_e[o], pre_n[o]]))


# --- C13: maximising f is minimising -f -- mirror lemmas over the direction-parametric contracts ------------------
@R.specfunc()
def count_defs(eng, st, lst, k, x):
    """Instances at k of the defining equations of count_lt_f / count_gt_f over the list's current contents
    (count(row, 0, x) = 0; count(row, k+1, x) = count(row, k, x) + [row[k] < x] resp. [row[k] > x])."""
    from pyvc import lib
    _, e_ = eng.lnames(lst.kind)
    row = z3.simplify(eng.harr(st, e_)[lst.term])
    kk, xx = k.term, x.term
    zero = z3.IntVal(0)
    facts = [lib.count_lt_f(row, zero, xx) == 0, lib.count_gt_f(row, zero, xx) == 0,
             z3.Implies(kk >= 0, z3.And(
                 lib.count_lt_f(row, kk + 1, xx) == lib.count_lt_f(row, kk, xx) + z3.If(f_lt(row[kk], xx), 1, 0),
                 lib.count_gt_f(row, kk + 1, xx) == lib.count_gt_f(row, kk, xx) + z3.If(f_lt(xx, row[kk]), 1, 0)))]
    st.assume(z3.And(facts))
    return SV(KBool, z3.BoolVal(True))


@R.specfunc()
def count_lt_prefix(eng, st, lst, k, x):
    from pyvc import lib
    _, e_ = eng.lnames(lst.kind)
    return SV(KInt, lib.count_lt_f(z3.simplify(eng.harr(st, e_)[lst.term]), k.term, x.term))


@R.specfunc()
def count_gt_prefix(eng, st, lst, k, x):
    from pyvc import lib
    _, e_ = eng.lnames(lst.kind)
    return SV(KInt, lib.count_gt_f(z3.simplify(eng.harr(st, e_)[lst.term]), k.term, x.term))


_MIRROR_LISTS = ["l is not m", "len(l) == len(m)", "len(l) >= 1", "not math_isnan(v)",
                 "forall(lambda i: implies(0 <= i and i < len(l), not math_isnan(l[i]) and m[i] == -l[i]), trigger=l[i])",
                 "forall(lambda i: implies(0 <= i and i < len(m), not math_isnan(m[i]) and m[i] == -l[i]), trigger=m[i])"]

R.lemma("promotable-mirror", """
    k = 0
    while k < len(l):
        k += 1
    r1 = _is_trial_promotable_to_next_rung(v, l, rf, StudyDirection.MAXIMIZE)
    r2 = _is_trial_promotable_to_next_rung(-v, m, rf, StudyDirection.MINIMIZE)
    assert r1 == r2
""", module="optuna.pruners._successive_halving",
        params={"l": "list[float]", "m": "list[float]", "v": "float", "rf": "int"},
        requires=_MIRROR_LISTS + ["rf >= 2", "in_list(v, l)", "in_list(-v, m)"],
        loops={0: loop(invariant=["0 <= k and k <= len(l)", "count_defs(l, k, v) and count_defs(m, k, -v)",
                                  "count_gt_prefix(l, k, v) == count_lt_prefix(m, k, -v)"])},
        modifies=["L:e:list<float>"],
        props=["C13"], note="rung promotion: maximising over values equals minimising over their negations (count of better "
                            "values proved mirror-symmetric by induction over the list, then the two contracts)")


@R.specfunc()
def mirrored_trials(eng, st, t, u):
    """u reported, at exactly the same steps, the negations of what t reported."""
    d1, d2 = _iv(eng, st, t), _iv(eng, st, u)
    k = z3.Int("mt_k")
    kk = SV(KInt, k)
    h1, h2 = eng.dict_has(st, d1, kk), eng.dict_has(st, d2, kk)
    v1, v2 = eng.dict_get(st, d1, kk).term, eng.dict_get(st, d2, kk).term
    return SV(KBool, z3.And(eng.dict_size(st, d1) == eng.dict_size(st, d2),
                            qforall([k], z3.And(h1 == h2, z3.Implies(h1, v2 == f_neg(v1))), patterns=[h1, h2])))


R.lemma("threshold-mirror", """
    a = p.prune(study, t)
    b = q.prune(study2, u)
    assert a == b
""", module="optuna.pruners._threshold",
        params={"p": "ThresholdPruner", "q": "ThresholdPruner", "t": "FrozenTrial", "u": "FrozenTrial", "study": "Study", "study2": "Study"},
        requires=["p._interval_steps >= 1", "p._n_warmup_steps >= 0", "steps_nonneg(t)", "steps_nonneg(u)", "mirrored_trials(t, u)",
                  "q._interval_steps == p._interval_steps", "q._n_warmup_steps == p._n_warmup_steps",
                  "q._lower == -p._upper", "q._upper == -p._lower"],
        props=["C13"], note="threshold pruner with mirrored bounds decides identically on negated reports")


R.lemma("patient-mirror", """
    a = p.prune(study, t)
    b = q.prune(study2, u)
    assert a == b
""", module="optuna.pruners._patient",
        params={"p": "PatientPruner", "q": "PatientPruner", "t": "FrozenTrial", "u": "FrozenTrial", "study": "Study", "study2": "Study"},
        requires=["p._patience >= 0", "p._min_delta >= 0.0", "q._patience == p._patience", "q._min_delta == p._min_delta",
                  "mirrored_trials(t, u)", "study._directions[0] == StudyDirection.MAXIMIZE", "study2._directions[0] == StudyDirection.MINIMIZE",
                  "len(study._directions) == 1 and len(study2._directions) == 1",
                  "(p._wrapped_pruner is None) == (q._wrapped_pruner is None)",
                  # the wrapped pruners are themselves mirror-symmetric
                  "implies(p._wrapped_pruner is not None, wrapped_decision(p._wrapped_pruner, study, t) == wrapped_decision(q._wrapped_pruner, study2, u))"],
        props=["C13"], note="patience test: maximising on reports equals minimising on their negations")


R.lemma("best-own-mirror", """
    a = _get_best_intermediate_result_over_steps(t, StudyDirection.MAXIMIZE)
    b = _get_best_intermediate_result_over_steps(u, StudyDirection.MINIMIZE)
    assert b is -a
""", module="optuna.pruners._percentile", params={"t": "FrozenTrial", "u": "FrozenTrial"},
        requires=["len(t.intermediate_values) > 0", "mirrored_trials(t, u)"],
        props=["C13"], note="the best own intermediate value under maximisation is minus the best of the negated reports under minimisation")


# --- successive halving: the rung loop ---------------------------------------------------------------------------------------
R.schema("SuccessiveHalvingPruner", {"_min_resource": "int | None", "_reduction_factor": "int", "_min_early_stopping_rate": "int",
                                     "_bootstrap_count": "int"})
R.spec(SHA, "_completed_rung_key", inline=True)
R.spec("optuna/trial/_frozen.py", "FrozenTrial.system_attrs", inline=True)


def _rung_key(r):
    V = val_sort()
    return uf("str_format_1", z3.StringSort(), V, z3.StringSort())(z3.StringVal("completed_rung_{}"), V.vint(r))


def _sattrs(eng, st, t):
    return eng.get_field(st, t, "_system_attrs")


@R.specfunc()
def has_rung(eng, st, trial, r):
    return SV(KBool, eng.dict_has(st, _sattrs(eng, st, trial), SV(KStr, _rung_key(r.term))))


R.spec(SHA, "_get_current_rung", props=["C16"], types={"trial": "FrozenTrial"}, returns_kind="int",
       cases=[case("ok", ensures=["result >= 0", "not has_rung(trial, result)",
                                  "forall(lambda r: implies(0 <= r and r < result, has_rung(trial, r)))"])],
       loops={0: loop(invariant=["rung >= 0", "forall(lambda r: implies(0 <= r and r < rung, has_rung(trial, r)))"], locals={"rung": "int"})},
       modifies=[])

R.spec(SHA, "_estimate_min_resource", props=["C16"], types={"trials": "list[FrozenTrial]"}, returns_kind="int | None",
       locals={"n_steps": "list[int]"},
       cases=[case("ok", ensures=["result is None or result >= 1", "old_lists_unchanged()"])], modifies=["L:*:list<int>", "G:is_tuple"])


@R.specfunc()
def competing_ok(eng, st, result, trials, value, rung_key):
    """The list ends with the trial's own value; every earlier entry is the value some listed trial recorded under rung_key."""
    n = eng.list_len(st, result)
    i = z3.Int("co_i")
    w = z3.Int("co_w")
    t = eng.list_get(st, trials, w)
    d = _sattrs(eng, st, t)
    v = eng.dict_get(st, d, rung_key).term
    e = eng.list_get(st, result, i).term
    from pyvc import lib
    return SV(KBool, z3.And(n >= 1, eng.list_get(st, result, n - 1).term == value.term,
                            qforall([i], z3.Implies(z3.And(0 <= i, i < n - 1),
                                                    z3.Exists([w], z3.And(0 <= w, w < eng.list_len(st, trials), eng.dict_has(st, d, rung_key),
                                                                          e == lib.val_to_float_term(v)))), patterns=[e])))


R.spec(SHA, "_get_competing_values", props=["C16"], types={"trials": "list[FrozenTrial]"}, returns_kind="list[float]",
       requires=["rung_values_are_floats(trials, rung_key)"],
       cases=[case("ok", ensures=["fresh(result)", "competing_ok(result, trials, value, rung_key)", "old_lists_unchanged()"])],
       modifies=["L:*:list<float>", "L:*:list<val>", "G:is_tuple"])


@R.specfunc()
def rung_values_are_floats(eng, st, trials, rung_key):
    """Record schema of the rung attributes (what prune itself writes): a non-NaN float."""
    V = val_sort()
    i = z3.Int("rv_i")
    t = eng.list_get(st, trials, i)
    d = _sattrs(eng, st, t)
    v = eng.dict_get(st, d, rung_key).term
    return SV(KBool, qforall([i], z3.Implies(z3.And(0 <= i, i < eng.list_len(st, trials), eng.dict_has(st, d, rung_key)),
                                             z3.And(V.is_vflt(v), z3.Not(f_is_nan(V.f(v))))), patterns=[t.term]))


R.spec("optuna/storages/_base.py", "BaseStorage.set_trial_system_attr", trusted=True, types={"value": "Any"},
       cases=[case("raises", when="nondet()", raises="Exception"), case("ok")],
       note="assumed: records the attribute (or raises); objects already handed out are not changed (C20)")


@R.specfunc()
def rung_schema(eng, st, trials):
    """Record schema of `completed_rung_<k>` attributes (what prune itself writes, after its NaN test): non-NaN floats."""
    V = val_sort()
    i, r = z3.Int("rs_i"), z3.Int("rs_r")
    t = eng.list_get(st, trials, i)
    d = _sattrs(eng, st, t)
    key = SV(KStr, _rung_key(r))
    v = eng.dict_get(st, d, key).term
    return SV(KBool, qforall([i, r], z3.Implies(z3.And(0 <= i, i < eng.list_len(st, trials), eng.dict_has(st, d, key)),
                                                z3.And(V.is_vflt(v), z3.Not(f_is_nan(V.f(v))))), patterns=[eng.dict_has(st, d, key)]))


_gt.cases[0].ensures.append("rung_schema(result)")


@R.specfunc()
def beats_every_rung_value(eng, st, value, direction):
    """`value` (not NaN) is strictly better than every value any listed trial recorded at any rung."""
    trials = st.ghost.get("get_trials_result")
    if trials is None:
        return SV(KBool, z3.Not(f_is_nan(value.term)))
    from pyvc import lib
    i, r = z3.Int("be_i"), z3.Int("be_r")
    t = eng.list_get(st, trials, i)
    d = _sattrs(eng, st, t)
    key = SV(KStr, _rung_key(r))
    v = lib.val_to_float_term(eng.dict_get(st, d, key).term)
    better = z3.If(direction.term == 2, f_lt(v, value.term), f_lt(value.term, v))
    return SV(KBool, z3.And(z3.Not(f_is_nan(value.term)),
                            qforall([i, r], z3.Implies(z3.And(0 <= i, i < eng.list_len(st, trials), r >= 0, eng.dict_has(st, d, key)), better),
                                    patterns=[eng.dict_has(st, d, key)])))


@R.specfunc()
def old_lists_unchanged(eng, st):
    """Every list object allocated before the call keeps its length and contents."""
    ctx = eng.spec_stack[-1]
    conj = []
    r = z3.Int("olu_r")
    for name, arr in st.heap.items():
        a0 = ctx.pre_heap.get(name)
        if a0 is None or z3.eq(a0, arr) or not name.startswith("L:") or "@oldview" in name:      # (@oldview: ghost of old_list())
            continue
        conj.append(qforall([r], z3.Implies(z3.And(0 <= r, r < ctx.pre_nref), arr[r] == a0[r]), patterns=[arr[r], a0[r]]))
    return SV(KBool, z3.And(conj) if conj else z3.BoolVal(True))


def _exists(vs, body, pat):
    """Exists with an explicit pattern when z3 accepts it (patterns must not contain ite/arith), else z3's own choice."""
    try:
        return z3.Exists(vs, body, patterns=[z3.simplify(pat)])
    except z3.Z3Exception:
        return z3.Exists(vs, body)


@R.specfunc()
def reached_a_rung(eng, st, self_sv, step):
    """step >= min_resource * reduction_factor ** e for some exponent e >= min_early_stopping_rate: the trial has reached a
    rung of its bracket (in particular step >= min_resource * reduction_factor ** min_early_stopping_rate)."""
    mr = eng.get_field(st, self_sv, "_min_resource")
    mrt = sort_of(mr.kind).v(mr.term) if isinstance(mr.kind, KOpt) else mr.term
    rf = eng.get_field(st, self_sv, "_reduction_factor").term
    rate = eng.get_field(st, self_sv, "_min_early_stopping_rate").term
    e = z3.Int("rr_e")
    p = uf("int_pow", I, I, I)(rf, e)
    return SV(KBool, _exists([e], z3.And(e >= rate, step.term >= mrt * p), p))


R.spec(SHA, "SuccessiveHalvingPruner.prune", props=["C16"], types={"study": "Study", "trial": "FrozenTrial"}, returns_kind="bool",
       requires=["self._reduction_factor >= 2", "self._min_early_stopping_rate >= 0", "self._bootstrap_count >= 0",
                 "self._min_resource is None or self._min_resource >= 1", "steps_nonneg(trial)", "len(study._directions) == 1"],
       cases=[case("nothing-reported", when="len(trial.intermediate_values) == 0", returns="False"),
              case("ok", any_outcome=True, ensures_return=[
                  # never before a rung of the trial's bracket is reached
                  "implies(result, reached_a_rung(self, last_step_of(trial)))",
                  # without bootstrap, a (non-NaN) value that beats everything recorded at any rung is never pruned
                  "implies(self._bootstrap_count == 0 and beats_every_rung_value(trial.intermediate_values[last_step_of(trial)], study._directions[0]), not result)",
              ], ensures=["old_lists_unchanged()"])],
       loops={0: loop(invariant=["rung >= 0", "self._min_resource is None or self._min_resource >= 1", "old_lists_unchanged()",
                                 "trials is None or (fresh(trials) and rung_schema(trials) and trials is g_trials())"],
                      locals={"rung": "int", "trials": "list[FrozenTrial] | None"},
                      modifies=["F:SuccessiveHalvingPruner._min_resource", "L:*", "G:is_tuple"])},
       locals={"trials": "list[FrozenTrial] | None"},
       modifies=["F:SuccessiveHalvingPruner._min_resource", "L:*", "G:is_tuple"])


@R.specfunc()
def g_trials(eng, st):
    r = st.ghost.get("get_trials_result")
    return r if r is not None else SV(KList(KRef("FrozenTrial")), z3.IntVal(0))


# --- hyperband: delegation to the successive-halving pruner of the trial's own bracket -----------------------------------------
R.schema("HyperbandPruner", dict(R.schemas["HyperbandPruner"], _min_resource="int", _reduction_factor="int", _bootstrap_count="int"))


@R.specfunc()
def hb_initialised(eng, st, self_sv):
    """State after a successful initialisation: one successive-halving pruner per bracket, bracket b starting at rung b
    (min_early_stopping_rate == b), all with the Hyperband pruner's reduction factor and bootstrap count; budgets positive."""
    pr = eng.get_field(st, self_sv, "_pruners")
    nb = eng.get_field(st, self_sv, "_n_brackets")
    nbt = sort_of(nb.kind).v(nb.term) if isinstance(nb.kind, KOpt) else nb.term
    b = z3.Int("hi_b")
    p = eng.list_get(st, pr, b)
    g = lambda f: eng.get_field(st, p, f).term
    mr = eng.get_field(st, p, "_min_resource")
    mrt = sort_of(mr.kind).v(mr.term) if isinstance(mr.kind, KOpt) else mr.term
    mr_some = sort_of(mr.kind).is_some(mr.term) if isinstance(mr.kind, KOpt) else z3.BoolVal(True)
    budgets = eng.get_field(st, self_sv, "_trial_allocation_budgets")
    return SV(KBool, z3.And(
        eng.is_none(st, nb) == z3.BoolVal(False) if False else z3.Not(eng.is_none(st, nb)),
        nbt == eng.list_len(st, pr), nbt >= 1, eng.list_len(st, budgets) == nbt,
        eng.get_field(st, self_sv, "_total_trial_allocation_budget").term >= 1,
        qforall([b], z3.Implies(z3.And(0 <= b, b < nbt), z3.And(
            p.term > 0, g("_min_early_stopping_rate") == b, g("_reduction_factor") == eng.get_field(st, self_sv, "_reduction_factor").term,
            g("_reduction_factor") >= 2, g("_bootstrap_count") == eng.get_field(st, self_sv, "_bootstrap_count").term, g("_bootstrap_count") >= 0,
            z3.Or(z3.Not(mr_some), mrt >= 1))), patterns=[p.term])))


R.spec(HB, "HyperbandPruner._try_initialization", trusted=True, types={"study": "Study"},
       cases=[case("ok", ensures=["len(self._pruners) == 0 or (hb_initialised(self) and prefix_axioms(self) and "
                                  "self._total_trial_allocation_budget == budget_prefix(self, len(self._trial_allocation_budgets)))",
                                  "only_fresh_modified_except_self(self)"])],
       modifies=["F:HyperbandPruner.*", "F:SuccessiveHalvingPruner.*", "L:*:list<ref:SuccessiveHalvingPruner>", "L:*:list<int>", "G:is_tuple"],
       note="assumed: initialisation (log/ceil arithmetic over max_resource) either leaves the pruner uninitialised or builds one "
            "SuccessiveHalvingPruner per bracket with min_early_stopping_rate = bracket index and positive budgets")


@R.specfunc()
def only_fresh_modified_except_self(eng, st, self_sv):
    ctx = eng.spec_stack[-1]
    conj = []
    r = z3.Int("ofs_r")
    for name, arr in st.heap.items():
        a0 = ctx.pre_heap.get(name)
        if a0 is None or z3.eq(a0, arr) or name.startswith("G:"):
            continue
        conj.append(qforall([r], z3.Implies(z3.And(0 <= r, r < ctx.pre_nref, r != self_sv.term), arr[r] == a0[r]), patterns=[arr[r], a0[r]]))
    return SV(KBool, z3.And(conj) if conj else z3.BoolVal(True))


R.spec(HB, "HyperbandPruner._create_bracket_study", trusted=True, types={"study": "Study"}, returns_kind="Study",
       cases=[case("ok", ensures=["fresh(result)", "result._directions is study._directions", "result.study_name == study.study_name",
                                  "result._storage is study._storage", "only_fresh_modified()"])],
       modifies=["F:Study.*"],
       note="assumed: the bracket study is a view of the same study (same name, storage, directions) whose get_trials is filtered")


@R.specfunc()
def own_bracket_reached(eng, st, self_sv, study, trial):
    """The trial's step reached a rung of the successive-halving pruner of ITS OWN bracket (the bracket whose budget interval
    contains crc32(name_number) mod total budget)."""
    pr = eng.get_field(st, self_sv, "_pruners")
    b = z3.Int("ob_b")
    p = eng.list_get(st, pr, b)
    h = R.specfuncs["bracket_hash"](eng, st, self_sv, study, trial).term
    lo = R.specfuncs["budget_prefix"](eng, st, self_sv, SV(KInt, b)).term
    hi = R.specfuncs["budget_prefix"](eng, st, self_sv, SV(KInt, b + 1)).term
    step = R.specfuncs["last_step_of"](eng, st, trial)
    reached = R.specfuncs["reached_a_rung"](eng, st, p, step).term
    return SV(KBool, _exists([b], z3.And(0 <= b, b < eng.list_len(st, pr), lo <= h, h < hi, reached), p.term))


R.spec(HB, "HyperbandPruner.prune", props=["C16"], types={"study": "Study", "trial": "FrozenTrial"}, returns_kind="bool",
       requires=["len(self._pruners) == 0 or (hb_initialised(self) and prefix_axioms(self) and "
                 "self._total_trial_allocation_budget == budget_prefix(self, len(self._trial_allocation_budgets)))",
                 "steps_nonneg(trial)", "len(study._directions) == 1", "self._n_brackets is None or self._n_brackets == len(self._pruners) or len(self._pruners) == 0"],
       cases=[case("ok", any_outcome=True, ensures_return=[
           # a Hyperband prune decision is the decision of the successive-halving pruner of the trial's own bracket: in
           # particular never before a rung of that bracket is reached
           "implies(result, len(trial.intermediate_values) > 0 and own_bracket_reached(self, study, trial))"])],
       modifies=["F:HyperbandPruner.*", "F:SuccessiveHalvingPruner.*", "F:Study.*", "L:*", "G:is_tuple"])
