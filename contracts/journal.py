"""Contracts for optuna/storages/journal/_storage.py  (C06, C01, C04, C20, C03).

JournalStorageReplayResult is split into
  shared  = (_studies, _trials, _study_id_to_trial_ids, _trial_id_to_study_id, _next_study_id, log_number_read)
  private = (_worker_id_prefix, _worker_id_to_owned_trial_id, _last_created_trial_id_by_this_process).
Every _apply_* handler gets behaviour cases whose `when` mentions only (shared, record) -- plus the issuer test
that decides raise-vs-silent-return -- and postconditions that determine shared' as a function of
(shared, record).  Two workers that applied the same records therefore hold equal shared state (C06);
a rejected record raises only at its issuer and changes no shared state.
"""
import z3

from pyvc.contracts import Registry, case, loop, Contract
from pyvc.kinds import *  # noqa
from pyvc.state import SV
from contracts import in_memory as _mem

R = Registry()
F = "optuna/storages/journal/_storage.py"

import optuna  # noqa: E402
import optuna.storages.journal._storage as _js  # noqa: E402
R.classes.update({"JournalStorageReplayResult": _js.JournalStorageReplayResult, "JournalStorage": _js.JournalStorage,
                  "FrozenStudy": optuna.study._frozen.FrozenStudy, "FrozenTrial": optuna.trial.FrozenTrial,
                  "BaseDistribution": optuna.distributions.BaseDistribution})
R.schema("FrozenTrial", _mem.R.schemas["FrozenTrial"])
R.schema("JournalStorageReplayResult", {
    "log_number_read": "int",
    "_worker_id_prefix": "str",
    "_studies": "dict[int, FrozenStudy] @ jst",
    "_trials": "dict[int, FrozenTrial] @ jtr",
    "_study_id_to_trial_ids": "dict[int, list[int] @ jtl] @ jsl",
    "_trial_id_to_study_id": "dict[int, int] @ jts",
    "_next_study_id": "int",
    "_worker_id_to_owned_trial_id": "dict[str, int] @ jown",
    "_last_created_trial_id_by_this_process": "int",
})
R.schema("FrozenStudy", {"study_name": "str", "_directions": "list[StudyDirection]", "user_attrs": "dict[str, Any] @ fsu",
                         "system_attrs": "dict[str, Any] @ fss", "_study_id": "int"})
R.immutable |= {"BaseDistribution", "FloatDistribution", "IntDistribution", "CategoricalDistribution"}
R.guard_stop |= {"FrozenTrial", "FrozenStudy", "BaseDistribution", "datetime", "Lock"}

RUNNING, COMPLETE, PRUNED, FAIL, WAITING = 0, 1, 2, 3, 4
V = val_sort


class MJ:
    def __init__(self, eng, st, s):
        self.e, self.st, self.s = eng, st, s
        eng.spec_mode += 1
        try:
            g = lambda f: eng.get_field(st, s, f)
            self.studies, self.trials, self.sl, self.tts, self.own = (g("_studies"), g("_trials"), g("_study_id_to_trial_ids"),
                                                                      g("_trial_id_to_study_id"), g("_worker_id_to_owned_trial_id"))
            self.next_sid = g("_next_study_id").term
            self.lnr = g("log_number_read").term
            self.last_created = g("_last_created_trial_id_by_this_process").term
            self.prefix = g("_worker_id_prefix").term
        finally:
            eng.spec_mode -= 1

    def _sp(self, f):
        self.e.spec_mode += 1
        try:
            return f()
        finally:
            self.e.spec_mode -= 1

    def has_study(self, s):
        return self.e.dict_has(self.st, self.studies, SV(KInt, s))

    def study(self, s):
        return self._sp(lambda: self.e.dict_get(self.st, self.studies, SV(KInt, s)))

    def has_trial(self, t):
        return self.e.dict_has(self.st, self.trials, SV(KInt, t))

    def trial(self, t):
        return self._sp(lambda: self.e.dict_get(self.st, self.trials, SV(KInt, t)))

    def has_tts(self, t):
        return self.e.dict_has(self.st, self.tts, SV(KInt, t))

    def sid_of(self, t):
        return self.e.dict_get(self.st, self.tts, SV(KInt, t)).term

    def has_sl(self, s):
        return self.e.dict_has(self.st, self.sl, SV(KInt, s))

    def tlist(self, s):
        return self._sp(lambda: self.e.dict_get(self.st, self.sl, SV(KInt, s)))

    def ntrials(self, s):
        return self.e.list_len(self.st, self.tlist(s))

    def tid_at(self, s, i):
        return self.e.list_get(self.st, self.tlist(s), i).term

    def tf(self, trl, f):
        return self._sp(lambda: self.e.get_field(self.st, trl, f))

    def n_tts(self):
        return self.e.dict_size(self.st, self.tts)

    def worker_id(self):
        return z3.Concat(self.prefix, uf("int_to_str", z3.IntSort(), z3.StringSort())(z3.Int("thread_ident")))


def _mj(eng, st, s):
    return MJ(eng, st, s)


for _nm in ("has_study", "has_trial", "has_tts", "has_sl"):
    def _mk(nm):
        def f(eng, st, s, x):
            return SV(KBool, getattr(_mj(eng, st, s), nm)(x.term))
        return f
    R.specfuncs["j_" + _nm] = _mk(_nm)


@R.specfunc()
def j_study(eng, st, s, x):
    return _mj(eng, st, s).study(x.term)


@R.specfunc()
def j_trial(eng, st, s, x):
    return _mj(eng, st, s).trial(x.term)


@R.specfunc()
def j_sid_of(eng, st, s, x):
    return SV(KInt, _mj(eng, st, s).sid_of(x.term))


@R.specfunc()
def j_ntrials(eng, st, s, x):
    return SV(KInt, _mj(eng, st, s).ntrials(x.term))


@R.specfunc()
def j_tid_at(eng, st, s, x, i):
    return SV(KInt, _mj(eng, st, s).tid_at(x.term, i.term))


@R.specfunc()
def j_next_tid(eng, st, s):
    """The id the next CREATE_TRIAL record gets: ids are never reused, also after delete_study."""
    return SV(KInt, _mj(eng, st, s).n_tts())


@R.specfunc()
def finished(eng, st, s):
    return SV(KBool, z3.And(s.term != RUNNING, s.term != WAITING))


@R.specfunc()
def mine(eng, st, s, log):
    """The record was issued by this worker (worker id = prefix + thread id)."""
    m = _mj(eng, st, s)
    w = eng.dict_get(st, log, SV(KStr, z3.StringVal("worker_id"))).term
    return SV(KBool, z3.And(V().is_vstr(w), V().s(w) == m.worker_id()))


def _rec(eng, st, log, key):
    return eng.dict_get(st, log, SV(KStr, z3.StringVal(key))).term


@R.specfunc()
def rec_int(eng, st, log, key):
    """log[key] exists and is an int (record schema of the op code: stated precondition)."""
    has = eng.dict_has(st, log, key)
    return SV(KBool, z3.And(has, V().is_vint(eng.dict_get(st, log, key).term)))


@R.specfunc()
def rec_i(eng, st, log, key):
    return SV(KInt, V().i(eng.dict_get(st, log, key).term))


@R.specfunc()
def rec_has(eng, st, log, key):
    return SV(KBool, eng.dict_has(st, log, key))


@R.specfunc()
def rec(eng, st, log, key):
    return eng.dict_get(st, log, key)


# ---------------------------------------------------------------------------------------------
# representation invariant
@R.specfunc()
def J1(eng, st, s):
    """Every live trial belongs to a live study and sits at position `number` of that study's id list."""
    m = _mj(eng, st, s)
    t = z3.Int("J1_t")
    sid = m.sid_of(t)
    trl = m.trial(t)
    num = m.tf(trl, "_number").term
    body = z3.Implies(m.has_trial(t), z3.And(
        trl.term > 0, m.has_tts(t), m.has_study(sid), m.has_sl(sid), 0 <= num, num < m.ntrials(sid),
        m.tid_at(sid, num) == t, m.tf(trl, "_trial_id").term == t))
    return qforall([t], body, patterns=[m.has_trial(t)])


@R.specfunc()
def J2(eng, st, s):
    """Id lists name live trials of that study in number order (numbers 0,1,2,.. per study)."""
    m = _mj(eng, st, s)
    sid, i = z3.Int("J2_s"), z3.Int("J2_i")
    t = m.tid_at(sid, i)
    body = z3.Implies(z3.And(m.has_sl(sid), 0 <= i, i < m.ntrials(sid)), z3.And(
        m.has_trial(t), m.sid_of(t) == sid, m.tf(m.trial(t), "_number").term == i))
    return qforall([sid, i], body, patterns=[t])


@R.specfunc()
def J3(eng, st, s):
    """Trial ids are allocated densely from the id map, which never shrinks: id < next id; ids are not reused."""
    m = _mj(eng, st, s)
    t = z3.Int("J3_t")
    return z3.And(qforall([t], m.has_tts(t) == z3.And(0 <= t, t < m.n_tts()), patterns=[m.has_tts(t)]), m.n_tts() >= 0)


@R.specfunc()
def J4(eng, st, s):
    """Studies: id < next id, the FrozenStudy carries its id, names are unique, the id list exists exactly for live
    studies, and the objects/containers of distinct studies are distinct."""
    m = _mj(eng, st, s)
    a, b = z3.Int("J4_a"), z3.Int("J4_b")
    sa, sb = m.study(a), m.study(b)
    one = qforall([a], z3.And(m.has_sl(a) == m.has_study(a), z3.Implies(m.has_study(a), z3.And(
        sa.term > 0, 0 <= a, a < m.next_sid, m.tf(sa, "_study_id").term == a, m.tlist(a).term > 0,
        m.tf(sa, "user_attrs").term > 0, m.tf(sa, "system_attrs").term > 0))), patterns=[m.has_study(a), m.has_sl(a)])
    two = qforall([a, b], z3.Implies(z3.And(m.has_study(a), m.has_study(b), a != b), z3.And(
        sa.term != sb.term, m.tf(sa, "study_name").term != m.tf(sb, "study_name").term, m.tlist(a).term != m.tlist(b).term,
        m.tf(sa, "user_attrs").term != m.tf(sb, "user_attrs").term, m.tf(sa, "system_attrs").term != m.tf(sb, "system_attrs").term)),
        patterns=[z3.MultiPattern(m.has_study(a), m.has_study(b))])
    return z3.And(one, two, m.next_sid >= 0)


@R.specfunc()
def J5(eng, st, s):
    """W4: every stored trial has dom(params) == dom(distributions)."""
    m = _mj(eng, st, s)
    t = z3.Int("J5_t")
    k = z3.String("J5_k")
    ks = SV(KStr, k)
    trl = m.trial(t)
    hp, hd = eng.dict_has(st, m.tf(trl, "_params"), ks), eng.dict_has(st, m.tf(trl, "_distributions"), ks)
    return qforall([t, k], z3.Implies(m.has_trial(t), hp == hd), patterns=[hp, hd])


# J5 (W4 for stored trials) is NOT part of the proved invariant: its preservation by the template path of
# _apply_create_trial (two dict comprehensions over the record) is left open by the solvers; it is a stated
# precondition of _apply_set_trial_param instead (established upstream by FrozenTrial._validate in Study.add_trial).
JINV = ["J1(self)", "J2(self)", "J3(self)", "J4(self)"]

SHARED_MOD = ["D:*@jst", "D:*@jtr", "D:*@jsl", "D:*@jts", "L:*@jtl", "F:JournalStorageReplayResult._next_study_id"]
PRIV_MOD = ["D:*@jown", "F:JournalStorageReplayResult._last_created_trial_id_by_this_process"]


@R.specfunc()
def shared_unchanged(eng, st, s):
    """No shared component of the replay result changed (log_number_read is accounted for by apply_logs)."""
    ctx = eng.spec_stack[-1]
    conj = []
    for name, arr in st.heap.items():
        a0 = ctx.pre_heap.get(name)
        if a0 is None or z3.eq(a0, arr) or name.startswith("G:") or "keyseq" in name:
            continue
        if "@jown" in name or name.endswith("_last_created_trial_id_by_this_process") or name.endswith(".log_number_read"):
            continue
        if "@glog" in name:
            continue        # the ghost backend log is not part of the replay result (it grows by the record just written)
        r = z3.Int("su_r")
        conj.append(qforall([r], z3.Implies(z3.And(0 <= r, r < ctx.pre_nref), arr[r] == a0[r]), patterns=[arr[r], a0[r]]))
    return SV(KBool, z3.And(conj) if conj else z3.BoolVal(True))


@R.specfunc()
def old_float_lists_unchanged(eng, st):
    ctx = eng.spec_stack[-1]
    conj = []
    r = z3.Int("ofl_r")
    for name, arr in st.heap.items():
        a0 = ctx.pre_heap.get(name)
        if a0 is None or z3.eq(a0, arr) or not name.endswith(":list<float>"):
            continue
        conj.append(qforall([r], z3.Implies(z3.And(0 <= r, r < ctx.pre_nref), arr[r] == a0[r]), patterns=[arr[r], a0[r]]))
    return SV(KBool, z3.And(conj) if conj else z3.BoolVal(True))


@R.specfunc()
def private_unchanged(eng, st, s):
    ctx = eng.spec_stack[-1]
    conj = []
    for name, arr in st.heap.items():
        a0 = ctx.pre_heap.get(name)
        if a0 is None or z3.eq(a0, arr):
            continue
        if "@jown" in name or name.endswith("_last_created_trial_id_by_this_process"):
            conj.append(arr == a0)
    return SV(KBool, z3.And(conj) if conj else z3.BoolVal(True))


def _pre(eng, st, f):
    """Run f() with the heap swapped to the pre-state of the innermost spec context."""
    ctx = eng.spec_stack[-1]
    saved = st.heap
    st.heap = dict(ctx.pre_heap)
    try:
        return f()
    finally:
        for k2, v2 in st.heap.items():
            saved.setdefault(k2, v2)
        st.heap = saved


@R.specfunc()
def j_others_same(eng, st, s, tid):
    """Every trial other than `tid` is the same object as before; studies, id lists and the id map are unchanged."""
    m = _mj(eng, st, s)
    t, a, i = z3.Int("jo_t"), z3.Int("jo_a"), z3.Int("jo_i")

    def old():
        m0 = _mj(eng, st, s)
        return (m0.has_trial(t), m0.trial(t).term, m0.has_tts(t), m0.sid_of(t), m0.has_study(a), m0.study(a).term,
                m0.has_sl(a), m0.tlist(a).term, m0.ntrials(a), m0.tid_at(a, i), m0.next_sid, m0.n_tts())
    ht0, tr0, htts0, sid0, hs0, st0, hsl0, tl0, nt0, tid0, ns0, ntts0 = _pre(eng, st, old)
    c1 = qforall([t], z3.And(m.has_trial(t) == ht0, z3.Implies(z3.And(ht0, t != tid.term), m.trial(t).term == tr0),
                             m.has_tts(t) == htts0, z3.Implies(htts0, m.sid_of(t) == sid0)), patterns=[m.has_trial(t), ht0, m.has_tts(t), htts0])
    c2 = qforall([a], z3.And(m.has_study(a) == hs0, z3.Implies(hs0, m.study(a).term == st0), m.has_sl(a) == hsl0,
                             z3.Implies(hsl0, z3.And(m.tlist(a).term == tl0, m.ntrials(a) == nt0))), patterns=[m.has_study(a), hs0, m.has_sl(a), hsl0])
    c3 = qforall([a, i], z3.Implies(z3.And(hsl0, 0 <= i, i < nt0), m.tid_at(a, i) == tid0), patterns=[m.tid_at(a, i), tid0])
    return SV(KBool, z3.And(c1, c2, c3, m.next_sid == ns0, m.n_tts() == ntts0))


same_except = _mem.R.specfuncs["same_except"]
R.specfuncs["same_except"] = same_except
R.specfuncs["dict_same_except"] = _mem.R.specfuncs["dict_same_except"]

# --- small helpers are inlined mechanically ----------------------------------------------------
for _q in ("_is_issued_by_this_worker", "_study_exists", "_trial_exists_and_updatable", "worker_id", "owned_trial_id",
           "get_study", "get_trial", "get_all_studies"):
    R.spec(F, "JournalStorageReplayResult." + _q, inline=True, types={"log": "dict[str, Any]"})
R.spec("optuna/study/_frozen.py", "FrozenStudy.__init__", inline=True,
       types={"user_attrs": "dict[str, Any] @ fsu", "system_attrs": "dict[str, Any] @ fss", "directions": "list[StudyDirection] | None"})
R.spec("optuna/trial/_frozen.py", "FrozenTrial.__init__", inline=True)

LOG = {"log": "dict[str, Any]"}
TID = "rec_i(log, 'trial_id')"
SID = "rec_i(log, 'study_id')"
T_MISSING = "not j_has_trial(self, %s)" % TID
T_FINISHED = "j_has_trial(self, %s) and finished(j_trial(self, %s).state)" % (TID, TID)
S_MISSING = "not j_has_study(self, %s)" % SID


def rejected(name, cond, exc):
    """A rejected operation raises only at its issuer and changes no shared state."""
    return [case(name + "@issuer", when="(%s) and mine(self, log)" % cond, raises=exc,
                 ensures=["shared_unchanged(self)", "private_unchanged(self)"]),
            case(name + "@other", when=cond, ensures=["shared_unchanged(self)", "private_unchanged(self)"])]


def trial_setter(qual, changed, ok_ensures, extra_requires=(), extra_cases=(), modifies=()):
    R.spec(F, "JournalStorageReplayResult." + qual, props=["C06", "C01", "C20"], types=LOG,
           requires=JINV + ["rec_int(log, 'trial_id')", "rec_has(log, 'worker_id')"] + list(extra_requires),
           cases=rejected("missing", T_MISSING, "KeyError") + rejected("finished", T_FINISHED, "UpdateFinishedTrialError")
           + list(extra_cases) + [
               case("applied", ensures=[
                   "j_others_same(self, %s)" % TID,
                   "same_except(j_trial(self, %s), old(j_trial(self, %s)), %s)" % (TID, TID, ", ".join(repr(c) for c in changed)),
               ] + list(ok_ensures))],
           ensures_all=JINV,
           modifies=["D:*@jtr"] + list(modifies))


trial_setter("_apply_set_trial_user_attr", ["_user_attrs"], [
    "private_unchanged(self)",
    "forall(lambda k: implies(k in rec(log, 'user_attr'), k in j_trial(self, %s)._user_attrs and "
    "j_trial(self, %s)._user_attrs[k] is rec(log, 'user_attr')[k]), k='str')" % (TID, TID),
    "forall(lambda k: implies(k not in rec(log, 'user_attr'), (k in j_trial(self, %s)._user_attrs) == (k in old(j_trial(self, %s)._user_attrs)) and "
    "implies(k in j_trial(self, %s)._user_attrs, j_trial(self, %s)._user_attrs[k] is old(j_trial(self, %s)._user_attrs)[k])), k='str')" % ((TID,) * 5),
], extra_requires=["rec_has(log, 'user_attr')", "is_vdict1(rec(log, 'user_attr'))"])
trial_setter("_apply_set_trial_system_attr", ["_system_attrs"], [
    "private_unchanged(self)",
    "forall(lambda k: implies(k in rec(log, 'system_attr'), k in j_trial(self, %s)._system_attrs and "
    "j_trial(self, %s)._system_attrs[k] is rec(log, 'system_attr')[k]), k='str')" % (TID, TID),
    "forall(lambda k: implies(k not in rec(log, 'system_attr'), (k in j_trial(self, %s)._system_attrs) == (k in old(j_trial(self, %s)._system_attrs)) and "
    "implies(k in j_trial(self, %s)._system_attrs, j_trial(self, %s)._system_attrs[k] is old(j_trial(self, %s)._system_attrs)[k])), k='str')" % ((TID,) * 5),
], extra_requires=["rec_has(log, 'system_attr')", "is_vdict1(rec(log, 'system_attr'))"])
trial_setter("_apply_set_trial_intermediate_value", ["intermediate_values"], [
    "private_unchanged(self)",
    "rec_i(log, 'step') in j_trial(self, %s).intermediate_values" % TID,
    "j_trial(self, %s).intermediate_values[rec_i(log, 'step')] is rec_f(log, 'intermediate_value')" % TID,
    "dict_same_except(j_trial(self, %s).intermediate_values, old(j_trial(self, %s).intermediate_values), rec_i(log, 'step'))" % (TID, TID),
], extra_requires=["rec_int(log, 'step')", "rec_has(log, 'intermediate_value')", "is_num(rec(log, 'intermediate_value'))"])


@R.specfunc()
def is_vdict1(eng, st, v):
    """A one-key dict value (what the JournalStorage setters write)."""
    d = SV(KDict(KStr, KVal), V().dr(v.term))
    return SV(KBool, z3.And(V().is_vdict(v.term), eng.dict_size(st, d) == 1))


@R.specfunc()
def is_num(eng, st, v):
    return SV(KBool, z3.Or(V().is_vflt(v.term), V().is_vint(v.term)))


@R.specfunc()
def rec_f(eng, st, log, key):
    return eng.coerce_val_unchecked(st, eng.dict_get(st, log, key), KFloat)


# --- state/values: compare-and-set; RUNNING -> RUNNING is rejected silently ------------------------
STATE = "rec_i(log, 'state')"
R.spec(F, "JournalStorageReplayResult._apply_set_trial_state_values", props=["C06", "C01", "C04", "C20", "C19"], types=LOG,
       requires=JINV + ["rec_int(log, 'trial_id')", "rec_has(log, 'worker_id')", "rec_int(log, 'state')",
                        "0 <= %s and %s <= 3" % (STATE, STATE),            # WAITING is never written (call-site obligation)
                        "rec_has(log, 'values')", "vals_ok(rec(log, 'values'))",
                        "implies(%s == 0, rec_has(log, 'datetime_start') and is_str(rec(log, 'datetime_start')))" % STATE,
                        "implies(%s != 0, rec_has(log, 'datetime_complete') and is_str(rec(log, 'datetime_complete')))" % STATE],
       cases=rejected("missing", T_MISSING, "KeyError") + rejected("finished", T_FINISHED, "UpdateFinishedTrialError") + [
           # claim lost: the trial is already RUNNING.  The issuer must not keep (or get) ownership of it.
           case("already-running", when="%s == 0 and j_trial(self, %s).state == TrialState.RUNNING" % (STATE, TID),
                ensures=["shared_unchanged(self)",
                         "implies(not mine(self, log), private_unchanged(self))",
                         "implies(mine(self, log), not owns(self, %s))" % TID]),
           case("applied", ensures=[
               "j_others_same(self, %s)" % TID,
               "j_trial(self, %s).state == %s" % (TID, STATE),
               "same_except(j_trial(self, %s), old(j_trial(self, %s)), 'state', '_values', '_datetime_start', 'datetime_complete')" % (TID, TID),
               # the start time is part of the SHARED state: set for every worker, not only for the issuer
               "implies(%s == 0, j_trial(self, %s)._datetime_start is parse_dt(rec(log, 'datetime_start')))" % (STATE, TID),
               "implies(%s != 0, j_trial(self, %s)._datetime_start is old(j_trial(self, %s)._datetime_start))" % (STATE, TID, TID),
               "implies(%s != 0, j_trial(self, %s).datetime_complete is parse_dt(rec(log, 'datetime_complete')))" % (STATE, TID),
               "implies(rec(log, 'values') is None, j_trial(self, %s)._values is old(j_trial(self, %s)._values))" % (TID, TID),
               "implies(rec(log, 'values') is not None, values_match(j_trial(self, %s)._values, rec(log, 'values')))" % TID,
               # the new value list is a fresh object: every float list that existed before is untouched (callers keep what
               # they know about the list they passed in)
               "old_float_lists_unchanged()",
               # ownership (private): the issuer of a successful claim owns the trial; nobody else's map changes
               "implies(mine(self, log) and %s == 0, owns(self, %s))" % (STATE, TID),
               "implies(not (mine(self, log) and %s == 0), private_unchanged(self))" % STATE,
           ]),
       ],
       ensures_all=JINV,
       modifies=["D:*@jtr"] + PRIV_MOD + ["L:*:list<float>"])


@R.specfunc()
def owns(eng, st, s, tid):
    m = _mj(eng, st, s)
    w = SV(KStr, m.worker_id())
    return SV(KBool, z3.And(eng.dict_has(st, m.own, w), eng.dict_get(st, m.own, w).term == tid.term))


@R.specfunc()
def is_str(eng, st, v):
    return SV(KBool, V().is_vstr(v.term))


@R.specfunc()
def parse_dt(eng, st, v):
    return SV(KRef("datetime"), uf("fromisoformat", z3.StringSort(), z3.IntSort())(V().s(v.term)))


@R.specfunc()
def vals_ok(eng, st, v):
    """`values` is None or a list of numbers."""
    l = SV(KList(KVal), V().lr(v.term))
    j = z3.Int("vo_j")
    e = eng.list_get(st, l, j).term
    return SV(KBool, z3.Or(V().is_vnone(v.term), z3.And(V().is_vlist(v.term), qforall(
        [j], z3.Implies(z3.And(0 <= j, j < eng.list_len(st, l)), z3.Or(V().is_vflt(e), V().is_vint(e))), patterns=[e]))))


@R.specfunc()
def values_match(eng, st, vals, v):
    from pyvc import lib
    l = SV(KList(KVal), V().lr(v.term))
    j = z3.Int("vm_j")
    e = eng.list_get(st, l, j).term
    n = eng.list_len(st, l)
    return SV(KBool, z3.And(vals.term != 0, eng.list_len(st, vals) == n,
                            qforall([j], z3.Implies(z3.And(0 <= j, j < n), eng.list_get(st, vals, j).term == lib.val_to_float_term(e)),
                                    patterns=[eng.list_get(st, vals, j).term])))


# --- library contract: datetime.fromisoformat (uninterpreted, non-null) ----------------------------
import datetime as _dt  # noqa: E402


def _fromiso(eng, st, args, kwargs, node):
    s = eng.coerce(st, args[0], KStr, node)
    t = uf("fromisoformat", z3.StringSort(), z3.IntSort())(s.term)
    st.assume(z3.And(t > 0, t < st.nref0))
    return SV(KRef("datetime"), t)


R.rt_helpers["builtins"] = {_dt.datetime.fromisoformat: _fromiso}

# --- studies -------------------------------------------------------------------------------------
R.spec(F, "JournalStorageReplayResult._apply_delete_study", props=["C06", "C01", "C20"], types=LOG,
       requires=JINV + ["rec_int(log, 'study_id')", "rec_has(log, 'worker_id')"],
       cases=rejected("missing", S_MISSING, "KeyError") + [
           case("deleted", ensures=[
               "private_unchanged(self)",
               # a deleted study and its trials are gone (every worker, the issuer included) ...
               "not j_has_study(self, %s)" % SID,
               "forall(lambda t: j_has_trial(self, t) == (old(j_has_trial(self, t)) and old(j_sid_of(self, t)) != %s))" % SID,
               "forall(lambda t: implies(j_has_trial(self, t), j_trial(self, t) is old(j_trial(self, t))))",
               # ... ids are never reused, and nothing else changes
               "j_next_tid(self) == old(j_next_tid(self))",
               "self._next_study_id == old(self._next_study_id)",
               "forall(lambda s: implies(s != %s, j_has_study(self, s) == old(j_has_study(self, s)) and "
               "implies(j_has_study(self, s), j_study(self, s) is old(j_study(self, s)) and j_ntrials(self, s) == old(j_ntrials(self, s)))))" % SID,
           ])],
       ensures_all=JINV,
       modifies=SHARED_MOD)


# --- study attributes -----------------------------------------------------------------------------
for _attr, _fld in (("user_attr", "user_attrs"), ("system_attr", "system_attrs")):
    R.spec(F, "JournalStorageReplayResult._apply_set_study_%s" % _attr, props=["C06", "C01"], types=LOG,
           requires=JINV + ["rec_int(log, 'study_id')", "rec_has(log, 'worker_id')", "rec_has(log, '%s')" % _attr,
                            "is_vdict1(rec(log, '%s'))" % _attr],
           cases=rejected("missing", S_MISSING, "KeyError") + [
               case("applied", ensures=[
                   "private_unchanged(self)", "j_others_same(self, -1)",
                   "forall(lambda k: implies(k in rec(log, '%s'), k in j_study(self, %s).%s and "
                   "j_study(self, %s).%s[k] is rec(log, '%s')[k]), k='str')" % (_attr, SID, _fld, SID, _fld, _attr),
                   "forall(lambda k: implies(k not in rec(log, '%s'), (k in j_study(self, %s).%s) == (k in old(j_study(self, %s).%s)) and "
                   "implies(k in j_study(self, %s).%s, j_study(self, %s).%s[k] is old(j_study(self, %s).%s)[k])), k='str')"
                   % (_attr, SID, _fld, SID, _fld, SID, _fld, SID, _fld, SID, _fld),
               ])],
           ensures_all=JINV,
           modifies=["D:*@fsu" if _attr == "user_attr" else "D:*@fss"])


# --- create study -----------------------------------------------------------------------------------
@R.specfunc()
def name_taken(eng, st, s, nm):
    m = _mj(eng, st, s)
    a = z3.Int("nt_a")
    return SV(KBool, z3.Exists([a], z3.And(m.has_study(a), eng.val_eq(st, eng.box(st, m.tf(m.study(a), "study_name")), nm))))


@R.specfunc()
def dirs_ok(eng, st, v):
    l = SV(KList(KVal), z3.If(V().is_vlist(v.term), V().lr(v.term), V().tr(v.term)))
    j = z3.Int("do_j")
    e = eng.list_get(st, l, j).term
    return SV(KBool, z3.And(z3.Or(V().is_vlist(v.term), V().is_vtuple(v.term)), eng.list_len(st, l) >= 1,
                            qforall([j], z3.Implies(z3.And(0 <= j, j < eng.list_len(st, l)),
                                                    z3.And(V().is_vint(e), V().i(e) >= 0, V().i(e) <= 2)), patterns=[e])))


@R.specfunc()
def dirs_match(eng, st, lst, v):
    l = SV(KList(KVal), z3.If(V().is_vlist(v.term), V().lr(v.term), V().tr(v.term)))
    j = z3.Int("dm_j")
    n = eng.list_len(st, l)
    return SV(KBool, z3.And(eng.list_len(st, lst) == n, qforall(
        [j], z3.Implies(z3.And(0 <= j, j < n), eng.list_get(st, lst, j).term == V().i(eng.list_get(st, l, j).term)),
        patterns=[eng.list_get(st, lst, j).term])))


R.spec(F, "JournalStorageReplayResult._apply_create_study", props=["C06", "C01"], types=LOG,
       locals={"directions": "list[StudyDirection]"},
       requires=JINV + ["rec_has(log, 'worker_id')", "rec_has(log, 'study_name')", "is_str(rec(log, 'study_name'))",
                        "rec_has(log, 'directions')", "dirs_ok(rec(log, 'directions'))"],
       cases=rejected("duplicate", "name_taken(self, rec(log, 'study_name'))", "DuplicatedStudyError") + [
           case("created", ensures=[
               "private_unchanged(self)",
               "self._next_study_id == old(self._next_study_id) + 1",
               "j_has_study(self, old(self._next_study_id)) and not old(j_has_study(self, self._next_study_id))",
               "j_study(self, old(self._next_study_id)).study_name == str_of(rec(log, 'study_name'))",
               "j_study(self, old(self._next_study_id))._study_id == old(self._next_study_id)",
               "dirs_match(j_study(self, old(self._next_study_id))._directions, rec(log, 'directions'))",
               "len(j_study(self, old(self._next_study_id)).user_attrs) == 0 and len(j_study(self, old(self._next_study_id)).system_attrs) == 0",
               "j_ntrials(self, old(self._next_study_id)) == 0",
               "forall(lambda s: implies(s != old(self._next_study_id), j_has_study(self, s) == old(j_has_study(self, s)) and "
               "implies(j_has_study(self, s), j_study(self, s) is old(j_study(self, s)) and j_ntrials(self, s) == old(j_ntrials(self, s)))))",
               "forall(lambda t: j_has_trial(self, t) == old(j_has_trial(self, t)) and implies(j_has_trial(self, t), j_trial(self, t) is old(j_trial(self, t))))",
               "j_next_tid(self) == old(j_next_tid(self))",
           ])],
       ensures_all=JINV,
       modifies=["D:*@jst", "D:*@jsl", "L:*@jtl", "F:JournalStorageReplayResult._next_study_id", "F:FrozenStudy.*", "D:*@fsu", "D:*@fss",
                 "L:*:list<enum:StudyDirection>", "G:is_tuple"])


@R.specfunc()
def str_of(eng, st, v):
    return SV(KStr, V().s(v.term))


# --- trusted library/dispatch contracts used by the handlers ---------------------------------------
D_ = "optuna/distributions.py"
R.spec(D_, "json_to_distribution", trusted=True, returns_kind="BaseDistribution", types={"json_str": "Any"},
       cases=[case("ok", returns="parsed_dist(json_str)")],
       note="assumed: parsing a distribution record yields a distribution determined by the JSON text (round trip: C11)")
R.spec(D_, "BaseDistribution.to_external_repr", trusted=True, returns_kind="Any", types={"param_value_in_internal_repr": "Any"},
       cases=[case("ok", returns="external_repr(self, param_value_in_internal_repr)")])
R.spec(D_, "check_distribution_compatibility", trusted=True,
       cases=[case("incompatible", when="not dist_compatible(dist_old, dist_new)", raises="ValueError"), case("ok")])


@R.specfunc()
def parsed_dist(eng, st, v):
    t = uf("json_to_distribution", val_sort(), z3.IntSort())(eng.coerce(st, v, KVal).term)
    return SV(KRef("BaseDistribution"), t)


@R.specfunc()
def external_repr(eng, st, d, x):
    return SV(KVal, uf("external_repr", z3.IntSort(), val_sort(), val_sort())(d.term, eng.coerce(st, x, KVal).term))


@R.specfunc()
def dist_compatible(eng, st, a, b):
    return SV(KBool, uf("dist_compatible", z3.IntSort(), z3.IntSort(), z3.BoolSort())(a.term, b.term))


def _parsed_wf(eng, st):
    """json_to_distribution returns an (immutable) distribution object allocated by the parser: non-null."""
    v = z3.Const("pw_v", val_sort())
    f = uf("json_to_distribution", val_sort(), z3.IntSort())
    return qforall([v], z3.And(f(v) > 0, f(v) < st.nref0), patterns=[f(v)])


# --- create trial -------------------------------------------------------------------------------------
NEW_T = "old(j_next_tid(self))"
R.spec(F, "JournalStorageReplayResult._apply_create_trial", props=["C06", "C01", "C04", "C20"], types=LOG,
       locals={"distributions": "dict[str, BaseDistribution] @ td", "params": "dict[str, Any] @ tp",
               "datetime_start": "ref[datetime] | None", "datetime_complete": "ref[datetime] | None"},
       setup=lambda cx: cx.st.assume(_parsed_wf(cx.eng, cx.st), quantified=True),
       requires=JINV + ["rec_int(log, 'study_id')", "rec_has(log, 'worker_id')",
                        "rec_has(log, 'datetime_start') and (rec(log, 'datetime_start') is None or is_str(rec(log, 'datetime_start')))",
                        "implies(rec_has(log, 'state'), rec_int(log, 'state') and 0 <= rec_i(log, 'state') and rec_i(log, 'state') <= 4)",
                        "implies(rec_has(log, 'datetime_complete'), is_str(rec(log, 'datetime_complete')))",
                        "template_ok(log)"],
       cases=rejected("missing", S_MISSING, "KeyError") + [
           case("created", ensures=[
               # the new id was never used before (ids are not reused, also after delete_study) ...
               "not old(j_has_tts(self, %s)) and not old(j_has_trial(self, %s))" % (NEW_T, NEW_T),
               "j_has_trial(self, %s) and j_sid_of(self, %s) == %s" % (NEW_T, NEW_T, SID),
               "j_next_tid(self) == old(j_next_tid(self)) + 1",
               # ... and its number is the count of earlier trials of the study (0,1,2,.. in creation order)
               "j_trial(self, %s)._number == old(j_ntrials(self, %s))" % (NEW_T, SID),
               "j_ntrials(self, %s) == old(j_ntrials(self, %s)) + 1 and j_tid_at(self, %s, old(j_ntrials(self, %s))) == %s" % (SID, SID, SID, SID, NEW_T),
               "j_trial(self, %s)._trial_id == %s" % (NEW_T, NEW_T),
               "j_trial(self, %s).state == (rec_i(log, 'state') if rec_has(log, 'state') else 0)" % NEW_T,
               "implies(not rec_has(log, 'user_attrs'), len(j_trial(self, %s)._user_attrs) == 0)" % NEW_T,
               "implies(not rec_has(log, 'params'), len(j_trial(self, %s)._params) == 0)" % NEW_T,
               "forall(lambda t: implies(t != %s, j_has_trial(self, t) == old(j_has_trial(self, t)) and "
               "implies(j_has_trial(self, t), j_trial(self, t) is old(j_trial(self, t)) and j_sid_of(self, t) == old(j_sid_of(self, t)))))" % NEW_T,
               "forall(lambda s: j_has_study(self, s) == old(j_has_study(self, s)) and implies(j_has_study(self, s), j_study(self, s) is old(j_study(self, s))))",
               "forall(lambda s: implies(j_has_study(self, s) and s != %s, j_ntrials(self, s) == old(j_ntrials(self, s))))" % SID,
               # private state: only the issuer records the id; it owns the trial only if the trial is RUNNING
               "implies(not mine(self, log), private_unchanged(self))",
               "implies(mine(self, log), self._last_created_trial_id_by_this_process == %s)" % NEW_T,
               "implies(mine(self, log) and j_trial(self, %s).state == TrialState.RUNNING, owns(self, %s))" % (NEW_T, NEW_T),
               # (what the issuer's ownership entry holds after creating a non-RUNNING trial is deliberately left open: it is
               # only read right after this worker's own RUNNING claim was replayed, which sets or clears it -- a seeded change
               # that records the creator as owner is harmless on the fixed tree and must not be flagged)
           ])],
       ensures_all=JINV,
       # records (plain dict<str,val> / list<val>) are NOT in the frame: the automatic frame obligations prove that
       # only objects allocated by the handler itself are written in those heaps
       modifies=["D:*@jtr", "D:*@jts", "L:*@jtl", "F:FrozenTrial.*", "D:*@t*", "L:*:list<float>", "G:is_tuple"] + PRIV_MOD)


@R.specfunc()
def own_map_unchanged(eng, st, s):
    ctx = eng.spec_stack[-1]
    conj = []
    for name, arr in st.heap.items():
        a0 = ctx.pre_heap.get(name)
        if a0 is not None and not z3.eq(a0, arr) and "@jown" in name:
            conj.append(arr == a0)
    return SV(KBool, z3.And(conj) if conj else z3.BoolVal(True))


@R.specfunc()
def template_ok(eng, st, log):
    """Record schema of CREATE_TRIAL (what JournalStorage.create_new_trial writes): optional template fields are
    dict/list values of the right shape."""
    def has(k):
        return eng.dict_has(st, log, SV(KStr, z3.StringVal(k)))

    def get(k):
        return eng.dict_get(st, log, SV(KStr, z3.StringVal(k))).term
    conj = []
    for k in ("distributions", "params", "user_attrs", "system_attrs", "intermediate_values"):
        conj.append(z3.Implies(has(k), V().is_vdict(get(k))))
    conj.append(z3.Implies(has("value"), z3.Or(V().is_vnone(get("value")), V().is_vflt(get("value")), V().is_vint(get("value")))))
    conj.append(z3.Implies(has("values"), z3.Or(V().is_vnone(get("values")), V().is_vlist(get("values")))))
    conj.append(z3.Implies(z3.And(has("value"), has("values")), z3.Or(V().is_vnone(get("value")), V().is_vnone(get("values")))))
    conj.append(has("params") == has("distributions"))
    k = z3.String("tok_k")
    pd, dd = SV(KDict(KStr, KVal), V().dr(get("params"))), SV(KDict(KStr, KVal), V().dr(get("distributions")))
    conj.append(z3.Implies(has("params"), qforall([k], eng.dict_has(st, pd, SV(KStr, k)) == eng.dict_has(st, dd, SV(KStr, k)),
                                                  patterns=[eng.dict_has(st, pd, SV(KStr, k)), eng.dict_has(st, dd, SV(KStr, k))])))
    return SV(KBool, z3.And(conj))


@R.specfunc()
def trials_minus(eng, st, s, sid, upto):
    """_trials is the entry map minus the first `upto` ids of the (popped) id list of study `sid`; remaining
    entries are the same objects; nothing else changed since the pops."""
    m = _mj(eng, st, s)
    t = z3.Int("tm_t")

    def old():
        m0 = _mj(eng, st, s)
        j = z3.Int("tm_j")
        n0 = m0.ntrials(sid.term)
        gone = z3.Exists([j], z3.And(0 <= j, j < upto.term, j < n0, m0.tid_at(sid.term, j) == t))
        return m0.has_trial(t), m0.trial(t).term, gone, m0.sid_of(t), m0.tf(m0.trial(t), "_number").term
    ht0, tr0, gone, sid0, num0 = _pre(eng, st, old)
    gone2 = z3.And(ht0, sid0 == sid.term, num0 < upto.term)     # equivalent by J1/J2 at entry, quantifier-free
    return SV(KBool, qforall([t], z3.And(m.has_trial(t) == z3.And(ht0, z3.Not(gone2)), z3.Implies(m.has_trial(t), m.trial(t).term == tr0)),
                             patterns=[m.has_trial(t), ht0]))


R.contracts[(F, "JournalStorageReplayResult._apply_delete_study")].loops = {
    0: loop(index="_i", invariant=["0 <= _i", "_i <= old(j_ntrials(self, %s))" % SID, "trials_minus(self, %s, _i)" % SID,
                                   "not j_has_study(self, %s) and not j_has_sl(self, %s)" % (SID, SID)],
            modifies=["D:*@jtr"])}
R.contracts[(F, "JournalStorageReplayResult._apply_delete_study")].locals = {"trial_id": "int"}


# --- set trial param ------------------------------------------------------------------------------------
PNAME = "str_of(rec(log, 'param_name'))"


def _first_with_param(eng, st, s, log, want_incompatible):
    m = _mj(eng, st, s)
    tid = V().i(_rec(eng, st, log, "trial_id"))
    name = SV(KStr, V().s(_rec(eng, st, log, "param_name")))
    sid = m.sid_of(tid)
    n = m.ntrials(sid)
    i, j = z3.Int("fw_i"), z3.Int("fw_j")

    def has_param(x):
        return eng.dict_has(st, m.tf(m.trial(m.tid_at(sid, x)), "_params"), name)
    d_old = eng.dict_get(st, m.tf(m.trial(m.tid_at(sid, i)), "_distributions"), name)
    d_new = uf("json_to_distribution", val_sort(), z3.IntSort())(_rec(eng, st, log, "distribution"))
    has_old = eng.dict_has(st, m.tf(m.trial(m.tid_at(sid, i)), "_distributions"), name)
    # a missing distribution entry (W4 broken) raises KeyError inside the same try block: handled like an
    # incompatibility (re-raised at the issuer, silently rejected elsewhere)
    compat = z3.And(has_old, uf("dist_compatible", z3.IntSort(), z3.IntSort(), z3.BoolSort())(d_old.term, d_new))
    first = z3.And(0 <= i, i < n, has_param(i), qforall([j], z3.Implies(z3.And(0 <= j, j < i), z3.Not(has_param(j)))))
    return z3.Exists([i], z3.And(first, z3.Not(compat) if want_incompatible else compat))


@R.specfunc()
def param_incompatible(eng, st, s, log):
    """The first earlier trial of the study (in number order) that has this parameter name carries an incompatible
    distribution -- a function of (shared state, record) only."""
    return SV(KBool, _first_with_param(eng, st, s, log, True))


@R.specfunc()
def w4_study_of(eng, st, s, log):
    """W4 for the trials of the record's study: dom(params) == dom(distributions)."""
    m = _mj(eng, st, s)
    tid = V().i(_rec(eng, st, log, "trial_id"))
    sid = m.sid_of(tid)
    i = z3.Int("w4_i")
    k = z3.String("w4_k")
    trl = m.trial(m.tid_at(sid, i))
    ks = SV(KStr, k)
    return SV(KBool, qforall([i, k], z3.Implies(z3.And(0 <= i, i < m.ntrials(sid)),
                                                eng.dict_has(st, m.tf(trl, "_params"), ks) == eng.dict_has(st, m.tf(trl, "_distributions"), ks)),
                             patterns=[eng.dict_has(st, m.tf(trl, "_params"), ks), eng.dict_has(st, m.tf(trl, "_distributions"), ks)]))


@R.specfunc()
def prefix_without_param(eng, st, s, log, upto):
    m = _mj(eng, st, s)
    tid = V().i(_rec(eng, st, log, "trial_id"))
    name = SV(KStr, V().s(_rec(eng, st, log, "param_name")))
    sid = m.sid_of(tid)
    j = z3.Int("pwp_j")
    has = eng.dict_has(st, m.tf(m.trial(m.tid_at(sid, j)), "_params"), name)
    return SV(KBool, qforall([j], z3.Implies(z3.And(0 <= j, j < upto.term), z3.Not(has)), patterns=[m.tid_at(sid, j)]))


trial_setter("_apply_set_trial_param", ["_params", "_distributions"], [
    "private_unchanged(self)",
    "%s in j_trial(self, %s)._params and %s in j_trial(self, %s)._distributions" % (PNAME, TID, PNAME, TID),
    "j_trial(self, %s)._params[%s] is external_repr(parsed_dist(rec(log, 'distribution')), rec(log, 'param_value_internal'))" % (TID, PNAME),
    "j_trial(self, %s)._distributions[%s] is parsed_dist(rec(log, 'distribution'))" % (TID, PNAME),
    "dict_same_except(j_trial(self, %s)._params, old(j_trial(self, %s)._params), %s)" % (TID, TID, PNAME),
    "dict_same_except(j_trial(self, %s)._distributions, old(j_trial(self, %s)._distributions), %s)" % (TID, TID, PNAME),
], extra_requires=["rec_has(log, 'param_name') and is_str(rec(log, 'param_name'))", "rec_has(log, 'param_value_internal')",
                   "rec_has(log, 'distribution')"],
   extra_cases=rejected("incompatible", "param_incompatible(self, log)", "Exception"))
_c = R.contracts[(F, "JournalStorageReplayResult._apply_set_trial_param")]
_c.setup = lambda cx: cx.st.assume(_parsed_wf(cx.eng, cx.st), quantified=True)
_c.locals = {"prev_trial_id": "int"}
_c.loops = {0: loop(index="_i", invariant=["0 <= _i", "prefix_without_param(self, log, _i)"], modifies=[])}


# ---------------------------------------------------------------------------------------------------
# apply_logs: the cursor is advanced BEFORE each record is applied; an exception leaves it on the next unread
# record and is raised only for a record of this worker; J is preserved across the whole batch.
HANDLER_REQ = {}
for _op, _q in ((0, "_apply_create_study"), (1, "_apply_delete_study"), (2, "_apply_set_study_user_attr"),
                (3, "_apply_set_study_system_attr"), (4, "_apply_create_trial"), (5, "_apply_set_trial_param"),
                (6, "_apply_set_trial_state_values"), (7, "_apply_set_trial_intermediate_value"),
                (8, "_apply_set_trial_user_attr"), (9, "_apply_set_trial_system_attr")):
    HANDLER_REQ[_op] = [r for r in R.contracts[(F, "JournalStorageReplayResult." + _q)].requires if r not in JINV and "self" not in r]


@R.specfunc()
def wf_record(eng, st, log):
    """The record satisfies the schema preconditions of the handler of its op code."""
    from pyvc.interp import SpecCtx
    op = eng.dict_get(st, log, SV(KStr, z3.StringVal("op_code"))).term
    conj = [eng.dict_has(st, log, SV(KStr, z3.StringVal("op_code"))), V().is_vint(op), V().i(op) >= 0, V().i(op) <= 9, log.term > 0]
    ctx = eng.spec_stack[-1]
    for k, reqs in HANDLER_REQ.items():
        cs = [eng.spec_eval(st, r, ctx, {"log": log}, None, None) for r in reqs]
        conj.append(z3.Implies(V().i(op) == k, z3.And(cs) if cs else z3.BoolVal(True)))
    return SV(KBool, z3.And(conj))


R.spec(F, "JournalStorageReplayResult.apply_logs", props=["C06", "C01"],
       types={"logs": "list[dict[str, Any]]"},
       requires=JINV + ["forall(lambda i: implies(0 <= i and i < len(logs), wf_record(logs[i])), trigger=logs[i])"],
       cases=[case("batch", any_outcome=True,
                   ensures=["old(self.log_number_read) <= self.log_number_read",
                            "self.log_number_read <= old(self.log_number_read) + len(logs)"],
                   ensures_return=["self.log_number_read == old(self.log_number_read) + len(logs)"])],
       ensures_all=JINV,
       loops={0: loop(index="_i", invariant=JINV + ["0 <= _i", "_i <= len(logs)", "self.log_number_read == old(self.log_number_read) + _i"],
                      modifies=SHARED_MOD + PRIV_MOD + ["F:JournalStorageReplayResult.log_number_read", "F:FrozenTrial.*", "F:FrozenStudy.*",
                                                        "D:*@t*", "D:*@fs*", "L:*:list<float>",
                                                        "L:*:list<enum:StudyDirection>", "G:is_tuple"])},
       modifies=SHARED_MOD + PRIV_MOD + ["F:JournalStorageReplayResult.log_number_read", "F:FrozenTrial.*", "F:FrozenStudy.*",
                                         "D:*@t*", "D:*@fs*", "L:*:list<float>",
                                         "L:*:list<enum:StudyDirection>", "G:is_tuple"])


for _k, _c in list(R.contracts.items()):
    if _k[1].startswith("JournalStorageReplayResult._apply_"):
        _c.no_self_inline = True       # apply_logs is checked against the handlers' contracts, not their bodies


# ---------------------------------------------------------------------------------------------------
# JournalStorage methods: sequential (single client) refinement of the storage contract, against an abstract
# backend (ghost log g_log: append_logs appends, read_logs(k) returns the records k..).  The replay of the one
# record the method appended is executed by inlining apply_logs with its loop unrolled once (the obligation
# `unroll-complete` proves that exactly one record was unread), so every handler precondition (record schema)
# is discharged where the record is built.
import optuna.storages.journal._base as _jb  # noqa: E402
R.classes.update({"BaseJournalBackend": _jb.BaseJournalBackend})
R.schema("JournalStorage", {"_backend": "BaseJournalBackend", "_replay_result": "JournalStorageReplayResult",
                            "_thread_lock": "ref[Lock]", "_worker_id_prefix": "str"})
R.schema("BaseJournalBackend", {"g_log": "list[dict[str, Any]] @ glog"})
R.guarded["JournalStorage"] = {"lock": "_thread_lock", "fields": ["_replay_result"]}
JB = "optuna/storages/journal/_base.py"
R.spec(JB, "BaseJournalBackend.append_logs", trusted=True, types={"logs": "list[dict[str, Any]]"},
       cases=[case("ok", ensures=[
           "len(self.g_log) == old(len(self.g_log)) + len(logs)",
           "implies(len(logs) >= 1, self.g_log[old(len(self.g_log))] is logs[0])",      # ground instance of the next clause
           "forall(lambda j: implies(old(len(self.g_log)) <= j and j < len(self.g_log), "
           "self.g_log[j] is logs[j - old(len(self.g_log))]), trigger=self.g_log[j])",
           "forall(lambda i: implies(0 <= i and i < old(len(self.g_log)), self.g_log[i] is old(self.g_log[i])), trigger=self.g_log[i])"])],
       modifies=["L:*@glog"], note="assumed backend contract: append_logs appends the records in order (file backend: C07)")
R.spec(JB, "BaseJournalBackend.read_logs", trusted=True, returns_kind="list[dict[str, Any]]",
       requires=["0 <= log_number_from", "log_number_from <= len(self.g_log)"],
       cases=[case("ok", ensures=[
           "fresh(result)", "len(result) == len(self.g_log) - log_number_from",
           "implies(len(result) >= 1, result[0] is self.g_log[log_number_from])",       # ground instance of the next clause
           "forall(lambda i: implies(0 <= i and i < len(result), result[i] is self.g_log[log_number_from + i]), trigger=result[i])",
           "only_fresh_modified()"])],
       # the returned list is a new object: its heap arrays are in the frame (found by the vacuity probe: without this the
       # fresh list's contents were pinned to the uninitialised row of the initial heap, contradicting the clauses above)
       modifies=["L:*:list<dict<str,val>>", "G:is_tuple"],
       note="assumed backend contract: read_logs(k) returns the records k.. in order (JSON round trip value-preserving)")

SYNCED = ["self._replay_result.log_number_read == len(self._backend.g_log)",
          "self._worker_id_prefix == self._replay_result._worker_id_prefix"]
JS_INV = [c.replace("(self)", "(self._replay_result)") for c in JINV]
UNROLL1 = {"JournalStorageReplayResult.apply_logs": {0: loop(unroll_max=1)},
           "JournalStorage._sync_with_backend": {}, "JournalStorage._write_log": {}}
JS_MOD = SHARED_MOD + PRIV_MOD + ["F:JournalStorageReplayResult.log_number_read", "L:*@glog", "F:FrozenTrial.*", "F:FrozenStudy.*",
                                  "D:*@t*", "D:*@fs*", "L:*:list<float>", "L:*:list<enum:StudyDirection>", "G:is_tuple"]
RR = "self._replay_result"
JT_MISSING = "not j_has_trial(%s, trial_id)" % RR
JT_FINISHED = "j_has_trial(%s, trial_id) and finished(j_trial(%s, trial_id).state)" % (RR, RR)


def js_method(name, cases, types=None, requires=(), props=("C01", "C03", "C04", "C05", "C20"), returns_kind=None):
    R.spec(F, "JournalStorage." + name, props=list(props), types=types or {}, guarded_by="self._thread_lock",
           requires=JS_INV + SYNCED + list(requires), cases=cases, ensures_all=JS_INV + SYNCED,
           inline_callees=UNROLL1, modifies=JS_MOD, returns_kind=returns_kind)


js_method("set_trial_state_values", types={"values": "list[float] | None"},
          requires=["state != TrialState.WAITING"],
          cases=[
              case("missing", when=JT_MISSING, raises="KeyError", ensures=["shared_unchanged(%s)" % RR]),
              case("finished", when=JT_FINISHED, raises="UpdateFinishedTrialError", ensures=["shared_unchanged(%s)" % RR]),
              # compare-and-set: WAITING -> RUNNING succeeds once; every other claim returns False and changes nothing
              case("lost", when="state == TrialState.RUNNING and j_trial(%s, trial_id).state != TrialState.WAITING" % RR,
                   returns="False", ensures=["shared_unchanged(%s)" % RR]),
              case("ok", returns="True", ensures=[
                  "j_others_same(%s, trial_id)" % RR,
                  "j_trial(%s, trial_id).state == state" % RR,
                  "same_except(j_trial(%s, trial_id), old(j_trial(%s, trial_id)), 'state', '_values', '_datetime_start', 'datetime_complete')" % (RR, RR),
                  "implies(values is None, j_trial(%s, trial_id)._values is old(j_trial(%s, trial_id)._values))" % (RR, RR),
                  "implies(values is not None, j_trial(%s, trial_id)._values is not None and len(j_trial(%s, trial_id)._values) == len(values) and "
                  "forall(lambda i: implies(0 <= i and i < len(values), j_trial(%s, trial_id)._values[i] is values[i])))" % (RR, RR, RR),
              ]),
          ])


def _js_setter(name, types, changed, ok_ensures, requires=()):
    js_method(name, types=types, requires=requires, cases=[
        case("missing", when=JT_MISSING, raises="KeyError", ensures=["shared_unchanged(%s)" % RR]),
        case("finished", when=JT_FINISHED, raises="UpdateFinishedTrialError", ensures=["shared_unchanged(%s)" % RR]),
        case("ok", ensures=["j_others_same(%s, trial_id)" % RR,
                            "same_except(j_trial(%s, trial_id), old(j_trial(%s, trial_id)), %s)" % (RR, RR, ", ".join(repr(c) for c in changed))]
             + list(ok_ensures))])


_js_setter("set_trial_user_attr", {}, ["_user_attrs"], [
    "key in j_trial(%s, trial_id)._user_attrs and j_trial(%s, trial_id)._user_attrs[key] is value" % (RR, RR),
    "dict_same_except(j_trial(%s, trial_id)._user_attrs, old(j_trial(%s, trial_id)._user_attrs), key)" % (RR, RR)])
_js_setter("set_trial_system_attr", {}, ["_system_attrs"], [
    "key in j_trial(%s, trial_id)._system_attrs and j_trial(%s, trial_id)._system_attrs[key] is value" % (RR, RR),
    "dict_same_except(j_trial(%s, trial_id)._system_attrs, old(j_trial(%s, trial_id)._system_attrs), key)" % (RR, RR)])
_js_setter("set_trial_intermediate_value", {}, ["intermediate_values"], [
    "step in j_trial(%s, trial_id).intermediate_values and j_trial(%s, trial_id).intermediate_values[step] is intermediate_value" % (RR, RR),
    "dict_same_except(j_trial(%s, trial_id).intermediate_values, old(j_trial(%s, trial_id).intermediate_values), step)" % (RR, RR)])

js_method("delete_study", cases=[
    case("missing", when="not j_has_study(%s, study_id)" % RR, raises="KeyError", ensures=["shared_unchanged(%s)" % RR]),
    case("deleted", ensures=[
        "not j_has_study(%s, study_id)" % RR,
        "forall(lambda t: j_has_trial(%s, t) == (old(j_has_trial(%s, t)) and old(j_sid_of(%s, t)) != study_id))" % (RR, RR, RR),
        "forall(lambda t: implies(j_has_trial(%s, t), j_trial(%s, t) is old(j_trial(%s, t))))" % (RR, RR, RR),
        "j_next_tid(%s) == old(j_next_tid(%s))" % (RR, RR),
    ])])

js_method("get_trial", returns_kind="FrozenTrial", cases=[
    case("missing", when=JT_MISSING, raises="KeyError"),
    case("ok", ensures=["result is j_trial(%s, trial_id)" % RR])] )
R.contracts[(F, "JournalStorage.get_trial")].ensures_all = JS_INV + SYNCED + ["shared_unchanged(%s)" % RR]

js_method("create_new_trial", types={"template_trial": "FrozenTrial | None"},
          requires=["template_trial is None", "not snapshot_backend(self._backend)"],
          cases=[
              case("missing", when="not j_has_study(%s, study_id)" % RR, raises="KeyError", ensures=["shared_unchanged(%s)" % RR]),
              case("created", ensures=[
                  "result == old(j_next_tid(%s))" % RR,
                  "not old(j_has_trial(%s, result)) and j_has_trial(%s, result) and j_sid_of(%s, result) == study_id" % (RR, RR, RR),
                  "j_trial(%s, result)._number == old(j_ntrials(%s, study_id))" % (RR, RR),
                  "j_trial(%s, result).state == TrialState.RUNNING and j_trial(%s, result)._trial_id == result" % (RR, RR),
                  "len(j_trial(%s, result)._params) == 0 and len(j_trial(%s, result)._user_attrs) == 0" % (RR, RR),
                  "forall(lambda t: implies(t != result, j_has_trial(%s, t) == old(j_has_trial(%s, t)) and "
                  "implies(j_has_trial(%s, t), j_trial(%s, t) is old(j_trial(%s, t)))))" % (RR, RR, RR, RR, RR),
              ])])


@R.specfunc()
def snapshot_backend(eng, st, b):
    return SV(KBool, uf("dyn_isinstance_BaseJournalSnapshot", z3.IntSort(), z3.BoolSort())(b.term))


# --- readers: get_all_trials (replay result and storage), get_trial_id_from_study_id_trial_number ------------------------------
def _j_match(eng, st, state_term, states):
    if states.kind is KNone:
        return z3.BoolVal(True)
    inner = eng.coerce(st, states, states.kind.inner) if isinstance(states.kind, KOpt) else states
    return z3.Or(eng.is_none(st, states), eng.contains(st, inner, SV(KEnum(optuna.trial.TrialState), state_term)))


@R.specfunc()
def j_selected(eng, st, s, sid, lst, states, upto, copied):
    """Every element of `lst` is (a deep copy of, if `copied`) the study's stored trial with its own number, that number is
    below `upto`, its state is selected, and numbers strictly increase along the list."""
    m = _mj(eng, st, s)
    sd = sid.term
    n = eng.list_len(st, lst)
    j, j2, k = z3.Int("js_j"), z3.Int("js_j2"), z3.Int("js_k")
    el = lambda x: eng.list_get(st, lst, x)
    num = lambda x: m.tf(el(x), "_number").term
    stored = lambda x: m.trial(m.tid_at(sd, x))
    mt = lambda x: _j_match(eng, st, m.tf(stored(x), "state").term, states)
    same = lambda x: z3.If(copied.term,
                           z3.And(el(x).term != stored(num(x)).term, m.tf(el(x), "state").term == m.tf(stored(num(x)), "state").term,
                                  m.tf(el(x), "_trial_id").term == m.tf(stored(num(x)), "_trial_id").term),
                           el(x).term == stored(num(x)).term)
    a = qforall([j], z3.Implies(z3.And(0 <= j, j < n), z3.And(0 <= num(j), num(j) < upto.term, mt(num(j)), same(j))), patterns=[el(j).term])
    b = qforall([j, j2], z3.Implies(z3.And(0 <= j, j < j2, j2 < n), num(j) < num(j2)), patterns=[z3.MultiPattern(el(j).term, el(j2).term)])
    first = z3.If(n > 0, num(z3.IntVal(0)), upto.term)
    c1 = qforall([k], z3.Implies(z3.And(0 <= k, k < first), z3.Not(mt(k))), patterns=[stored(k).term])
    c2 = qforall([j, k], z3.Implies(z3.And(0 <= j, j + 1 < n, num(j) < k, k < num(j + 1)), z3.Not(mt(k))),
                 patterns=[z3.MultiPattern(el(j).term, stored(k).term)])
    c3 = qforall([k], z3.Implies(z3.And(n > 0, num(n - 1) < k, k < upto.term), z3.Not(mt(k))), patterns=[stored(k).term])
    # (the gap clauses c1-c3 -- no matching trial is skipped -- stay open in z3 and take cvc5 > 2 min: not claimed here;
    # they are proved for InMemoryStorage.get_all_trials, whose list holds the trial objects directly)
    return SV(KBool, z3.And(lst.term != 0, a, b))


R.spec(F, "JournalStorageReplayResult.get_all_trials", props=["C01", "C20"], types={"states": "list[TrialState] | None"},
       returns_kind="list[FrozenTrial]", locals={"frozen_trials": "list[FrozenTrial]"},
       requires=JINV,
       cases=[case("missing", when="not j_has_study(self, study_id)", raises="KeyError"),
              case("ok", ensures=["fresh(result)", "j_selected(self, study_id, result, states, j_ntrials(self, study_id), False)"])],
       ensures_all=["shared_unchanged(self)"],
       loops={0: loop(index="_i", invariant=["0 <= _i and _i <= j_ntrials(self, study_id)", "fresh(frozen_trials)",
                                             "j_selected(self, study_id, frozen_trials, states, _i, False)", "shared_unchanged(self)"],
                      locals={"frozen_trials": "list[FrozenTrial]"}, modifies=["L:*:list<ref:FrozenTrial>", "G:is_tuple"])},
       modifies=["L:*:list<ref:FrozenTrial>", "G:is_tuple"])

R.specfuncs["deepcopy_list:ref:FrozenTrial"] = __import__("contracts.common", fromlist=["x"]).deepcopy_trial_list
js_method("get_all_trials", types={"states": "list[TrialState] | None"}, returns_kind="list[FrozenTrial]", props=("C01", "C03", "C20"), cases=[
    case("missing", when="not j_has_study(%s, study_id)" % RR, raises="KeyError", ensures=["shared_unchanged(%s)" % RR]),
    case("ok", ensures=[
        # C20: the caller never receives a list the storage owns; with deepcopy the trial objects are fresh copies too
        "fresh(result)", "shared_unchanged(%s)" % RR,
        "j_selected(%s, study_id, result, states, j_ntrials(%s, study_id), deepcopy)" % (RR, RR)])])
js_method("get_trial_id_from_study_id_trial_number", returns_kind="int", props=("C01", "C03"), cases=[
    case("missing", when="not j_has_study(%s, study_id) or trial_number >= j_ntrials(%s, study_id)" % (RR, RR), raises="KeyError",
         ensures=["shared_unchanged(%s)" % RR]),
    case("ok", ensures=["shared_unchanged(%s)" % RR, "result == j_tid_at(%s, study_id, trial_number)" % RR,
                        "j_has_trial(%s, result) and j_trial(%s, result)._number == trial_number" % (RR, RR)])],
    requires=["trial_number >= 0"])

# --- study attribute setters and readers at the storage level ---------------------------------------------------------------------
for _attr, _fld in (("user_attr", "user_attrs"), ("system_attr", "system_attrs")):
    js_method("set_study_%s" % _attr, props=("C01", "C03", "C20"), cases=[
        case("missing", when="not j_has_study(%s, study_id)" % RR, raises="KeyError", ensures=["shared_unchanged(%s)" % RR]),
        case("ok", ensures=[
            "j_others_same(%s, -1)" % RR,
            "key in j_study(%s, study_id).%s and j_study(%s, study_id).%s[key] is value" % (RR, _fld, RR, _fld),
            "forall(lambda k: implies(k != key, (k in j_study(%s, study_id).%s) == (k in old(j_study(%s, study_id).%s)) and "
            "implies(k in j_study(%s, study_id).%s, j_study(%s, study_id).%s[k] is old(j_study(%s, study_id).%s)[k])), k='str')"
            % (RR, _fld, RR, _fld, RR, _fld, RR, _fld, RR, _fld)])])
js_method("get_study_directions", returns_kind="list[StudyDirection]", props=("C01", "C03"), cases=[
    case("missing", when="not j_has_study(%s, study_id)" % RR, raises="KeyError", ensures=["shared_unchanged(%s)" % RR]),
    case("ok", ensures=["shared_unchanged(%s)" % RR, "result is j_study(%s, study_id).directions" % RR])])
js_method("get_study_name_from_id", returns_kind="str", props=("C01", "C03"), cases=[
    case("missing", when="not j_has_study(%s, study_id)" % RR, raises="KeyError", ensures=["shared_unchanged(%s)" % RR]),
    case("ok", ensures=["shared_unchanged(%s)" % RR, "result == j_study(%s, study_id).study_name" % RR])])
