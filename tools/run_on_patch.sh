#!/bin/sh
# usage: tools/run_on_patch.sh <patch.diff> <ID> [tier]   -- run a check against a scratch copy of /repo with the patch applied
# The scratch copy lives outside /repo and /verif and is removed afterwards.
set -e
PATCH="$(realpath "$1")"; ID="$2"; TIER="${3:-quick}"
D="$(mktemp -d /tmp/verif_mut.XXXXXX)"
trap 'rm -rf "$D"' EXIT
cp -r /repo/optuna "$D/optuna"
( cd "$D" && patch -p1 -s < "$PATCH" ) || { echo "patch does not apply"; exit 4; }
cd /verif
set +e
VERIF_EVIDENCE_DIR="$D/evidence" VERIF_REPO="$D" ./check "$ID" "$TIER"
RC=$?
echo "exit=$RC"
exit $RC
