"""Parallel verification of a set of contracts (one process per function)."""
from __future__ import annotations

import importlib
import json
import multiprocessing as mp
import os
import sys
import time


def load_registry(modules):
    from .contracts import Registry
    reg = Registry()
    for m in modules:
        mod = importlib.import_module(m)
        reg.merge(mod.R)
    return reg


def _work(args):
    modules, file, qualname, opts = args
    sys.setrecursionlimit(20000)
    from .frontend import Frontend, setup_repo_path
    setup_repo_path()
    from .execs import Exec
    from .verify import verify_function
    reg = load_registry(modules)
    eng = Exec(reg, Frontend())
    c = reg.contracts[(file, qualname)]
    hook = None
    if opts.get("replay"):
        from . import replay
        hook = replay.model_hook
    r = verify_function(eng, c, recheck_cvc5=opts.get("recheck_cvc5", False), model_hook=hook)
    return r.to_json()


def run(modules, select=None, jobs=None, opts=None):
    """Verify every non-trusted, non-inline contract of `modules` (optionally filtered)."""
    opts = opts or {}
    from .frontend import setup_repo_path
    setup_repo_path()
    reg = load_registry(modules)
    todo = []
    for key, c in reg.contracts.items():
        if c.trusted or c.inline or not c.verify:
            continue
        if select is not None and not select(c):
            continue
        todo.append((modules, c.key[0], c.key[1], opts))
    jobs = jobs or min(16, max(1, len(todo)))
    t0 = time.time()
    if jobs == 1 or len(todo) <= 1:
        results = [_work(a) for a in todo]
    else:
        ctx = mp.get_context("fork")
        with ctx.Pool(jobs, maxtasksperchild=1) as pool:
            results = pool.map(_work, todo, chunksize=1)
    return reg, results, time.time() - t0


if __name__ == "__main__":
    mods = sys.argv[1].split(",")
    only = set(sys.argv[2:])
    reg, results, wall = run(mods, (lambda c: c.key[1] in only or c.qualname in only) if only else None)
    bad = 0
    for r in results:
        obs = r["obligations"]
        nd = sum(1 for o in obs if o["status"] == "discharged")
        print("== %-55s %-9s paths=%d obs=%d discharged=%d %.1fs %s" % (r["qualname"], r["status"], r["paths"], len(obs), nd, r["time"], r["reason"][:300]))
        for o in obs:
            if o["status"] != "discharged":
                bad += 1
                print("    %s %s | %s | %s | %s %s" % (o["status"], o["name"], o.get("clause"), o.get("outcome"), o.get("backend"), json.dumps(o.get("model"))[:300]))
    print("wall %.1fs, not discharged: %d" % (wall, bad))
