"""Symbolic state, path decisions, obligations."""
from __future__ import annotations

import z3

from .kinds import *  # noqa


class Unsupported(Exception):
    """Construct outside the accepted subset / missing contract -> undecided (exit 2)."""


class PathCut(Exception):
    """This path ends here (infeasible, or loop body finished after inv-preserve)."""


class PyExc:
    """A raised Python exception with a concrete class."""

    def __init__(self, cls, args=(), cause=None, where=None):
        self.cls = cls
        self.args = list(args)
        self.cause = cause
        self.where = where

    def __repr__(self):
        return "PyExc(%s@%s)" % (self.cls.__name__, self.where)


class PyRaise(Exception):
    def __init__(self, exc: PyExc):
        self.exc = exc


class PyReturn(Exception):
    def __init__(self, value):
        self.value = value


class PyBreak(Exception):
    pass


class PyContinue(Exception):
    pass


class SV:
    __slots__ = ("kind", "term", "const", "items", "guard")

    def __init__(self, kind, term=None, const=None, items=None, guard=None):
        self.kind = kind
        self.term = term
        self.const = const
        self.items = items
        self.guard = guard

    def __repr__(self):
        if self.kind is KConst:
            return "SV(const %r)" % (self.const,)
        return "SV(%s, %s)" % (self.kind, self.term)


NONE = SV(KNone, None)


def sv_int(t):
    return SV(KInt, z3.IntVal(t) if isinstance(t, int) else t)


def sv_bool(t):
    return SV(KBool, z3.BoolVal(t) if isinstance(t, bool) else t)


class Obligation:
    __slots__ = ("name", "kind", "pc", "goal", "where", "status", "backend", "time", "model", "path_id", "info", "nfacts")

    def __init__(self, name, kind, pc, goal, where="", info=None):
        self.name = name
        self.kind = kind
        self.pc = pc
        self.goal = goal
        self.where = where
        self.status = None
        self.backend = None
        self.time = 0.0
        self.model = None
        self.path_id = None
        self.info = info or {}
        self.nfacts = 0


class State:
    """One execution path. Re-executed from the start for every decision prefix."""

    def __init__(self, prefix=()):
        self.prefix = list(prefix)
        self.pos = 0
        self.taken: list = []
        self.alternatives: list = []
        self.pc: list = []
        self.facts: list = []        # every assumed fact, in order
        self.fact_ids: set = set()
        self.qpc: list = []          # quantified facts (kept out of the feasibility solver)
        self.heap: dict = {}
        self.heap0: dict = {}        # arrays at function entry (for old())
        self.frames: list = []
        self.counter = 0
        self.obligations: list = []
        self.held: list = []         # stack of held lock descriptions
        self.ghost: dict = {}
        self.nref = None             # allocation pointer (z3 Int term)
        self.nref0 = None
        # feasibility of branches: E-matching only (explicit triggers), so that quantified contract clauses prune
        # infeasible branches; `unknown` counts as feasible (sound: an infeasible path only adds trivial obligations)
        self.feas = z3.Solver()
        self.feas.set("auto_config", False)
        self.feas.set("mbqi", False)
        self.feas.set("timeout", int(__import__("os").environ.get("PYVC_FEAS_TIMEOUT_MS", "1500")))
        self.trace: list = []        # human-readable branch trace
        self.cur_exc = None
        self.notes: list = []

    # -- naming
    def fresh(self, prefix, sort):
        self.counter += 1
        return z3.Const("%s!%d" % (prefix, self.counter), sort)

    # -- path condition
    def assume(self, cond, quantified=False):
        if cond is None:
            return
        if z3.is_true(cond):
            return
        self.facts.append(cond)
        self.fact_ids.add(cond.get_id())
        if z3.is_and(cond):
            for ch in cond.children():
                self.fact_ids.add(ch.get_id())
        if quantified:
            self.qpc.append(cond)
        else:
            self.pc.append(cond)
            self.feas.add(cond)

    def full_pc(self):
        return tuple(self.facts)

    def feasible(self, cond=None):
        if cond is None:
            r = self.feas.check()
        else:
            r = self.feas.check(cond)
        return r != z3.unsat

    def decide(self, n, label=""):
        """Generic n-way choice. Alternatives are explored later by re-execution."""
        if self.pos < len(self.prefix):
            c = self.prefix[self.pos]
            self.pos += 1
            self.taken.append(c)
            return c
        base = list(self.taken)
        for k in range(1, n):
            self.alternatives.append(base + [k])
        self.pos += 1
        self.taken.append(0)
        return 0

    def branch(self, cond, label=""):
        """Two-way branch on a z3 Bool; returns the python bool taken on this path."""
        cond = z3.simplify(cond)
        if z3.is_true(cond):
            return True
        if z3.is_false(cond):
            return False
        if self.pos < len(self.prefix):
            c = self.prefix[self.pos]
            self.pos += 1
            self.taken.append(c)
            taken = bool(c)
        else:
            ft = self.feasible(cond)
            ff = self.feasible(z3.Not(cond))
            if not ft and not ff:
                raise PathCut()
            base = list(self.taken)
            if ft and ff:
                self.alternatives.append(base + [0])
                taken = True
            else:
                taken = ft
            self.pos += 1
            self.taken.append(1 if taken else 0)
        self.assume(cond if taken else z3.Not(cond))
        self.trace.append((label, taken))
        return taken

    # -- obligations
    def oblige(self, name, goal, kind="assert", where="", info=None, assume_after=True):
        g0 = goal if not isinstance(goal, bool) else z3.BoolVal(goal)
        if g0.get_id() in self.fact_ids:
            g = z3.BoolVal(True)      # literally one of the assumed facts
        else:
            g = z3.simplify(g0)
            if g.get_id() in self.fact_ids:
                g = z3.BoolVal(True)
            elif z3.is_and(g0) and all(ch.get_id() in self.fact_ids for ch in g0.children()):
                g = z3.BoolVal(True)
        ob = Obligation(name, kind, None, g, where, info)
        ob.nfacts = len(self.facts)
        ob.info.setdefault("trace", list(self.trace[-12:]))
        self.obligations.append(ob)
        if assume_after and not z3.is_true(g):
            if z3.is_quantifier(g):
                self.assume(g, quantified=True)
            else:
                self.assume(g)
        return ob
