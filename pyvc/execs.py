"""Statements, loops with invariants, contract application at call sites, function verification."""
from __future__ import annotations

import ast
import os
import fnmatch
import inspect
import time

import z3

from .kinds import *  # noqa
from .state import *  # noqa
from .contracts import Contract, Case, LoopSpec
from .engine import EmptyLit, BoundMethod, Frame
from .interp import Interp, SpecCtx, has_quantifier, Closure
from .frontend import FuncInfo


class Outcome:
    def __init__(self, kind, value=None, exc=None):
        self.kind = kind      # 'return' | 'raise'
        self.value = value
        self.exc = exc


def assigned_names(nodes):
    out = []

    def tgt(t):
        if isinstance(t, ast.Name):
            if t.id not in out:
                out.append(t.id)
        elif isinstance(t, (ast.Tuple, ast.List)):
            for e in t.elts:
                tgt(e)
        elif isinstance(t, ast.Starred):
            tgt(t.value)
    for n in nodes:
        for x in ast.walk(n):
            if isinstance(x, ast.Assign):
                for t in x.targets:
                    tgt(t)
            elif isinstance(x, (ast.AugAssign, ast.AnnAssign)):
                tgt(x.target)
            elif isinstance(x, (ast.For, ast.comprehension)):
                tgt(x.target)
            elif isinstance(x, ast.With):
                for it in x.items:
                    if it.optional_vars is not None:
                        tgt(it.optional_vars)
            elif isinstance(x, ast.ExceptHandler) and x.name:
                if x.name not in out:
                    out.append(x.name)
            elif isinstance(x, ast.NamedExpr):
                tgt(x.target)
    return out


class Exec(Interp):
    # ---------------------------------------------------------------------------------------
    # statements
    def exec_block(self, st, body):
        for s in body:
            self.exec(st, s)

    def exec(self, st, node):
        m = getattr(self, "exec_" + type(node).__name__, None)
        if m is None:
            raise Unsupported("statement %s (line %s)" % (type(node).__name__, getattr(node, "lineno", "?")))
        return m(st, node)

    def exec_Pass(self, st, node):
        pass

    def exec_Expr(self, st, node):
        if isinstance(node.value, ast.Constant):
            return
        self.eval(st, node.value)

    def exec_Import(self, st, node):
        import importlib
        for a in node.names:
            mod = importlib.import_module(a.name)
            self.frame(st).env[(a.asname or a.name).split(".")[0]] = SV(KConst, None, const=mod if a.asname else importlib.import_module(a.name.split(".")[0]))

    def exec_ImportFrom(self, st, node):
        import importlib
        mod = importlib.import_module(node.module)
        for a in node.names:
            self.frame(st).env[a.asname or a.name] = self.lift_global(getattr(mod, a.name))

    def exec_Return(self, st, node):
        v = self.eval(st, node.value) if node.value is not None else NONE
        raise PyReturn(v)

    def exec_Break(self, st, node):
        raise PyBreak()

    def exec_Continue(self, st, node):
        raise PyContinue()

    def exec_Assert(self, st, node):
        fr = self.frame(st)
        if fr.fi is not None and fr.fi.file == "<lemma>" and len(st.frames) == 1:
            # an assert of a lemma program is a proof obligation of its own (always emitted: whether the quick feasibility
            # solver happens to refute its negation must not change the number of obligations from run to run)
            t = self.truth(st, self.eval(st, node.test))
            fn = fr.contract.qualname if fr.contract is not None else "lemma"
            st.oblige("%s:assert@%d" % (fn, node.lineno), t, "assert", "line %s" % node.lineno)
            return
        if not self.cond(st, node.test):
            self.raise_(AssertionError, node)

    def exec_Raise(self, st, node):
        if node.exc is None:
            if st.cur_exc is None:
                raise Unsupported("bare raise outside handler")
            raise PyRaise(st.cur_exc)
        v = self.eval(st, node.exc)
        if v.kind is KConst:
            c = v.const
            if isinstance(c, PyExc):
                c.where = "line %s" % node.lineno
                raise PyRaise(c)
            if inspect.isclass(c) and issubclass(c, BaseException):
                raise PyRaise(PyExc(c, where="line %s" % node.lineno))
        if isinstance(v.kind, KRef) and v.kind.cls == "exc":
            # an exception stored in a variable (its class is not tracked): raised as a generic Exception
            raise PyRaise(PyExc(Exception, where="line %s (stored exception)" % node.lineno))
        raise Unsupported("raise of %r (line %s)" % (v, node.lineno))

    def exec_If(self, st, node):
        if self.cond(st, node.test):
            self.exec_block(st, node.body)
        else:
            self.exec_block(st, node.orelse)

    def declared_kind(self, st, name):
        fr = self.frame(st)
        if name in fr.ann:
            return fr.ann[name]
        c = fr.contract
        if c is not None and name in c.locals:
            if c.locals[name] is None:
                fr.ann[name] = None     # explicitly untyped local: keeps the kind of what is assigned
                return None
            k = self.parse_type(c.locals[name], fr.module)
            fr.ann[name] = k
            return k
        return None

    def assign(self, st, target, value: SV, node=None):
        fr = self.frame(st)
        if isinstance(target, ast.Name):
            k = self.declared_kind(st, target.id)
            if k is not None:
                lazy = self.lazy_empty
                self.lazy_empty = False
                try:
                    value = self.coerce(st, value, k, node)
                finally:
                    self.lazy_empty = lazy
            fr.env[target.id] = value
            c = fr.contract
            if c is not None and target.id in c.assume_after and len(st.frames) == 1 and not self.spec_mode:
                ctx = getattr(st, "fn_ctx", None)
                self.assume(st, self.spec_eval(st, c.assume_after[target.id], ctx))
            return
        if isinstance(target, (ast.Tuple, ast.List)):
            if isinstance(value.kind, KTuple):
                items = self.tuple_items(value)
                if len(items) != len(target.elts):
                    self.raise_(ValueError, node)
                for t, it in zip(target.elts, items):
                    self.assign(st, t, it, node)
                return
            raise Unsupported("unpacking of %s (line %s)" % (value.kind, getattr(node, "lineno", "?")))
        if isinstance(target, ast.Attribute):
            obj = self.eval(st, target.value)
            self.setattr(st, obj, target.attr, value, node)
            return
        if isinstance(target, ast.Subscript):
            cont = self.eval(st, target.value)
            if isinstance(cont.kind, KOpt):
                cont = self.coerce(st, cont, cont.kind.inner, node)
            if isinstance(target.slice, ast.Slice):
                raise Unsupported("slice assignment")
            idx = self.eval(st, target.slice)
            self.check_container_guard(st, cont, node, True)
            if cont.kind is KVal:
                cont = self.coerce(st, cont, KDict(KStr, KVal) if idx.kind is KStr else KList(KVal), node)
            if isinstance(cont.kind, KDict):
                self.nonnull(st, cont, node)
                self.dict_set(st, cont, self.coerce_key(st, idx, cont.kind.k, node), value, node)
                return
            if isinstance(cont.kind, KList):
                self.nonnull(st, cont, node)
                i = self.coerce(st, idx, KInt, node).term
                n = self.list_len(st, cont)
                if not st.branch(z3.And(-n <= i, i < n), "index@%s" % getattr(node, "lineno", "?")):
                    self.raise_(IndexError, node)
                i = z3.If(i < 0, n + i, i)
                self.list_set(st, cont, z3.simplify(i), value, node)
                return
            raise Unsupported("subscript store on %s" % cont.kind)
        raise Unsupported("assignment target %s" % type(target).__name__)

    def check_container_guard(self, st, cont: SV, node, write):
        if cont.guard is None or not getattr(st, "guard_active", False) or self.spec_mode:
            return
        held = cont.guard in st.held
        line = getattr(node, "lineno", 0)
        st.oblige("guarded-by/%s@%s" % (cont.kind.name, "w" if write else "r"), z3.BoolVal(held),
                  kind="guarded-by", where="line %s" % line,
                  info={"lock": cont.guard, "line": line, "write": write}, assume_after=False)

    def setattr(self, st, obj: SV, attr, value: SV, node=None):
        if not isinstance(obj.kind, KRef):
            raise Unsupported("attribute store on %s" % obj.kind)
        self.nonnull(st, obj, node)
        decl, fk = self.field_decl(obj.kind.cls, attr)
        if decl is not None:
            self.set_field(st, obj, attr, value, node)
            return
        cls = self.class_by_name(obj.kind.cls)
        sa = inspect.getattr_static(cls, attr, None) if cls is not None else None
        if isinstance(sa, property) and sa.fset is not None:
            fi = self.fe.func_of_object(sa.fset, setter=(sa.fset.__name__ == attr))
            if fi is None:
                raise Unsupported("setter of %s.%s" % (obj.kind.cls, attr))
            self.call_repo_function(st, fi, [obj, value], {}, node)
            return
        raise Unsupported("attribute store %s.%s: no schema field (line %s)" % (obj.kind.cls, attr, getattr(node, "lineno", "?")))

    def exec_Assign(self, st, node):
        v = self.eval(st, node.value)
        for t in node.targets:
            self.assign(st, t, v, node)

    def exec_AnnAssign(self, st, node):
        fr = self.frame(st)
        if isinstance(node.target, ast.Name):
            c = fr.contract
            if c is not None and node.target.id in c.locals:
                t = c.locals[node.target.id]
                fr.ann[node.target.id] = self.parse_type(t, fr.module) if t is not None else None
            else:
                try:
                    fr.ann[node.target.id] = self.parse_type(node.annotation, fr.module)
                except Unsupported:
                    pass
        if node.value is not None:
            self.assign(st, node.target, self.eval(st, node.value), node)

    def exec_AugAssign(self, st, node):
        load = _as_load(node.target)
        cur = self.eval(st, load)
        v = self.eval(st, node.value)
        if isinstance(cur.kind, KSet) and isinstance(v.kind, KSet):
            # s -= t / s &= t / s |= t update the set object in place (aliases see the change)
            from . import lib
            self.check_container_guard(st, cur, node, True)
            lib.set_binop(self, st, node.op, cur, v, node, into=cur)
            return
        self.assign(st, node.target, self.binop(st, node.op, cur, v, node), node)

    def exec_Delete(self, st, node):
        for t in node.targets:
            if isinstance(t, ast.Subscript):
                cont = self.eval(st, t.value)
                idx = self.eval(st, t.slice)
                self.check_container_guard(st, cont, node, True)
                if isinstance(cont.kind, KDict):
                    key = self.coerce_key(st, idx, cont.kind.k, node)
                    if not st.branch(self.dict_has(st, cont, key), "delkey@%s" % node.lineno):
                        self.raise_(KeyError, node)
                    self.dict_del(st, cont, key)
                    continue
            elif isinstance(t, ast.Name):
                self.frame(st).env.pop(t.id, None)
                continue
            raise Unsupported("del target (line %s)" % node.lineno)

    def exec_Global(self, st, node):
        raise Unsupported("global statement")

    def exec_FunctionDef(self, st, node):
        raise Unsupported("nested function definition %s (line %s)" % (node.name, node.lineno))

    # try / with ------------------------------------------------------------------------------
    def exec_Try(self, st, node):
        def inner():
            try:
                self.exec_block(st, node.body)
            except PyRaise as r:
                h = self.match_handler(st, node.handlers, r.exc)
                if h is None:
                    raise
                if h.name:
                    self.frame(st).env[h.name] = SV(KConst, None, const=r.exc)
                prev = st.cur_exc
                st.cur_exc = r.exc
                try:
                    self.exec_block(st, h.body)
                finally:
                    st.cur_exc = prev
            else:
                self.exec_block(st, node.orelse)

        if not node.finalbody:
            return inner()
        try:
            inner()
        except (PyReturn, PyRaise, PyBreak, PyContinue) as ctl:
            self.exec_block(st, node.finalbody)
            raise ctl
        else:
            self.exec_block(st, node.finalbody)

    def match_handler(self, st, handlers, exc: PyExc):
        for h in handlers:
            if h.type is None:
                return h
            t = self.eval(st, h.type)
            classes = []
            if t.kind is KConst and inspect.isclass(t.const):
                classes = [t.const]
            elif isinstance(t.kind, KTuple):
                classes = [i.const for i in self.tuple_items(t)]
            else:
                raise Unsupported("except clause type (line %s)" % h.lineno)
            if any(issubclass(exc.cls, c) for c in classes):
                return h
        return None

    def lock_name(self, st, node):
        """`with <expr>:` where <expr> is `<obj>.<lockfield>` of a guarded class."""
        if isinstance(node, ast.Attribute):
            try:
                obj = self.eval(st, node.value)
            except Unsupported:
                return None
            if isinstance(obj.kind, KRef):
                cls = self.class_by_name(obj.kind.cls)
                names = [c.__name__ for c in cls.__mro__] if cls is not None else [obj.kind.cls]
                for nm in names:
                    g = self.reg.guarded.get(nm)
                    if g and g["lock"] == node.attr:
                        return nm + "." + node.attr
                decl, k = self.field_decl(obj.kind.cls, node.attr)
                if k is not None and isinstance(k, KRef) and k.cls in ("Lock", "RLock"):
                    return (decl or obj.kind.cls) + "." + node.attr
        return None

    def exec_With(self, st, node):
        if len(node.items) != 1:
            raise Unsupported("multi-item with")
        it = node.items[0]
        lk = self.lock_name(st, it.context_expr)
        if lk is not None:
            st.held.append(lk)
            try:
                self.exec_block(st, node.body)
            finally:
                st.held.remove(lk)
            return
        cm = self.eval(st, it.context_expr)
        h = None
        if isinstance(cm.kind, KRef):
            h = self.reg.specfuncs.get("__with__:" + cm.kind.cls)
        if h is None:
            raise Unsupported("with statement on %s (line %s)" % (cm.kind, node.lineno))
        h(self, st, cm, it, node)

    # loops -----------------------------------------------------------------------------------
    def loop_ordinal(self, st, node) -> int:
        fr = self.frame(st)
        if fr.fi is None:
            return 0
        loops = [n for n in ast.walk(fr.fi.node) if isinstance(n, (ast.For, ast.While))]
        loops.sort(key=lambda n: (n.lineno, n.col_offset))
        for i, n in enumerate(loops):
            if n is node:
                return i
        return -1

    def loop_spec(self, st, node) -> LoopSpec | None:
        fr = self.frame(st)
        ordn = None
        if fr.fi is not None:
            loops = [n for n in ast.walk(fr.fi.node) if isinstance(n, (ast.For, ast.While))]
            loops.sort(key=lambda n: (n.lineno, n.col_offset))
            for i, n in enumerate(loops):
                if n is node:
                    ordn = i
        c = fr.contract
        if c is None and fr.fi is not None:
            c = self.reg.contracts.get(fr.fi.key)
        if c is not None and ordn is not None and ordn in c.loops:
            return c.loops[ordn]
        return None

    def iter_source(self, st, node_iter, node):
        """Return ('list', listSV, start_index_expr, transform) describing the iteration sequence."""
        it = self.eval(st, node_iter)
        return it

    def slice_view(self, st, node_iter):
        """`for x in lst[a:b]`: iterate a view of the base list (no temporary list is materialised)."""
        base = self.eval(st, node_iter.value)
        if isinstance(base.kind, KOpt):
            base = self.coerce(st, base, base.kind.inner, node_iter)
        if not isinstance(base.kind, KList) or node_iter.slice.step is not None:
            return None
        self.nonnull(st, base, node_iter)
        self.check_container_guard(st, base, node_iter, False)
        sl = node_iter.slice
        n = self.list_len(st, base)
        lo = self.coerce(st, self.eval(st, sl.lower), KInt, node_iter).term if sl.lower is not None else z3.IntVal(0)
        hi = self.coerce(st, self.eval(st, sl.upper), KInt, node_iter).term if sl.upper is not None else n
        clamp = lambda x: z3.If(x < 0, z3.If(n + x < 0, 0, n + x), z3.If(x > n, n, x))
        lo, hi = z3.simplify(clamp(lo)), z3.simplify(clamp(hi))
        ln = z3.If(hi - lo < 0, 0, hi - lo)
        return SV(KConst, None, const=("seq", ln, (lambda i: self.list_get(st, base, lo + i)), base.kind.elem))

    def exec_For(self, st, node):
        spec = self.loop_spec(st, node)
        itv = None
        if isinstance(node.iter, ast.Subscript) and isinstance(node.iter.slice, ast.Slice):
            itv = self.slice_view(st, node.iter)
        if itv is None:
            itv = self.eval(st, node.iter)
        # literal / python-side tuples: unroll
        if isinstance(itv.kind, KTuple) and (spec is None or spec.unroll):
            try:
                for item in self.tuple_items(itv):
                    self.assign(st, node.target, item, node)
                    try:
                        self.exec_block(st, node.body)
                    except PyContinue:
                        continue
                else:
                    self.exec_block(st, node.orelse)
            except PyBreak:
                pass
            return
        seq = self.as_sequence(st, itv, node)
        if isinstance(itv.kind, KList):
            self.frame(st).env["_seq"] = itv        # ghost name for the iterated list (usable in loop invariants)
        elif spec is not None and any("_seq" in str(x) for x in spec.invariant) and isinstance(node.iter, ast.Subscript):
            self.frame(st).env["_seq"] = self.eval(st, node.iter)      # a slice: the materialised copy
        if spec is None:
            raise Unsupported("loop without invariant at line %s" % node.lineno)
        if spec.unroll_max:
            return self.unroll_loop(st, node, spec, seq)
        self.run_loop(st, node, spec, seq)

    def unroll_loop(self, st, node, spec, seq):
        """Execute at most k iterations concretely; complete only if the sequence provably has <= k items."""
        n, getter = seq
        fr = self.frame(st)
        try:
            for j in range(spec.unroll_max):
                if not st.branch(n > j, "unroll@%s" % node.lineno):
                    break
                self.assign(st, node.target, getter(z3.IntVal(j)), node)
                try:
                    self.exec_block(st, node.body)
                except PyContinue:
                    continue
            else:
                st.oblige("%s:loop#%d:unroll-complete" % (fr.fi.qualname if fr.fi else "?", self.loop_ordinal(st, node)),
                          n <= spec.unroll_max, kind="unroll", where="line %s" % node.lineno,
                          info={"clause": "the iterated sequence has at most %d items" % spec.unroll_max})
            self.exec_block(st, node.orelse)
        except PyBreak:
            pass

    def as_sequence(self, st, itv: SV, node):
        """Normalise an iterable into (length term, getter(i) -> SV)."""
        k = itv.kind
        if k is KConst and isinstance(itv.const, tuple) and itv.const and itv.const[0] == "seq":
            return itv.const[1], itv.const[2]
        if isinstance(k, KList):
            self.check_container_guard(st, itv, node, False)
            n = self.list_len(st, itv)
            heap_snapshot = dict(st.heap)
            return n, (lambda i, itv=itv: self.list_get(st, itv, i))
        if isinstance(k, KDict):
            ks = self.dict_keyseq(st, itv)
            n = self.list_len(st, ks)
            return n, (lambda i: self.list_get(st, ks, i))
        if isinstance(k, KSet):
            ks = self.set_keyseq(st, itv)
            n = self.list_len(st, ks)
            return n, (lambda i: self.list_get(st, ks, i))
        if k is KVal:
            V = val_sort()
            t = itv.term
            self.type_ob(st, z3.Or(V.is_vlist(t), V.is_vtuple(t), V.is_vstr(t)), "iterable", node)
            l = SV(KList(KVal), z3.If(V.is_vlist(t), V.lr(t), V.tr(t)))
            n = z3.If(V.is_vstr(t), z3.Length(V.s(t)), self.list_len(st, l))

            def get(i, l=l, t=t):
                # iterating a str yields its 1-character strings
                e = self.list_get(st, l, i)
                return SV(KVal, z3.If(V.is_vstr(t), V.vstr(z3.SubString(V.s(t), i, 1)), e.term))
            return n, get
        if k is KConst and isinstance(itv.const, EmptyLit):
            return z3.IntVal(0), (lambda i: NONE)
        if isinstance(k, KRef):
            h = self.reg.specfuncs.get("__iter__:" + k.cls)
            if h is not None:
                return h(self, st, itv, node)
        raise Unsupported("iteration over %s (line %s)" % (k, getattr(node, "lineno", "?")))

    def dict_keyseq(self, st, d: SV) -> SV:
        """Ghost enumeration of a dict's keys: a duplicate-free list containing exactly the keys
        (order unspecified: a sound over-approximation of insertion order)."""
        key = ("keyseq", d.term.get_id(), self.harr(st, self.dnames(d.kind)[0]).get_id())
        cache = st.ghost.setdefault("keyseq", {})
        if key in cache:
            return cache[key]
        lk = KList(d.kind.k, "keyseq")
        l = SV(lk, self.alloc(st))
        n_, e_ = self.lnames(lk)
        na, ea = self.harr(st, n_), self.harr(st, e_)
        n = st.fresh("nkeys", z3.IntSort())
        seq = st.fresh("keys", z3.ArraySort(z3.IntSort(), sort_of(d.kind.k)))
        pos = st.fresh("keypos", z3.ArraySort(sort_of(d.kind.k), z3.IntSort()))
        st.heap[n_] = z3.Store(na, l.term, n)
        st.heap[e_] = z3.Store(ea, l.term, seq)
        h, _, sz = self.dnames(d.kind)
        has = self.harr(st, h)[d.term]
        i = z3.Int("ks_i")
        kk = z3.Const("ks_k", sort_of(d.kind.k))
        self.assume(st, n == self.harr(st, sz)[d.term])
        self.assume(st, n >= 0)
        self.assume(st, qforall([i], z3.Implies(z3.And(0 <= i, i < n), z3.And(has[seq[i]], pos[seq[i]] == i)), patterns=[seq[i]]))
        self.assume(st, qforall([kk], z3.Implies(has[kk], z3.And(0 <= pos[kk], pos[kk] < n, seq[pos[kk]] == kk)), patterns=[pos[kk], has[kk]]))
        if d.kind.k is KInt:
            from . import lib
            self.assume(st, lib.all_distinct(seq, n))
            # the enumeration is duplicate-free and exhaustive: counting entries below x counts keys below x
            xx = z3.Int("ks_x")
            self.assume(st, qforall([xx], lib.count_less(seq, n, xx) == lib.rank_in_set(has, xx), patterns=[lib.count_less(seq, n, xx)]))
        cache[key] = l
        st.ghost.setdefault("keypos", {})[l.term.get_id()] = pos
        return l

    def set_keyseq(self, st, s: SV) -> SV:
        lk = KList(s.kind.elem, "keyseq")
        l = SV(lk, self.alloc(st))
        n_, e_ = self.lnames(lk)
        na, ea = self.harr(st, n_), self.harr(st, e_)
        n = st.fresh("nelems", z3.IntSort())
        seq = st.fresh("elems", z3.ArraySort(z3.IntSort(), sort_of(s.kind.elem)))
        pos = st.fresh("elempos", z3.ArraySort(sort_of(s.kind.elem), z3.IntSort()))
        st.heap[n_] = z3.Store(na, l.term, n)
        st.heap[e_] = z3.Store(ea, l.term, seq)
        h, sz = self.snames(s.kind)
        has = self.harr(st, h)[s.term]
        i = z3.Int("ks_i")
        kk = z3.Const("ks_e", sort_of(s.kind.elem))
        self.assume(st, n == self.harr(st, sz)[s.term])
        self.assume(st, n >= 0)
        self.assume(st, qforall([i], z3.Implies(z3.And(0 <= i, i < n), z3.And(has[seq[i]], pos[seq[i]] == i)), patterns=[seq[i]]))
        self.assume(st, qforall([kk], z3.Implies(has[kk], z3.And(0 <= pos[kk], pos[kk] < n, seq[pos[kk]] == kk)), patterns=[pos[kk], has[kk]]))
        return l

    def check_invariants(self, st, spec: LoopSpec, node, phase, ctx):
        fr = self.frame(st)
        for n, inv in enumerate(spec.invariant):
            g = self.spec_eval(st, inv, ctx)
            label = inv if isinstance(inv, str) else getattr(inv, "__name__", "inv%d" % n)
            st.oblige("%s:loop#%d:%s/%d" % (fr.fi.qualname if fr.fi else "?", self.loop_ordinal(st, node), phase, n),
                      g, kind=phase, where="line %s" % node.lineno, info={"clause": label})

    def havoc_locals(self, st, node, spec: LoopSpec):
        fr = self.frame(st)
        names = assigned_names(node.body + (node.orelse or []))
        if isinstance(node, ast.For):
            for nm in assigned_names([ast.Assign(targets=[node.target], value=ast.Constant(0))]):
                if nm in names:
                    names.remove(nm)
        for nm in names:
            if nm in spec.locals:
                kind = self.parse_type(spec.locals[nm], fr.module)
            elif nm in fr.env:
                kind = fr.env[nm].kind
                dk = self.declared_kind(st, nm)
                if dk is not None:
                    kind = dk
            else:
                continue   # body-local temporary
            if kind is KConst or kind is KNone:
                dk = self.declared_kind(st, nm)
                if dk is None:
                    raise Unsupported("loop at line %s assigns %s whose kind (%s) is not declared" % (node.lineno, nm, kind))
                kind = dk
            if isinstance(kind, KTuple):
                raise Unsupported("loop-carried tuple %s" % nm)
            t = st.fresh("lv_" + nm, sort_of(kind))
            sv = SV(kind, t)
            if is_refkind(kind):
                st.assume(z3.And(t >= 0, t < st.nref))
            fr.env[nm] = sv

    def expand_modifies(self, patterns):
        names = set()
        for p in patterns:
            if "*" in p:
                for nm in list(self._heap_kinds):
                    if fnmatch.fnmatchcase(nm, p):
                        names.add(nm)
            else:
                names.add(p)
        return sorted(names)

    def run_loop(self, st, node, spec: LoopSpec, seq):
        fr = self.frame(st)
        is_for = isinstance(node, ast.For)
        idx = spec.index or "_i"
        ctx = SpecCtx(dict(st.heap), dict(fr.env), pre_nref=st.nref)
        fnctx = getattr(st, "fn_ctx", None)
        if fnctx is not None:
            ctx = SpecCtx(fnctx.pre_heap, fnctx.pre_env, pre_nref=fnctx.pre_nref)
        if is_for:
            n, getter = seq
            fr.env[idx] = sv_int(0)
            fr.env["_n"] = SV(KInt, n)
        self.check_invariants(st, spec, node, "inv-entry", ctx)
        choice = st.decide(2, "loop@%s" % node.lineno)
        # havoc
        mods = self.expand_modifies(spec.modifies)
        # the allocation pointer advances FIRST: the havocked arrays may hold references allocated by earlier iterations
        # (their well-formedness bound is the new pointer)
        nref_new = st.fresh("nref", z3.IntSort())
        st.assume(nref_new >= st.nref)
        st.nref = nref_new
        for nm in mods:
            self.havoc_harr(st, nm)
        self.havoc_locals(st, node, spec)
        if is_for:
            i = st.fresh("it", z3.IntSort())
            st.assume(i >= 0)
            fr.env[idx] = SV(KInt, i)
        watch = {k: v for k, v in st.heap.items()}
        n_facts_before = len(st.facts)
        for n_, inv in enumerate(spec.invariant):
            self.assume(st, self.spec_eval(st, inv, ctx))
        self.vacuity_probe(st, n_facts_before, "head of the loop at line %s" % node.lineno, (fr.fi.key if fr.fi is not None else None, node.lineno, "loop", choice))
        if choice == 0:
            # one arbitrary iteration
            if is_for:
                st.assume(i < n)
                if not st.feasible():
                    raise PathCut()
                self.assign(st, node.target, getter(i), node)
            else:
                if not self.cond(st, node.test):
                    raise PathCut()
            try:
                try:
                    self.exec_block(st, node.body)
                except PyContinue:
                    pass
            except PyBreak:
                self.check_loop_frame(st, watch, mods, node)
                return
            self.check_loop_frame(st, watch, mods, node)
            if is_for:
                fr.env[idx] = SV(KInt, i + 1)
            self.check_invariants(st, spec, node, "inv-preserve", ctx)
            raise PathCut()
        else:
            if is_for:
                st.assume(i >= n)
                if not st.feasible():
                    raise PathCut()
            else:
                if self.cond(st, node.test):
                    raise PathCut()
            self.exec_block(st, node.orelse)

    def check_loop_frame(self, st, watch, mods, node):
        for k, v in st.heap.items():
            if k in mods:
                continue
            if k in watch and not z3.eq(watch[k], v):
                raise Unsupported("loop at line %s modifies heap array %s not declared in its loop spec" % (node.lineno, k))

    def exec_While(self, st, node):
        spec = self.loop_spec(st, node)
        if spec is None:
            raise Unsupported("while loop without invariant at line %s" % node.lineno)
        self.run_loop(st, node, spec, None)

    # ---------------------------------------------------------------------------------------
    # contracts at call sites
    def result_kind(self, fi: FuncInfo, c: Contract):
        if c.returns_kind is not None:
            return self.parse_type(c.returns_kind, fi.module)
        if fi.node.returns is not None:
            return self.parse_type(fi.node.returns, fi.module)
        return KNone

    def apply_contract(self, st, fi: FuncInfo, c: Contract, args, kwargs, node):
        env = self.bind_params(st, fi, args, kwargs, c, node)
        caller = self.frame(st)
        line = getattr(node, "lineno", 0)
        ctx0 = SpecCtx(dict(st.heap), dict(env), pre_nref=st.nref)
        # preconditions are obligations of the caller
        for n, r in enumerate(c.requires):
            g = self.spec_eval(st, r, ctx0, env, fi.module, fi)
            label = r if isinstance(r, str) else getattr(r, "__name__", "req%d" % n)
            st.oblige("%s:pre@callsite:%s/%d" % (caller.fi.qualname if caller.fi else "?", fi.qualname, n), g,
                      kind="pre@callsite", where="line %s" % line, info={"clause": label, "callee": fi.qualname})
        # guard discipline: a callee that requires a lock
        if c.guarded_by == "requires-held" and getattr(st, "guard_active", False):
            pass
        # choose the behaviour case (evaluated in the pre-state)
        chosen = None
        for cs in c.cases:
            if cs.when is None:
                chosen = cs
                break
            w = self.spec_eval(st, cs.when, ctx0, env, fi.module, fi)
            if st.branch(w, "case:%s.%s" % (fi.qualname, cs.name)):
                chosen = cs
                break
        if chosen is None:
            raise PathCut()
        # havoc the frame
        n_facts_before = len(st.facts)
        mods = self.expand_modifies(c.modifies)
        # the allocation pointer advances FIRST: the callee may store references it allocated into the arrays it modifies
        # (their well-formedness bound is the new pointer)
        nref_new = st.fresh("nref", z3.IntSort())
        st.assume(nref_new >= st.nref)
        st.nref = nref_new
        for nm in mods:
            self.havoc_harr(st, nm)
        # arrays first touched by this havoc had their initial value at call time
        for nm in st.heap:
            if nm not in ctx0.pre_heap and nm in st.heap0:
                ctx0.pre_heap[nm] = st.heap0[nm]
        ctx = SpecCtx(ctx0.pre_heap, ctx0.pre_env, pre_nref=ctx0.pre_nref)
        rk = self.result_kind(fi, c)
        raises = chosen.raises
        if chosen.any_outcome and st.decide(2, "any-outcome:%s" % fi.qualname) == 1:
            raises = "Exception"
        if raises is None:
            if rk is KNone:
                res = NONE
            elif isinstance(rk, KTuple):
                items = [SV(k, st.fresh("res", sort_of(k))) for k in rk.items]
                res = SV(rk, None, items=items)
            else:
                t = st.fresh("res_" + fi.node.name, sort_of(rk))
                res = SV(rk, t)
                if is_refkind(rk):
                    st.assume(z3.And((t >= 0) if rk.nullable else (t > 0), t < st.nref))
                if rk is KVal:
                    st.assume(val_wf(t, st.nref))
            ctx.result = res
            if chosen.returns is not None:
                rv = self.spec_value(st, chosen.returns, ctx, env, fi.module, fi)
                if res.kind is KNone:
                    pass
                else:
                    rv = self.coerce(st, rv, rk, node)
                    if isinstance(rk, KTuple):
                        for a, b in zip(self.tuple_items(res), self.tuple_items(rv)):
                            self.assume(st, a.term == b.term)
                    else:
                        self.assume(st, res.term == rv.term)
            if chosen.returns_pred is not None:
                self.assume(st, self.spec_eval(st, chosen.returns_pred, ctx, env, fi.module, fi))
            for e in chosen.ensures_return:
                self.assume(st, self.spec_eval(st, e, ctx, env, fi.module, fi))
        if raises is not None:
            for e in chosen.ensures_raise:
                self.assume(st, self.spec_eval(st, e, ctx, env, fi.module, fi))
        if c.effect is not None and raises is None:
            c.effect(self, st, env)
        for e in list(chosen.ensures) + list(c.ensures_all):
            self.assume(st, self.spec_eval(st, e, ctx, env, fi.module, fi))
        if not st.feasible():
            # the path was feasible when the case was chosen: a postcondition that cannot hold here is a contradictory (or
            # ghost-dependent, call-site-unsafe) contract -- report it instead of silently dropping the path
            if not os.environ.get("PYVC_NO_VACUITY") and not self.spec_mode:
                st.ghost.setdefault("vacuity_alarms", []).append(
                    "the postcondition of %s (case %s) assumed at line %s is unsatisfiable on this path" % (fi.qualname, chosen.name, line))
            raise PathCut()
        self.vacuity_probe(st, n_facts_before, "call of %s (case %s) at line %s" % (fi.qualname, chosen.name, line),
                           (fi.key, line, chosen.name, raises))
        if raises is None and fi.qualname == "Study.get_trials":
            st.ghost["get_trials_result"] = res
        if raises is not None:
            cls = self.exc_class(raises, fi)
            raise PyRaise(PyExc(cls, where="contract %s/%s called at line %s" % (fi.qualname, chosen.name, line)))
        return res

    def vacuity_probe(self, st, n_before, what, key):
        """Vacuity guard: assuming a callee's postcondition (or a loop invariant) must not make a path refutable that was
        not refutable before -- that would discharge everything after it for free.  Probed once per (call site, case) and
        worker process with E-matching and a short budget; `unknown` counts as not refuted.  A hit is reported as a failed
        checker failure of the function (status error), never as a property violation."""
        if self.spec_mode or os.environ.get("PYVC_NO_VACUITY"):
            return
        probed = self.__dict__.setdefault("_vacuity_probed", set())
        if key in probed:
            return

        def refutable(facts):
            vs = z3.Solver()
            vs.set("auto_config", False)
            vs.set("mbqi", False)
            vs.set("timeout", 1200)
            for f in facts:
                vs.add(f)
            return vs.check() == z3.unsat
        if not refutable(st.facts):
            probed.add(key)
            return
        if refutable(st.facts[:n_before]):
            return          # the path was already infeasible before this point: nothing learnt, probe again on another path
        probed.add(key)
        st.ghost.setdefault("vacuity_alarms", []).append("the facts assumed at the %s contradict the path (vacuous proof)" % what)

    def exc_class(self, name, fi=None):
        import builtins
        if inspect.isclass(name):
            return name
        if hasattr(builtins, name):
            return getattr(builtins, name)
        if fi is not None and hasattr(fi.module, name):
            return getattr(fi.module, name)
        import optuna.exceptions as oe
        if hasattr(oe, name):
            return getattr(oe, name)
        for hook in self.reg.rt_helpers.get("exc_classes", []):
            if hook.__name__ == name:
                return hook
        raise Unsupported("unknown exception class %s" % name)

    # ---------------------------------------------------------------------------------------
    # verification of one function against its contract
    def init_params(self, st, fi: FuncInfo, c: Contract):
        a = fi.node.args
        env = {}
        anns = {x.arg: x.annotation for x in a.posonlyargs + a.args + a.kwonlyargs}
        for x in a.posonlyargs + a.args + a.kwonlyargs:
            nm = x.arg
            kind = self.param_kind(fi, nm, anns.get(nm), c)
            if kind is None:
                raise Unsupported("parameter %s of %s has no usable type" % (nm, fi))
            if kind is KNone:
                env[nm] = NONE
                continue
            if isinstance(kind, KTuple):
                items = [SV(k, z3.Const("arg_%s_%d" % (nm, i), sort_of(k))) for i, k in enumerate(kind.items)]
                env[nm] = SV(kind, None, items=items)
                continue
            t = z3.Const("arg_" + nm, sort_of(kind))
            sv = SV(kind, t)
            if is_refkind(kind):
                optional = _ann_optional(anns.get(nm)) or (nm in c.types and "None" in str(c.types[nm]))
                st.assume(z3.And(t >= 0, t < st.nref0))
                if not optional:
                    st.assume(t > 0)
            if isinstance(kind, KEnum):
                st.assume(z3.Or([t == int(m.value) for m in kind.cls]))
            if kind is KVal:
                st.assume(val_wf(t, st.nref0))
            env[nm] = sv
        return env

    def run_path(self, st: State, fi: FuncInfo, c: Contract):
        st.nref0 = z3.Int("R0")
        st.nref = st.nref0
        st.assume(st.nref0 > 0)
        st.guard_active = c.guarded_by is not None
        env = self.init_params(st, fi, c)
        fr = Frame(fi, env, fi.module, c)
        st.frames.append(fr)
        pre_env = dict(env)
        ctx = SpecCtx(st.heap0, pre_env, pre_nref=st.nref0)
        ctx.pre_heap = st.heap0
        st.fn_ctx = ctx
        if c.setup is not None:
            from .interp import Cx
            c.setup(Cx(self, st, ctx))
        for r in c.requires:
            self.assume(st, self.spec_eval(st, r, SpecCtx(st.heap0, pre_env, pre_nref=st.nref0)))
        if not st.feasible():
            st.notes.append("requires infeasible")
            raise PathCut()
        outcome = None
        try:
            self.exec_block(st, fi.node.body)
            outcome = Outcome("return", NONE)
        except PyReturn as r:
            outcome = Outcome("return", r.value)
        except PyRaise as r:
            outcome = Outcome("raise", exc=r.exc)
        if st.held:
            raise Unsupported("lock still held at exit")
        self.check_post(st, fi, c, outcome, ctx, pre_env)
        return outcome

    def check_post(self, st, fi, c: Contract, outcome: Outcome, ctx: SpecCtx, pre_env):
        q = fi.qualname
        fr = self.frame(st)
        # evaluate clauses over parameters' ENTRY values plus the result
        saved_env = fr.env
        fr.env = dict(pre_env)
        try:
            rk = self.result_kind(fi, c)
            if outcome.kind == "return":
                res = outcome.value
                if rk is not KNone and res.kind is not KNone or (rk is not KNone and res.kind is KNone):
                    lazy = self.lazy_empty
                    self.lazy_empty = False         # a returned `{}` / `[]` literal is a real (fresh) object of the result kind
                    try:
                        res = self.coerce(st, res, rk)
                    except Unsupported:
                        pass
                    finally:
                        self.lazy_empty = lazy
                ctx.result = res
            whens = []
            raw = []
            for cs in c.cases:
                if cs.when is None:
                    w = z3.BoolVal(True)
                else:
                    w = self.eval_pre(st, cs.when, pre_env)
                # cases are ordered: the first one whose `when` holds applies
                eff = z3.And(w, z3.Not(z3.Or(raw))) if raw else w
                raw.append(w)
                whens.append(z3.simplify(eff))
            if not any(cs.when is None for cs in c.cases):
                st.oblige(q + ":cases-exhaustive", z3.Or(whens), kind="cases-exhaustive", assume_after=False)
            desc = "return" if outcome.kind == "return" else "raise %s at %s" % (outcome.exc.cls.__name__, outcome.exc.where)
            for cs, w in zip(c.cases, whens):
                if cs.any_outcome:
                    ok = True
                elif cs.raises is not None:
                    ecls = self.exc_class(cs.raises, fi)
                    ok = outcome.kind == "raise" and issubclass(outcome.exc.cls, ecls)
                else:
                    ok = outcome.kind == "return"
                if not ok:
                    st.oblige("%s:post/%s/outcome" % (q, cs.name), z3.Not(w), kind="post",
                              info={"outcome": desc, "expected": ("raise " + str(cs.raises)) if cs.raises else "return"},
                              assume_after=False)
                    continue
                # this path's outcome matches the case: its clauses must hold under `when`
                saved_pc = (list(st.pc), list(st.qpc))
                if cs.raises is None and cs.returns is not None and rk is not KNone and outcome.kind == "return":
                    rv = self.spec_value(st, cs.returns, ctx)
                    # "returns X": for dynamic values the SAME value is meant (identity; NaN == NaN is false in Python)
                    g = self.identical(st, ctx.result, rv) if (ctx.result.kind is KVal and rv.kind is KVal) else self.eq(st, ctx.result, rv)
                    st.oblige("%s:post/%s/returns" % (q, cs.name), z3.Implies(w, g), kind="post",
                              info={"clause": "result == " + str(cs.returns), "outcome": desc}, assume_after=False)
                if cs.raises is None and cs.returns_pred is not None and outcome.kind == "return":
                    g = self.spec_eval(st, cs.returns_pred, ctx)
                    st.oblige("%s:post/%s/returns_pred" % (q, cs.name), z3.Implies(w, g), kind="post",
                              info={"clause": str(cs.returns_pred), "outcome": desc}, assume_after=False)
                for n, e in enumerate(cs.ensures):
                    g = self.spec_eval(st, e, ctx)
                    label = e if isinstance(e, str) else getattr(e, "__name__", "ens%d" % n)
                    st.oblige("%s:post/%s/%d" % (q, cs.name, n), z3.Implies(w, g), kind="post",
                              info={"clause": label, "outcome": desc}, assume_after=False)
                if outcome.kind == "raise":
                    for n, e in enumerate(cs.ensures_raise):
                        g = self.spec_eval(st, e, ctx)
                        label = e if isinstance(e, str) else getattr(e, "__name__", "ensx%d" % n)
                        st.oblige("%s:post/%s/exc%d" % (q, cs.name, n), z3.Implies(w, g), kind="post",
                                  info={"clause": label, "outcome": desc}, assume_after=False)
                if outcome.kind == "return":
                    for n, e in enumerate(cs.ensures_return):
                        g = self.spec_eval(st, e, ctx)
                        label = e if isinstance(e, str) else getattr(e, "__name__", "ensr%d" % n)
                        st.oblige("%s:post/%s/ret%d" % (q, cs.name, n), z3.Implies(w, g), kind="post",
                                  info={"clause": label, "outcome": desc}, assume_after=False)
            for n, e in enumerate(c.ensures_all):
                g = self.spec_eval(st, e, ctx)
                label = e if isinstance(e, str) else getattr(e, "__name__", "ens%d" % n)
                st.oblige("%s:post/all/%d" % (q, n), g, kind="post", info={"clause": label, "outcome": desc},
                          assume_after=False)
            # frame
            mods = set(self.expand_modifies(c.modifies))
            for name, arr in st.heap.items():
                if name in mods or name.startswith("G:"):
                    continue
                a0 = st.heap0.get(name)
                if a0 is None or z3.eq(a0, arr):
                    continue
                if ":keyseq" in name or "@keyseq" in name:
                    continue
                st.oblige("%s:frame/%s" % (q, name), self.frame_goal(st, name, a0, arr), kind="frame",
                          info={"clause": "heap array %s unchanged on objects allocated before the call" % name,
                                "outcome": desc}, assume_after=False)
        finally:
            fr.env = saved_env

    def eval_pre(self, st, clause, pre_env):
        """Evaluate a clause in the PRE state (heap at entry, parameters at entry)."""
        saved = st.heap
        st.heap = dict(st.heap0)
        saved_nref = st.nref
        st.nref = st.nref0
        try:
            return self.spec_eval(st, clause, SpecCtx(st.heap0, pre_env, pre_nref=st.nref0))
        finally:
            for k2, v2 in st.heap.items():
                saved.setdefault(k2, v2)
            st.heap = saved
            st.nref = saved_nref

    def frame_goal(self, st, name, a0, arr):
        """Objects allocated before the call are unchanged in this heap array (fresh objects are
        the callee's own)."""
        r = z3.Int("fr_r")
        return qforall([r], z3.Implies(z3.And(0 <= r, r < st.nref0), arr[r] == a0[r]))


def _as_load(t):
    import copy
    t2 = copy.deepcopy(t)
    for n in ast.walk(t2):
        if hasattr(n, "ctx"):
            n.ctx = ast.Load()
    return t2


def _ann_optional(ann):
    if ann is None:
        return False
    try:
        s = ast.unparse(ann) if isinstance(ann, ast.AST) else str(ann)
    except Exception:
        return False
    return "None" in s or "Optional" in s


# ---------------------------------------------------------------------------------------------
# additional engine services used by the library table
def _nonnull_or_typeerror(self, st, v, node=None):
    c = z3.simplify(v.term != 0)
    if z3.is_true(c):
        return
    if not st.branch(c, "nonnull"):
        self.raise_(TypeError, node)


def _assign_pure(self, st, target, value):
    fr = self.frame(st)
    if isinstance(target, ast.Name):
        fr.env[target.id] = value
        return
    if isinstance(target, (ast.Tuple, ast.List)) and isinstance(value.kind, KTuple):
        for t, it in zip(target.elts, self.tuple_items(value)):
            _assign_pure(self, st, t, it)
        return
    raise Unsupported("comprehension target")


def _dyn_class_arr(self, st):
    name = "G:dynclass"
    self._heap_kinds.setdefault(name, KInt)
    return self.harr(st, name)


def _class_id(self, cls):
    ids = self.class_ids
    if cls not in ids:
        ids[cls] = len(ids) + 1
    return ids[cls]


def _dyn_isinstance(self, st, v, cls):
    """Dynamic class test through the ghost class tag of the object (G:dynclass)."""
    arr = _dyn_class_arr(self, st)
    tag = arr[v.term]
    subs = [c for c in self.reg.classes.values() if isinstance(c, type) and issubclass(c, cls)]
    if cls not in subs:
        subs.append(cls)
    return z3.Or([tag == _class_id(self, c) for c in subs])


def _set_dyn_class(self, st, obj, cls):
    arr = _dyn_class_arr(self, st)
    st.heap["G:dynclass"] = z3.Store(arr, obj.term, z3.IntVal(_class_id(self, cls)))


def _deepcopy(self, st, v, node=None):
    k = v.kind
    if k in (KInt, KFloat, KStr, KBool, KNone, KVal) or isinstance(k, (KEnum, KOpt, KTuple)):
        # nested JSON-like values (Val) are treated as immutable: stated assumption
        return v
    if k is KConst:
        return v
    if isinstance(k, KRef):
        if k.cls in self.reg.immutable:
            return v
        h = self.reg.specfuncs.get("deepcopy:" + k.cls)
        if h is not None:
            return h(self, st, v, node)
        return self.deepcopy_object(st, v, node)
    if isinstance(k, KList):
        self.check_container_guard(st, v, node, False)
        if is_refkind(k.elem) and not (isinstance(k.elem, KRef) and k.elem.cls in self.reg.immutable):
            h = self.reg.specfuncs.get("deepcopy_list:" + k.elem.key())
            if h is None:
                raise Unsupported("deepcopy of %s" % k)
            return h(self, st, v, node)
        return self.copy_list(st, v)
    if isinstance(k, KDict):
        self.check_container_guard(st, v, node, False)
        if is_refkind(k.v) and not (isinstance(k.v, KRef) and k.v.cls in self.reg.immutable):
            raise Unsupported("deepcopy of %s" % k)
        return self.copy_dict(st, v)
    raise Unsupported("deepcopy of %s" % k)


def _deepcopy_object(self, st, obj, node=None):
    """Fresh object; scalar fields equal; container fields replaced by fresh (deep) copies.
    None stays None."""
    if z3.is_true(z3.simplify(obj.term == 0)):
        return obj
    out = self.copy_object(st, obj)
    cls = self.class_by_name(obj.kind.cls)
    names = [c.__name__ for c in cls.__mro__] if cls is not None else [obj.kind.cls]
    seen = set()
    for nm in names:
        for f in self.reg.schemas.get(nm, {}):
            if f in seen:
                continue
            seen.add(f)
            name, kind = self.fname(obj.kind.cls, f)
            if isinstance(kind, (KList, KDict, KSet)) or (isinstance(kind, KRef) and kind.cls not in self.reg.immutable):
                cur = SV(kind, self.harr(st, name)[out.term])
                # a None container stays None: copy conditionally
                fresh = _deepcopy(self, st, cur, node)
                arr = self.harr(st, name)
                st.heap[name] = z3.Store(arr, out.term, z3.If(cur.term == 0, 0, fresh.term) if kind.nullable else fresh.term)
    return out


Exec.nonnull_or_typeerror = _nonnull_or_typeerror
Exec.assign_pure = _assign_pure
Exec.dyn_isinstance = _dyn_isinstance
Exec.set_dyn_class = _set_dyn_class
Exec.deepcopy = _deepcopy
Exec.deepcopy_object = _deepcopy_object
