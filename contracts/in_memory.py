"""Contracts for optuna/storages/_in_memory.py  (C01, C03, C04, C12, C20).

Representation invariant R (clauses R1a..R6) over the real fields, preserved by every public
method; behaviour-case postconditions taken from the documented storage contract
(optuna/storages/_base.py docstrings) and the statement of C01; frame obligations (every
FrozenTrial object and every dict hanging off one that existed before the call is unchanged =
C20) are generated automatically for every heap array a contract does not list in `modifies`.
"""
import z3

from pyvc.contracts import Registry, case, loop
from pyvc.kinds import *  # noqa
from pyvc.state import SV

R = Registry()
F = "optuna/storages/_in_memory.py"

R.schema("InMemoryStorage", {
    "_trial_id_to_study_id_and_number": "dict[int, tuple[int, int]]",
    "_study_name_to_id": "dict[str, int]",
    "_studies": "dict[int, _StudyInfo]",
    "_max_study_id": "int",
    "_max_trial_id": "int",
    "_lock": "ref[Lock]",
    "_prev_waiting_trial_number": "dict[int, int] @ pw",
})
R.schema("_StudyInfo", {
    "trials": "list[FrozenTrial] @ st",
    "param_distribution": "dict[str, BaseDistribution] @ spd",
    "user_attrs": "dict[str, Any] @ sua",
    "system_attrs": "dict[str, Any] @ ssa",
    "name": "str",
    "directions": "list[StudyDirection]",
    "best_trial_id": "int | None",
})
R.schema("FrozenTrial", {
    "_number": "int",
    "state": "TrialState",
    "_values": "list[float] | None",
    "_datetime_start": "ref[datetime] | None",
    "datetime_complete": "ref[datetime] | None",
    "_params": "dict[str, Any] @ tp",
    "_distributions": "dict[str, BaseDistribution] @ td",
    "_user_attrs": "dict[str, Any] @ tu",
    "_system_attrs": "dict[str, Any] @ ts",
    "intermediate_values": "dict[int, float] @ ti",
    "_trial_id": "int",
})
R.guarded["InMemoryStorage"] = {"lock": "_lock", "fields": "*"}
R.guard_stop |= {"FrozenTrial", "BaseDistribution", "datetime", "Lock"}
R.immutable |= {"BaseDistribution", "FloatDistribution", "IntDistribution", "CategoricalDistribution"}

RUNNING, COMPLETE, PRUNED, FAIL, WAITING = 0, 1, 2, 3, 4
MAXIMIZE = 2


# ---------------------------------------------------------------------------------------------
# accessors over the *current* heap of the state (old(...) swaps the heap)
class M:
    def __init__(self, eng, st, self_sv):
        self.e, self.st, self.s = eng, st, self_sv
        e = eng
        e.spec_mode += 1
        try:
            self.idmap = e.get_field(st, self_sv, "_trial_id_to_study_id_and_number")
            self.name2id = e.get_field(st, self_sv, "_study_name_to_id")
            self.studies = e.get_field(st, self_sv, "_studies")
            self.pw = e.get_field(st, self_sv, "_prev_waiting_trial_number")
            self.max_sid = e.get_field(st, self_sv, "_max_study_id").term
            self.max_tid = e.get_field(st, self_sv, "_max_trial_id").term
        finally:
            e.spec_mode -= 1
        self.tsort = sort_of(self.idmap.kind.v)

    def _spec(self, f):
        self.e.spec_mode += 1
        try:
            return f()
        finally:
            self.e.spec_mode -= 1

    def has_trial(self, t):
        return self.e.dict_has(self.st, self.idmap, SV(KInt, t))

    def sid_of(self, t):
        return self.tsort.accessor(0, 0)(self.e.dict_get(self.st, self.idmap, SV(KInt, t)).term)

    def num_of(self, t):
        return self.tsort.accessor(0, 1)(self.e.dict_get(self.st, self.idmap, SV(KInt, t)).term)

    def has_study(self, s):
        return self.e.dict_has(self.st, self.studies, SV(KInt, s))

    def study(self, s) -> SV:
        return self._spec(lambda: self.e.dict_get(self.st, self.studies, SV(KInt, s)))

    def sfield(self, s, f) -> SV:
        return self._spec(lambda: self.e.get_field(self.st, self.study(s), f))

    def trials(self, s) -> SV:
        return self.sfield(s, "trials")

    def ntrials(self, s):
        return self.e.list_len(self.st, self.trials(s))

    def trial_at(self, s, n) -> SV:
        return self._spec(lambda: self.e.list_get(self.st, self.trials(s), n))

    def tfield(self, tr: SV, f) -> SV:
        return self._spec(lambda: self.e.get_field(self.st, tr, f))

    def tr(self, t) -> SV:
        return self.trial_at(self.sid_of(t), self.num_of(t))


def _m(eng, st, self_sv):
    return M(eng, st, self_sv)


@R.specfunc()
def has_trial(eng, st, self_sv, t):
    return SV(KBool, _m(eng, st, self_sv).has_trial(t.term))


@R.specfunc()
def has_study(eng, st, self_sv, s):
    return SV(KBool, _m(eng, st, self_sv).has_study(s.term))


@R.specfunc()
def study(eng, st, self_sv, s):
    return _m(eng, st, self_sv).study(s.term)


@R.specfunc()
def tr(eng, st, self_sv, t):
    return _m(eng, st, self_sv).tr(t.term)


@R.specfunc()
def sid_of(eng, st, self_sv, t):
    return SV(KInt, _m(eng, st, self_sv).sid_of(t.term))


@R.specfunc()
def num_of(eng, st, self_sv, t):
    return SV(KInt, _m(eng, st, self_sv).num_of(t.term))


@R.specfunc()
def ntrials(eng, st, self_sv, s):
    return SV(KInt, _m(eng, st, self_sv).ntrials(s.term))


@R.specfunc()
def trial_at(eng, st, self_sv, s, n):
    return _m(eng, st, self_sv).trial_at(s.term, n.term)


def finished_t(state_term):
    return z3.And(state_term != RUNNING, state_term != WAITING)


@R.specfunc()
def finished(eng, st, s):
    return SV(KBool, finished_t(s.term))


# ---------------------------------------------------------------------------------------------
# representation invariant
@R.specfunc()
def R1a(eng, st, self_sv):
    """id map -> list position: every mapped id names the trial stored at (study, number)."""
    m = _m(eng, st, self_sv)
    t = z3.Int("R1a_t")
    s, n = m.sid_of(t), m.num_of(t)
    trl = m.trial_at(s, n)
    body = z3.Implies(m.has_trial(t), z3.And(
        m.has_study(s), 0 <= n, n < m.ntrials(s), trl.term > 0,
        m.tfield(trl, "_trial_id").term == t, 0 <= t, t <= m.max_tid))
    return qforall([t], body, patterns=[m.has_trial(t)])


@R.specfunc()
def R1b(eng, st, self_sv):
    """list position -> id map; trial.number is its position (numbers are 0,1,2,.. per study)."""
    m = _m(eng, st, self_sv)
    s, n = z3.Int("R1b_s"), z3.Int("R1b_n")
    trl = m.trial_at(s, n)
    tid = m.tfield(trl, "_trial_id").term
    body = z3.Implies(z3.And(m.has_study(s), 0 <= n, n < m.ntrials(s)), z3.And(
        trl.term > 0, m.has_trial(tid), m.sid_of(tid) == s, m.num_of(tid) == n,
        m.tfield(trl, "_number").term == n))
    return qforall([s, n], body, patterns=[trl.term])


@R.specfunc()
def R2a(eng, st, self_sv):
    m = _m(eng, st, self_sv)
    s = z3.Int("R2a_s")
    nm = m.sfield(s, "name")
    body = z3.Implies(m.has_study(s), z3.And(
        m.study(s).term > 0, 0 <= s, s <= m.max_sid,
        eng.dict_has(st, m.name2id, nm), eng.dict_get(st, m.name2id, nm).term == s))
    return qforall([s], body, patterns=[m.has_study(s)])


@R.specfunc()
def R3(eng, st, self_sv):
    m = _m(eng, st, self_sv)
    return SV(KBool, z3.And(m.max_sid >= -1, m.max_tid >= -1))


@R.specfunc()
def R2b(eng, st, self_sv):
    m = _m(eng, st, self_sv)
    nm = z3.String("R2b_nm")
    nmsv = SV(KStr, nm)
    sid = eng.dict_get(st, m.name2id, nmsv).term
    body = z3.Implies(eng.dict_has(st, m.name2id, nmsv), z3.And(m.has_study(sid), m.sfield(sid, "name").term == nm))
    return qforall([nm], body, patterns=[eng.dict_has(st, m.name2id, nmsv)])


@R.specfunc()
def Rsep(eng, st, self_sv):
    """Distinct studies own distinct _StudyInfo objects and distinct containers."""
    m = _m(eng, st, self_sv)
    a, b = z3.Int("Rsep_a"), z3.Int("Rsep_b")
    conj = [m.study(a).term != m.study(b).term]
    for f in ("trials", "user_attrs", "system_attrs", "param_distribution", "directions"):
        conj.append(m.sfield(a, f).term != m.sfield(b, f).term)
    body = z3.Implies(z3.And(m.has_study(a), m.has_study(b), a != b), z3.And(conj))
    own = qforall([a], z3.Implies(m.has_study(a), z3.And(
        [m.sfield(a, f).term > 0 for f in ("trials", "user_attrs", "system_attrs", "param_distribution", "directions")]
        + [eng.list_len(st, m.sfield(a, "directions")) >= 1])), patterns=[m.has_study(a)])
    return z3.And(qforall([a, b], body, patterns=[z3.MultiPattern(m.has_study(a), m.has_study(b))]), own)


@R.specfunc()
def R4(eng, st, self_sv):
    """WAITING cursor: defined exactly for live studies; no WAITING trial below it."""
    m = _m(eng, st, self_sv)
    s, n = z3.Int("R4_s"), z3.Int("R4_n")
    has_pw = eng.dict_has(st, m.pw, SV(KInt, s))
    pw = eng.dict_get(st, m.pw, SV(KInt, s)).term
    dom = qforall([s], z3.And(has_pw == m.has_study(s),
                                z3.Implies(m.has_study(s), z3.And(0 <= pw, pw <= m.ntrials(s)))),
                    patterns=[has_pw, m.has_study(s)])
    trl = m.trial_at(s, n)
    below = qforall([s, n], z3.Implies(z3.And(m.has_study(s), 0 <= n, n < pw),
                                         m.tfield(trl, "state").term != WAITING), patterns=[trl.term])
    return z3.And(dom, below)


def value_of(m, trl):
    vals = m.tfield(trl, "_values")
    return vals, m.e.list_get(m.st, vals, z3.IntVal(0)).term


@R.specfunc()
def R5(eng, st, self_sv):
    """best_trial_id: None iff the study has no COMPLETE trial; otherwise it names a COMPLETE trial
    of this study, and (single objective) no COMPLETE trial is strictly better in the study's
    direction. COMPLETE trials of single-objective studies carry exactly one non-NaN value."""
    m = _m(eng, st, self_sv)
    s, n = z3.Int("R5_s"), z3.Int("R5_n")
    best = m.sfield(s, "best_trial_id")
    O = sort_of(best.kind)
    b = O.v(best.term)
    trl = m.trial_at(s, n)
    dirs = m.sfield(s, "directions")
    single = eng.list_len(st, dirs) == 1
    d0 = eng.list_get(st, dirs, z3.IntVal(0)).term
    is_complete = m.tfield(trl, "state").term == COMPLETE
    vals, v = value_of(m, trl)
    btr = m.tr(b)
    bvals, bv = value_of(m, btr)
    wf_val = z3.And(vals.term > 0, eng.list_len(st, vals) == 1, z3.Not(f_is_nan(v)))
    better = z3.If(d0 == MAXIMIZE, f_lt(bv, v), f_lt(v, bv))
    c1 = qforall([s, n], z3.Implies(
        z3.And(m.has_study(s), 0 <= n, n < m.ntrials(s), is_complete),
        z3.And(O.is_some(best.term),
               z3.Implies(single, z3.And(wf_val, z3.Not(better))))), patterns=[trl.term])
    c2 = qforall([s], z3.Implies(
        z3.And(m.has_study(s), O.is_some(best.term)),
        z3.And(m.has_trial(b), m.sid_of(b) == s, m.tfield(btr, "state").term == COMPLETE)),
        patterns=[m.has_study(s)])
    return z3.And(c1, c2)


INV = ["R1a(self)", "R1b(self)", "R2a(self)", "R2b(self)", "R3(self)", "Rsep(self)", "R4(self)", "R5(self)"]

# heap arrays the storage owns (never FrozenTrial fields, never trial-owned dicts: those are
# covered by the automatic frame obligations = C20)
OWN_IDMAP = ["D:*:dict<int,tuple<int,int>>"]
OWN_NAMES = ["D:*:dict<str,int>"]
OWN_STUDIES = ["D:*:dict<int,ref:_StudyInfo>"]
OWN_PW = ["D:*:dict<int,int>@pw"]
OWN_TRIALS = ["L:*:list<ref:FrozenTrial>@st"]
OWN_MAX = ["F:InMemoryStorage._max_study_id", "F:InMemoryStorage._max_trial_id"]


@R.specfunc()
def same_storage(eng, st, self_sv):
    """Every heap array owned by the storage is identical to its value at entry."""
    ctx = eng.spec_stack[-1]
    conj = []
    for name, arr in st.heap.items():
        if name.startswith("G:") or "keyseq" in name:
            continue
        a0 = ctx.pre_heap.get(name)
        if a0 is None or z3.eq(a0, arr):
            continue
        if name in ("F:InMemoryStorage._max_study_id", "F:InMemoryStorage._max_trial_id"):
            continue
        r = z3.Int("ss_r")
        conj.append(qforall([r], z3.Implies(z3.And(0 <= r, r < ctx.pre_nref), arr[r] == a0[r])))
    return SV(KBool, z3.And(conj) if conj else z3.BoolVal(True))


@R.specfunc()
def other_trials_same(eng, st, self_sv, tid):
    """Every list cell other than the one of `tid` holds the same object as at entry, in every
    study; the set of studies, their objects and list lengths are unchanged; id map unchanged."""
    ctx = eng.spec_stack[-1]
    m = _m(eng, st, self_sv)
    saved = st.heap
    st.heap = dict(ctx.pre_heap)
    try:
        m0 = _m(eng, st, self_sv)
        s, n = z3.Int("ots_s"), z3.Int("ots_n")
        t = z3.Int("ots_t")
        has0, study0, ntr0 = m0.has_study(s), m0.study(s).term, m0.ntrials(s)
        tr0 = m0.trial_at(s, n).term
        hast0, sid0, num0 = m0.has_trial(t), m0.sid_of(t), m0.num_of(t)
        ts, tn = m0.sid_of(tid.term), m0.num_of(tid.term)
        trl0 = m0.trials(s).term
    finally:
        for k2, v2 in st.heap.items():
            saved.setdefault(k2, v2)
        st.heap = saved
    c1 = qforall([s], z3.And(m.has_study(s) == has0,
                               z3.Implies(has0, z3.And(m.study(s).term == study0, m.trials(s).term == trl0, m.ntrials(s) == ntr0))),
                   patterns=[m.has_study(s), has0])
    c2 = qforall([s, n], z3.Implies(z3.And(has0, 0 <= n, n < ntr0, z3.Not(z3.And(s == ts, n == tn))),
                                      m.trial_at(s, n).term == tr0), patterns=[m.trial_at(s, n).term, tr0])
    c3 = qforall([t], z3.And(m.has_trial(t) == hast0,
                               z3.Implies(hast0, z3.And(m.sid_of(t) == sid0, m.num_of(t) == num0))),
                   patterns=[m.has_trial(t), hast0])
    return SV(KBool, z3.And(c1, c2, c3))


def same_fields(eng, st, a: SV, b_old_term, fields):
    """Fields of the (new) trial object `a` equal those of the old object, read in the PRE heap."""
    ctx = eng.spec_stack[-1]
    conj = []
    for f in fields:
        name, kind = eng.fname("FrozenTrial", f)
        cur = eng.harr(st, name)[a.term]
        old = ctx.pre_heap.get(name, st.heap0.get(name))[b_old_term]
        conj.append(cur == old)
    return z3.And(conj)


ALL_T_FIELDS = ["_number", "state", "_values", "_datetime_start", "datetime_complete", "_params",
                "_distributions", "_user_attrs", "_system_attrs", "intermediate_values", "_trial_id"]


@R.specfunc()
def same_except(eng, st, new_tr, old_tr, *names):
    skip = set()
    for nsv in names:
        skip.add(z3.simplify(nsv.term).as_string())
    fields = [f for f in ALL_T_FIELDS if f not in skip]
    return SV(KBool, same_fields(eng, st, new_tr, old_tr.term, fields))


@R.specfunc()
def dict_same_except(eng, st, d_new, d_old, key):
    """d_new (current heap) == d_old (PRE heap) except at `key`."""
    ctx = eng.spec_stack[-1]
    h, v, n = eng.dnames(d_new.kind)
    hn, vn = eng.harr(st, h)[d_new.term], eng.harr(st, v)[d_new.term]
    ho = ctx.pre_heap.get(h, st.heap0.get(h))[d_old.term]
    vo = ctx.pre_heap.get(v, st.heap0.get(v))[d_old.term]
    k = z3.Const("dse_k", sort_of(d_new.kind.k))
    kt = eng.coerce(st, key, d_new.kind.k).term
    return SV(KBool, qforall([k], z3.Implies(k != kt, z3.And(hn[k] == ho[k], z3.Implies(ho[k], vn[k] == vo[k]))),
                               patterns=[hn[k]]))


# ---------------------------------------------------------------------------------------------
# contracts
GUARD = "self._lock"
NOT_FOUND_T = "not has_trial(self, trial_id)"
NOT_FOUND_S = "not has_study(self, study_id)"
FINISHED_T = "has_trial(self, trial_id) and finished(tr(self, trial_id).state)"

R.spec(F, "_StudyInfo.__init__", inline=True)
R.spec("optuna/trial/_frozen.py", "FrozenTrial.__init__", inline=True)

R.spec(F, "InMemoryStorage.create_new_study", props=["C01", "C03", "C20"], guarded_by=GUARD,
       types={"directions": "list[StudyDirection]"},
       requires=INV + ["len(directions) >= 1"],
       cases=[
           case("duplicate", when="study_name is not None and study_name in self._study_name_to_id",
                raises="DuplicatedStudyError", ensures=["same_storage(self)"]),
           case("created", ensures=[
               "result == old(self._max_study_id) + 1",
               "not old(has_study(self, result))",
               "has_study(self, result)",
               "implies(study_name is not None, study(self, result).name == study_name)",
               "len(study(self, result).trials) == 0",
               "len(study(self, result).user_attrs) == 0 and len(study(self, result).system_attrs) == 0",
               "study(self, result).best_trial_id is None",
               "len(study(self, result).directions) == len(directions)",
               "forall(lambda i: implies(0 <= i and i < len(directions), study(self, result).directions[i] == directions[i]))",
               "forall(lambda s: implies(s != result, has_study(self, s) == old(has_study(self, s)) and "
               "implies(has_study(self, s), study(self, s) is old(study(self, s)))))",
               "forall(lambda t: has_trial(self, t) == old(has_trial(self, t)))",
           ]),
       ],
       ensures_all=INV,
       # trusted: a fresh uuid4 never equals the name of an existing study
       assume_after={"study_uuid": "(DEFAULT_STUDY_NAME_PREFIX + study_uuid) not in self._study_name_to_id"},
       modifies=OWN_NAMES + OWN_STUDIES + OWN_PW + OWN_MAX)

for _attr, _fld in (("user", "user_attrs"), ("system", "system_attrs")):
    R.spec(F, "InMemoryStorage.set_study_%s_attr" % _attr, props=["C01", "C03"], guarded_by=GUARD,
           requires=INV,
           cases=[
               case("missing", when=NOT_FOUND_S, raises="KeyError", ensures=["same_storage(self)"]),
               case("ok", ensures=[
                   "key in study(self, study_id).%s" % _fld,
                   "study(self, study_id).%s[key] is value" % _fld,
                   "dict_same_except(study(self, study_id).%s, old(study(self, study_id).%s), key)" % (_fld, _fld),
                   "forall(lambda s: has_study(self, s) == old(has_study(self, s)) and study(self, s) is old(study(self, s)))",
               ]),
           ],
           ensures_all=INV,
           modifies=["D:*:dict<str,val>@%s" % ("sua" if _attr == "user" else "ssa")])

R.spec(F, "InMemoryStorage.get_study_id_from_name", props=["C01", "C03"], guarded_by=GUARD,
       requires=INV,
       cases=[
           case("missing", when="study_name not in self._study_name_to_id", raises="KeyError"),
           case("ok", ensures=["has_study(self, result)", "study(self, result).name == study_name"]),
       ],
       ensures_all=["same_storage(self)"])

R.spec(F, "InMemoryStorage.get_study_name_from_id", props=["C01", "C03"], guarded_by=GUARD,
       requires=INV,
       cases=[case("missing", when=NOT_FOUND_S, raises="KeyError"),
              case("ok", returns="study(self, study_id).name")],
       ensures_all=["same_storage(self)"])

R.spec(F, "InMemoryStorage.get_study_directions", props=["C01", "C03"], guarded_by=GUARD,
       requires=INV,
       cases=[case("missing", when=NOT_FOUND_S, raises="KeyError"),
              case("ok", ensures=["result is study(self, study_id).directions"])],
       ensures_all=["same_storage(self)"])

for _fld in ("user_attrs", "system_attrs"):
    R.spec(F, "InMemoryStorage.get_study_%s" % _fld, props=["C01", "C03"], guarded_by=GUARD,
           requires=INV,
           cases=[case("missing", when=NOT_FOUND_S, raises="KeyError"),
                  case("ok", ensures=["result is study(self, study_id).%s" % _fld])],
           ensures_all=["same_storage(self)"])

# --- trials ---------------------------------------------------------------------------------
TEMPLATE_OK = ("implies(template_trial is not None and template_trial.state == TrialState.COMPLETE and "
               "has_study(self, study_id) and len(study(self, study_id).directions) == 1, "
               "template_trial._values is not None and len(template_trial._values) == 1 and "
               "not math_isnan(template_trial._values[0]))")


@R.specfunc()
def math_isnan(eng, st, x):
    return SV(KBool, f_is_nan(eng.coerce(st, x, KFloat).term))


@R.specfunc()
def trial_equals_template(eng, st, trl, tmpl):
    """Field-for-field copy of the template (scalar fields equal; containers equal in content;
    NaN/inf preserved because the float terms are identical)."""
    conj = []
    for f in ("state", "_datetime_start", "datetime_complete"):
        conj.append(eng.get_field(st, trl, f).term == eng.get_field(st, tmpl, f).term)
    for f in ("_params", "_distributions", "_user_attrs", "_system_attrs", "intermediate_values"):
        a, b = eng.get_field(st, trl, f), eng.get_field(st, tmpl, f)
        h, v, n = eng.dnames(a.kind)
        conj.append(eng.harr(st, h)[a.term] == eng.harr(st, h)[b.term])
        conj.append(eng.harr(st, v)[a.term] == eng.harr(st, v)[b.term])
        conj.append(a.term != b.term)
    a, b = eng.get_field(st, trl, "_values"), eng.get_field(st, tmpl, "_values")
    n_, e_ = eng.lnames(a.kind)
    conj.append((a.term == 0) == (b.term == 0))
    conj.append(z3.Implies(b.term != 0, z3.And(a.term != b.term,
                                               eng.harr(st, n_)[a.term] == eng.harr(st, n_)[b.term],
                                               eng.harr(st, e_)[a.term] == eng.harr(st, e_)[b.term])))
    return SV(KBool, z3.And(conj))


R.spec(F, "InMemoryStorage.create_new_trial", props=["C01", "C03", "C04", "C12", "C20"], guarded_by=GUARD,
       requires=INV + [TEMPLATE_OK],
       cases=[
           case("missing", when=NOT_FOUND_S, raises="KeyError", ensures=["same_storage(self)"]),
           case("created", ensures=[
               "result == old(self._max_trial_id) + 1",
               "not old(has_trial(self, result))",
               "has_trial(self, result)",
               "sid_of(self, result) == study_id",
               "num_of(self, result) == old(ntrials(self, study_id))",        # numbers 0,1,2,.. in creation order
               "ntrials(self, study_id) == old(ntrials(self, study_id)) + 1",
               "tr(self, result)._trial_id == result and tr(self, result)._number == num_of(self, result)",
               "fresh(tr(self, result))",
               "implies(template_trial is None, tr(self, result).state == TrialState.RUNNING and "
               "tr(self, result)._values is None and len(tr(self, result)._params) == 0 and "
               "len(tr(self, result)._user_attrs) == 0 and len(tr(self, result)._system_attrs) == 0 and "
               "len(tr(self, result).intermediate_values) == 0 and len(tr(self, result)._distributions) == 0)",
               "implies(template_trial is not None, trial_equals_template(tr(self, result), template_trial))",
               # whole view: every other trial is the same object at the same place
               "forall(lambda t: implies(t != result, has_trial(self, t) == old(has_trial(self, t)) and "
               "implies(has_trial(self, t), sid_of(self, t) == old(sid_of(self, t)) and num_of(self, t) == old(num_of(self, t)) and "
               "tr(self, t) is old(tr(self, t)))))",
               "forall(lambda s: has_study(self, s) == old(has_study(self, s)) and study(self, s) is old(study(self, s)))",
               "forall(lambda s: implies(has_study(self, s) and s != study_id, ntrials(self, s) == old(ntrials(self, s))))",
           ]),
       ],
       ensures_all=INV,
       modifies=OWN_IDMAP + OWN_TRIALS + OWN_MAX + ["F:_StudyInfo.best_trial_id"])


def setter(name, extra_types=None, ok_ensures=(), extra_cases=(), changed=(), requires=(), modifies=()):
    R.spec(F, "InMemoryStorage." + name, props=["C01", "C03", "C04", "C12", "C20"], guarded_by=GUARD,
           types=extra_types or {},
           requires=INV + list(requires),
           cases=[
               case("missing", when=NOT_FOUND_T, raises="KeyError", ensures=["same_storage(self)"]),
               case("finished", when=FINISHED_T, raises="UpdateFinishedTrialError", ensures=["same_storage(self)"]),
           ] + list(extra_cases) + [
               case("ok", ensures=[
                   "other_trials_same(self, trial_id)",
                   "same_except(tr(self, trial_id), old(tr(self, trial_id)), %s)" % ", ".join(repr(c) for c in changed),
               ] + list(ok_ensures)),
           ],
           ensures_all=INV,
           modifies=OWN_TRIALS + list(modifies))


setter("set_trial_user_attr", changed=["_user_attrs"], ok_ensures=[
    "key in tr(self, trial_id)._user_attrs", "tr(self, trial_id)._user_attrs[key] is value",
    "dict_same_except(tr(self, trial_id)._user_attrs, old(tr(self, trial_id)._user_attrs), key)"])
setter("set_trial_system_attr", changed=["_system_attrs"], ok_ensures=[
    "key in tr(self, trial_id)._system_attrs", "tr(self, trial_id)._system_attrs[key] is value",
    "dict_same_except(tr(self, trial_id)._system_attrs, old(tr(self, trial_id)._system_attrs), key)"])
setter("set_trial_intermediate_value", changed=["intermediate_values"], ok_ensures=[
    "step in tr(self, trial_id).intermediate_values",
    "tr(self, trial_id).intermediate_values[step] is intermediate_value",
    "dict_same_except(tr(self, trial_id).intermediate_values, old(tr(self, trial_id).intermediate_values), step)"])

R.spec(F, "InMemoryStorage.set_trial_state_values", props=["C01", "C03", "C04", "C12", "C19", "C20"], guarded_by=GUARD,
       types={"values": "list[float] | None"},
       requires=INV + [
           "state != TrialState.WAITING",       # no caller in optuna passes it (call-site obligations)
           # C12: COMPLETE values are well-formed (tell/_validate reject NaN and wrong arity)
           "implies(state == TrialState.COMPLETE and has_trial(self, trial_id) and "
           "len(study(self, sid_of(self, trial_id)).directions) == 1, "
           "(values is not None and len(values) == 1 and not math_isnan(values[0])) or "
           "(values is None and tr(self, trial_id)._values is not None and len(tr(self, trial_id)._values) == 1 "
           "and not math_isnan(tr(self, trial_id)._values[0])))",
       ],
       cases=[
           case("missing", when=NOT_FOUND_T, raises="KeyError", ensures=["same_storage(self)"]),
           case("finished", when=FINISHED_T, raises="UpdateFinishedTrialError", ensures=["same_storage(self)"]),
           # compare-and-set: RUNNING only from WAITING
           case("lost", when="state == TrialState.RUNNING and tr(self, trial_id).state != TrialState.WAITING",
                returns="False", ensures=["same_storage(self)"]),
           case("ok", returns="True", ensures=[
               "other_trials_same(self, trial_id)",
               "tr(self, trial_id).state == state",
               "implies(values is None, tr(self, trial_id)._values is old(tr(self, trial_id)._values))",
               "implies(values is not None, tr(self, trial_id)._values is not None and "
               "len(tr(self, trial_id)._values) == len(values) and "
               "forall(lambda i: implies(0 <= i and i < len(values), tr(self, trial_id)._values[i] is values[i])))",
               "same_except(tr(self, trial_id), old(tr(self, trial_id)), 'state', '_values', '_datetime_start', 'datetime_complete')",
               "implies(state != TrialState.RUNNING, tr(self, trial_id)._datetime_start is old(tr(self, trial_id)._datetime_start))",
               "implies(not finished(state), tr(self, trial_id).datetime_complete is old(tr(self, trial_id).datetime_complete))",
           ]),
       ],
       ensures_all=INV,
       modifies=OWN_TRIALS + ["F:_StudyInfo.best_trial_id"])

R.spec(F, "InMemoryStorage.get_trial", props=["C01", "C03", "C20"], guarded_by=GUARD,
       requires=INV,
       cases=[case("missing", when=NOT_FOUND_T, raises="KeyError"),
              case("ok", ensures=["result is tr(self, trial_id)"])],
       ensures_all=["same_storage(self)"])

R.spec(F, "InMemoryStorage.get_trial_number_from_id", props=["C01", "C03"], guarded_by=GUARD,
       requires=INV,
       cases=[case("missing", when=NOT_FOUND_T, raises="KeyError"),
              case("ok", returns="num_of(self, trial_id)", ensures=["result == tr(self, trial_id)._number"])],
       ensures_all=["same_storage(self)"])

R.spec(F, "InMemoryStorage.get_trial_id_from_study_id_trial_number", props=["C01", "C03"], guarded_by=GUARD,
       requires=INV + ["trial_number >= 0"],
       cases=[case("missing", when="not has_study(self, study_id) or ntrials(self, study_id) <= trial_number", raises="KeyError"),
              case("ok", ensures=["has_trial(self, result)", "sid_of(self, result) == study_id", "num_of(self, result) == trial_number"])],
       ensures_all=["same_storage(self)"])

R.spec(F, "InMemoryStorage.get_best_trial", props=["C12", "C01", "C03", "C13"], guarded_by=GUARD,
       requires=INV,
       cases=[
           case("missing", when=NOT_FOUND_S, raises="KeyError"),
           case("none", when="study(self, study_id).best_trial_id is None", raises="ValueError"),
           case("multi", when="len(study(self, study_id).directions) > 1", raises="RuntimeError"),
           case("ok", ensures=[
               "result.state == TrialState.COMPLETE",
               "has_trial(self, result._trial_id) and sid_of(self, result._trial_id) == study_id and tr(self, result._trial_id) is result",
               # unbeaten among the COMPLETE trials of the study, in the study's direction
               "forall(lambda n: implies(0 <= n and n < ntrials(self, study_id) and "
               "trial_at(self, study_id, n).state == TrialState.COMPLETE, "
               "not better(study(self, study_id).directions[0], trial_at(self, study_id, n)._values[0], result._values[0])))",
           ]),
       ],
       ensures_all=["same_storage(self)"])


@R.specfunc()
def better(eng, st, direction, a, b):
    """a is strictly better than b in `direction`."""
    return SV(KBool, z3.If(direction.term == MAXIMIZE, f_lt(b.term, a.term), f_lt(a.term, b.term)))


# ---------------------------------------------------------------------------------------------
# get_all_trials / delete_study / get_all_studies
from contracts.common import deepcopy_trial_list, CONTAINER_T_FIELDS  # noqa: E402
R.specfuncs["deepcopy_list:ref:FrozenTrial"] = deepcopy_trial_list


def _match(eng, st, state_term, states):
    """state in `states` (None = every state)."""
    if states.kind is KNone:
        return z3.BoolVal(True)
    j = z3.Int("mt_j")
    n = eng.list_len(st, states)
    e = eng.list_get(st, states, j).term
    return z3.Or(states.term == 0, z3.Exists([j], z3.And(0 <= j, j < n, e == state_term)))


@R.specfunc()
def selection_ok(eng, st, self_sv, study_id, lst, states, lo, hi, copied):
    """`lst` holds exactly the trials of the study with number in [lo, hi) whose state is in `states`, in number
    order: every element is (a deep copy of, if `copied`) the stored trial with its own number; numbers strictly
    increase; no matching trial lies in a gap.  Purely universal (no witness needed)."""
    m = _m(eng, st, self_sv)
    s = study_id.term
    n = eng.list_len(st, lst)
    j, j2, k = z3.Int("so_j"), z3.Int("so_j2"), z3.Int("so_k")
    el = lambda x: eng.list_get(st, lst, x)
    num = lambda x: m.tfield(el(x), "_number").term
    stored = lambda x: m.trial_at(s, x)
    mt = lambda x: _match(eng, st, m.tfield(stored(x), "state").term, states)
    same = lambda x: z3.If(copied.term,
                           z3.And(el(x).term != stored(num(x)).term,
                                  m.tfield(el(x), "state").term == m.tfield(stored(num(x)), "state").term,
                                  m.tfield(el(x), "_trial_id").term == m.tfield(stored(num(x)), "_trial_id").term),
                           el(x).term == stored(num(x)).term)
    inr = z3.And(0 <= j, j < n)
    a = qforall([j], z3.Implies(inr, z3.And(lo.term <= num(j), num(j) < hi.term, mt(num(j)), same(j))), patterns=[el(j).term])
    b = qforall([j, j2], z3.Implies(z3.And(0 <= j, j < j2, j2 < n), num(j) < num(j2)),
                patterns=[z3.MultiPattern(el(j).term, el(j2).term)])
    first = z3.If(n > 0, num(z3.IntVal(0)), hi.term)
    c1 = qforall([k], z3.Implies(z3.And(lo.term <= k, k < first), z3.Not(mt(k))), patterns=[stored(k).term])
    c2 = qforall([j, k], z3.Implies(z3.And(0 <= j, j + 1 < n, num(j) < k, k < num(j + 1)), z3.Not(mt(k))),
                 patterns=[z3.MultiPattern(el(j).term, stored(k).term)])
    last = num(n - 1)
    c3 = qforall([k], z3.Implies(z3.And(n > 0, last < k, k < hi.term), z3.Not(mt(k))), patterns=[stored(k).term])
    return SV(KBool, z3.And(lst.term != 0, a, b, c1, c2, c3))


@R.specfunc()
def only_cursor_changed(eng, st, self_sv, study_id):
    """Nothing the storage owns changed, except the WAITING cursor of `study_id`."""
    ctx = eng.spec_stack[-1]
    conj = []
    for name, arr in st.heap.items():
        a0 = ctx.pre_heap.get(name)
        if a0 is None or z3.eq(a0, arr) or name.startswith("G:") or "keyseq" in name:
            continue
        if not (name.startswith("D:") and name.endswith("@pw")):
            r = z3.Int("occ_r")
            conj.append(qforall([r], z3.Implies(z3.And(0 <= r, r < ctx.pre_nref), arr[r] == a0[r])))
    m = _m(eng, st, self_sv)
    saved = st.heap
    st.heap = dict(ctx.pre_heap)
    try:
        m0 = _m(eng, st, self_sv)
        s = z3.Int("occ_s")
        old_has = eng.dict_has(st, m0.pw, SV(KInt, s))
        old_val = eng.dict_get(st, m0.pw, SV(KInt, s)).term
    finally:
        for k2, v2 in st.heap.items():
            saved.setdefault(k2, v2)
        st.heap = saved
    new_has = eng.dict_has(st, m.pw, SV(KInt, s))
    new_val = eng.dict_get(st, m.pw, SV(KInt, s)).term
    conj.append(qforall([s], z3.And(new_has == old_has, z3.Implies(s != study_id.term, new_val == old_val)), patterns=[new_has]))
    return SV(KBool, z3.And(conj))


@R.specfunc()
def cursor_loop_inv(eng, st, self_sv, study_id, acc, c0, i):
    """Invariant of the WAITING fast path: the cursor is the number of the first WAITING trial found so far (or
    still the entry cursor)."""
    m = _m(eng, st, self_sv)
    n = eng.list_len(st, acc)
    first_num = m.tfield(eng.list_get(st, acc, z3.IntVal(0)), "_number").term
    pw = eng.dict_get(st, m.pw, study_id).term
    return SV(KBool, z3.And(eng.dict_has(st, m.pw, study_id), pw == z3.If(n > 0, first_num, c0.term)))


# get_all_trials filters with a list comprehension and its contract states number ORDER: the all-pairs order-preservation
# axiom of filtered comprehensions is requested for this registry
R.rt_helpers["comp_monotone_full"] = True
GAT_STATES = "list[TrialState] | None"
R.spec(F, "InMemoryStorage.get_all_trials", props=["C01", "C03", "C04", "C20"], guarded_by=GUARD,
       types={"states": GAT_STATES},
       locals={"trials": "list[FrozenTrial]"},
       requires=INV,
       cases=[
           case("missing", when=NOT_FOUND_S, raises="KeyError", ensures=["same_storage(self)"]),
           case("ok", ensures=[
               "fresh(result)",        # never a list the storage owns (C20: later writes do not change it)
               "selection_ok(self, study_id, result, states, 0, ntrials(self, study_id), deepcopy)",
               "only_cursor_changed(self, study_id)",
           ]),
       ],
       ensures_all=INV,
       loops={0: loop(index="_i", invariant=INV + [
           "has_study(self, study_id)", "0 <= _i",
           "old(self._prev_waiting_trial_number[study_id]) + _i <= ntrials(self, study_id)",
           "selection_ok(self, study_id, trials, states, old(self._prev_waiting_trial_number[study_id]), "
           "old(self._prev_waiting_trial_number[study_id]) + _i, False)",
           "cursor_loop_inv(self, study_id, trials, old(self._prev_waiting_trial_number[study_id]), _i)",
           "only_cursor_changed(self, study_id)", "fresh(trials)",
       ], modifies=OWN_PW + ["L:*:list<ref:FrozenTrial>", "G:is_tuple"])},
       modifies=OWN_PW + ["L:*:list<ref:FrozenTrial>", "L:*:list<float>", "D:*@t*", "F:FrozenTrial.*"])


@R.specfunc()
def idmap_minus(eng, st, self_sv, study_id, upto):
    """The id map is the entry map minus the trials of `study_id` with number < upto; everything else the storage
    owns is unchanged."""
    ctx = eng.spec_stack[-1]
    m = _m(eng, st, self_sv)
    saved = st.heap
    st.heap = dict(ctx.pre_heap)
    try:
        m0 = _m(eng, st, self_sv)
        t = z3.Int("imm_t")
        has0, sid0, num0 = m0.has_trial(t), m0.sid_of(t), m0.num_of(t)
        val0 = eng.dict_get(st, m0.idmap, SV(KInt, t)).term
    finally:
        for k2, v2 in st.heap.items():
            saved.setdefault(k2, v2)
        st.heap = saved
    val1 = eng.dict_get(st, m.idmap, SV(KInt, t)).term
    gone = z3.And(sid0 == study_id.term, num0 < upto.term)
    a = qforall([t], z3.And(m.has_trial(t) == z3.And(has0, z3.Not(gone)), z3.Implies(m.has_trial(t), val1 == val0)),
                patterns=[m.has_trial(t), has0])
    conj = [a]
    for name, arr in st.heap.items():
        a0 = ctx.pre_heap.get(name)
        if a0 is None or z3.eq(a0, arr) or name.startswith("G:") or "keyseq" in name:
            continue
        if name.startswith("D:") and name.endswith("dict<int,tuple<int,int>>"):
            continue
        r = z3.Int("imm_r")
        conj.append(qforall([r], z3.Implies(z3.And(0 <= r, r < ctx.pre_nref), arr[r] == a0[r])))
    return SV(KBool, z3.And(conj))


R.spec(F, "InMemoryStorage.delete_study", props=["C01", "C03", "C20"], guarded_by=GUARD,
       requires=INV,
       cases=[
           case("missing", when=NOT_FOUND_S, raises="KeyError", ensures=["same_storage(self)"]),
           case("deleted", ensures=[
               # the study and its trials are gone; ids are not reused (the id counters are untouched)
               "not has_study(self, study_id)",
               "forall(lambda s: implies(s != study_id, has_study(self, s) == old(has_study(self, s)) and "
               "implies(has_study(self, s), study(self, s) is old(study(self, s)) and ntrials(self, s) == old(ntrials(self, s)))))",
               "forall(lambda t: has_trial(self, t) == (old(has_trial(self, t)) and old(sid_of(self, t)) != study_id))",
               "forall(lambda t: implies(has_trial(self, t), sid_of(self, t) == old(sid_of(self, t)) and "
               "num_of(self, t) == old(num_of(self, t)) and tr(self, t) is old(tr(self, t))))",
               "self._max_trial_id == old(self._max_trial_id) and self._max_study_id == old(self._max_study_id)",
           ]),
       ],
       ensures_all=INV,
       loops={0: loop(index="_i", invariant=["has_study(self, study_id)", "0 <= _i", "_i <= old(ntrials(self, study_id))",
                                             "idmap_minus(self, study_id, _i)"],
                      modifies=OWN_IDMAP)},
       modifies=OWN_IDMAP + OWN_NAMES + OWN_STUDIES + OWN_PW)


# --- set_trial_param / get_trial_param -----------------------------------------------------------
D_ = "optuna/distributions.py"
import optuna.distributions as _od  # noqa: E402
R.classes.update({"BaseDistribution": _od.BaseDistribution})
R.spec(D_, "check_distribution_compatibility", trusted=True,
       cases=[case("incompatible", when="not dist_compatible(dist_old, dist_new)", raises="ValueError"), case("ok")],
       note="assumed here: raises ValueError exactly for incompatible distributions (an uninterpreted relation)")
R.spec(D_, "BaseDistribution.to_external_repr", trusted=True, returns_kind="Any",
       cases=[case("ok", returns="external_repr(self, param_value_in_internal_repr)")],
       note="dynamic dispatch over the distribution classes: an uninterpreted function of (distribution, internal value)")
R.spec(D_, "BaseDistribution.to_internal_repr", trusted=True, returns_kind="float", types={"param_value_in_external_repr": "Any"},
       cases=[case("bad", when="nondet()", raises="ValueError"), case("ok", returns="internal_repr(self, param_value_in_external_repr)")])


@R.specfunc()
def dist_compatible(eng, st, a, b):
    return SV(KBool, uf("dist_compatible", z3.IntSort(), z3.IntSort(), z3.BoolSort())(a.term, b.term))


@R.specfunc()
def external_repr(eng, st, d, x):
    return SV(KVal, uf("external_repr", z3.IntSort(), flt_sort(), val_sort())(d.term, eng.coerce(st, x, KFloat).term))


@R.specfunc()
def internal_repr(eng, st, d, x):
    return SV(KFloat, uf("internal_repr", z3.IntSort(), val_sort(), flt_sort())(d.term, eng.coerce(st, x, KVal).term))


R.spec(F, "InMemoryStorage.set_trial_param", props=["C01", "C03", "C10", "C20"], guarded_by=GUARD,
       types={"distribution": "BaseDistribution"},
       requires=INV,
       cases=[
           case("missing", when=NOT_FOUND_T, raises="KeyError", ensures=["same_storage(self)"]),
           case("finished", when=FINISHED_T, raises="UpdateFinishedTrialError", ensures=["same_storage(self)"]),
           # the documented contract is silent about WHICH earlier distributions are compared (DESIGN 4):
           # may raise ValueError only for an incompatible earlier distribution of the same name; nothing changes
           case("incompatible", when="param_name in study(self, sid_of(self, trial_id)).param_distribution and "
                "not dist_compatible(study(self, sid_of(self, trial_id)).param_distribution[param_name], distribution)",
                raises="ValueError", ensures=["same_storage(self)"]),
           case("ok", ensures=[
               "other_trials_same(self, trial_id)",
               "same_except(tr(self, trial_id), old(tr(self, trial_id)), '_params', '_distributions')",
               "param_name in tr(self, trial_id)._params and param_name in tr(self, trial_id)._distributions",
               # what is stored is the external representation of the internal value, and the distribution itself
               "tr(self, trial_id)._params[param_name] is external_repr(distribution, param_value_internal)",
               "tr(self, trial_id)._distributions[param_name] is distribution",
               "dict_same_except(tr(self, trial_id)._params, old(tr(self, trial_id)._params), param_name)",
               "dict_same_except(tr(self, trial_id)._distributions, old(tr(self, trial_id)._distributions), param_name)",
           ]),
       ],
       ensures_all=INV,
       modifies=OWN_TRIALS + ["D:*@spd"])


# get_trial_param: the internal representation of the stored (external) value under the stored distribution
R.spec("optuna/trial/_frozen.py", "FrozenTrial.distributions", inline=True)
R.spec("optuna/trial/_frozen.py", "FrozenTrial.params", inline=True)
R.spec(F, "InMemoryStorage.get_trial_param", props=["C01", "C03", "C10"], guarded_by=GUARD, returns_kind="float",
       requires=INV + ["W4_trial(self, trial_id)"],
       cases=[
           case("missing", when=NOT_FOUND_T, raises="KeyError"),
           case("no-such-param", when="param_name not in tr(self, trial_id)._distributions", raises="KeyError"),
           case("ok", any_outcome=True, ensures_return=[
               "result is internal_repr(tr(self, trial_id)._distributions[param_name], tr(self, trial_id)._params[param_name])"]),
       ],
       ensures_all=INV + ["same_storage(self)"])


@R.specfunc()
def W4_trial(eng, st, self_sv, trial_id):
    """dom(params) == dom(distributions) for the trial (what set_trial_param establishes; templates are validated by
    FrozenTrial._validate before they reach the storage)."""
    m = _m(eng, st, self_sv)
    t = m.trial_of(trial_id.term) if hasattr(m, "trial_of") else None
    if t is None:
        t = R.specfuncs["tr"](eng, st, self_sv, trial_id)
    k = z3.String("w4_k")
    key = SV(KStr, k)
    p, d = eng.get_field(st, t, "_params"), eng.get_field(st, t, "_distributions")
    return SV(KBool, qforall([k], eng.dict_has(st, p, key) == eng.dict_has(st, d, key), patterns=[eng.dict_has(st, p, key), eng.dict_has(st, d, key)]))
