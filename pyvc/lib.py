"""Trusted library contracts (DESIGN 3.5): builtins, stdlib, numpy-lite.  Every entry here is part of
the assumed base and is listed in the evidence (`trusted_base`)."""
from __future__ import annotations

import ast
import builtins as _bi
import copy as _copy
import math as _math

import z3

from .kinds import *  # noqa
from .state import *  # noqa
from .engine import EmptyLit, BoundMethod


INT_FLOAT_LIMIT = 2 ** 1024 - 2 ** 970   # |i| >= this: float(i) raises OverflowError
USED: set = set()   # names of library contracts actually exercised (reported in evidence)


def _use(name):
    USED.add(name)


def install(eng):
    B = eng.builtins
    M = eng.methods
    B[_bi.len] = b_len
    B[_bi.isinstance] = b_isinstance
    B[_bi.float] = b_float
    B[_bi.int] = b_int
    B[_bi.str] = b_str
    B[_bi.bool] = b_bool
    B[_bi.list] = b_list
    B[_bi.tuple] = b_tuple
    B[_bi.set] = b_set
    B[_bi.dict] = b_dict
    B[_bi.abs] = b_abs
    B[_bi.max] = lambda e, st, a, k, n: b_minmax(e, st, a, k, n, True)
    B[_bi.min] = lambda e, st, a, k, n: b_minmax(e, st, a, k, n, False)
    B[_bi.any] = lambda e, st, a, k, n: b_anyall(e, st, a, k, n, True)
    B[_bi.all] = lambda e, st, a, k, n: b_anyall(e, st, a, k, n, False)
    B[_bi.round] = b_round
    B[_bi.repr] = lambda e, st, a, k, n: SV(KStr, st.fresh("repr", z3.StringSort()))
    B[_bi.range] = b_range
    B[_bi.sorted] = b_sorted
    B[_bi.type] = lambda e, st, a, k, n: e.new_object(st, 'type')
    B[_bi.enumerate] = b_enumerate
    B[_bi.zip] = b_zip
    B[_bi.filter] = b_filter
    B[_bi.reversed] = b_reversed
    B[_math.isnan] = b_math_isnan
    B[_math.isinf] = b_math_isinf
    B[_copy.copy] = b_copy
    B[_copy.deepcopy] = b_deepcopy
    try:
        import numpy as np
        B[np.isnan] = b_np_isnan
        B[np.clip] = b_np_clip
        B[np.round] = b_np_round
        B[np.nextafter] = b_np_nextafter
    except Exception:
        pass
    import functools, binascii
    B[functools.reduce] = b_reduce
    B[binascii.crc32] = lambda e, st, a, k, n: SV(KInt, _crc32(e, st, a[0]))
    try:
        import numpy as np
        B[np.asarray] = b_np_asarray
        B[np.array] = b_np_asarray
        B[np.nanmin] = lambda e, st, a, k, n: b_np_nanext(e, st, a, k, n, False)
        B[np.nanmax] = lambda e, st, a, k, n: b_np_nanext(e, st, a, k, n, True)
        B[np.nanpercentile] = b_np_nanpercentile
    except Exception:
        pass
    M[("list", "sort")] = m_list_sort
    M[("str", "encode")] = lambda e, st, r, a, k, n: r
    M[("str", "format")] = m_str_format
    B[_math.exp] = b_math_exp
    B[_math.log] = b_math_log
    import datetime as _dt
    B[_dt.datetime.now] = b_now
    import uuid
    B[uuid.uuid4] = lambda e, st, a, k, n: SV(KStr, st.fresh("uuid", z3.StringSort()))
    import threading
    B[threading.get_ident] = lambda e, st, a, k, n: SV(KInt, z3.Int("thread_ident"))
    B[threading.RLock] = lambda e, st, a, k, n: e.new_object(st, "Lock")
    B[threading.Lock] = lambda e, st, a, k, n: e.new_object(st, "Lock")
    import sys as _sys
    B[_sys.exc_info] = lambda e, st, a, k, n: SV(KVal, st.fresh('exc_info', val_sort()))
    import gc
    B[gc.collect] = lambda e, st, a, k, n: NONE

    M[("list", "append")] = m_list_append
    M[("list", "copy")] = lambda e, st, r, a, k, n: e.copy_list(st, r)
    M[("dict", "get")] = m_dict_get
    M[("dict", "pop")] = m_dict_pop
    M[("dict", "copy")] = lambda e, st, r, a, k, n: e.copy_dict(st, r)
    M[("dict", "keys")] = m_dict_keys
    M[("dict", "values")] = m_dict_values
    M[("dict", "items")] = m_dict_items
    M[("dict", "update")] = m_dict_update
    M[("set", "add")] = m_set_add
    M[("set", "discard")] = m_set_discard
    M[("set", "remove")] = m_set_remove
    M[("val", "append")] = lambda e, st, r, a, k, n: m_list_append(e, st, e.coerce(st, r, KList(KVal), n), a, k, n)
    M[("val", "get")] = m_val_get
    M[("val", "items")] = m_val_items
    M[("ref", "total_seconds")] = lambda e, st, r, a, k, n: SV(KFloat, f_fin(st.fresh("seconds", z3.RealSort())))
    M[("ref", "isoformat")] = lambda e, st, r, a, k, n: SV(KStr, uf("isoformat", z3.IntSort(), z3.StringSort())(r.term))


# --------------------------------------------------------------------------------------------------
def b_len(eng, st, args, kwargs, node):
    _use("len")
    (v,) = args
    k = v.kind
    if isinstance(k, KOpt):
        v = eng.coerce(st, v, k.inner, node)
        k = v.kind
    if isinstance(k, KList):
        if not eng.spec_mode:
            eng.nonnull_or_typeerror(st, v, node)
        return SV(KInt, eng.list_len(st, v))
    if isinstance(k, KDict):
        if not eng.spec_mode:
            eng.nonnull_or_typeerror(st, v, node)
        return SV(KInt, eng.dict_size(st, v))
    if isinstance(k, KSet):
        h, n = eng.snames(k)
        return SV(KInt, eng.harr(st, n)[v.term])
    if isinstance(k, KTuple):
        return sv_int(len(k.items))
    if isinstance(k, KRef) and ("len_hook:" + k.cls) in eng.reg.specfuncs:
        return eng.reg.specfuncs["len_hook:" + k.cls](eng, st, v)
    if k is KStr:
        return SV(KInt, z3.Length(v.term))
    if k is KConst and isinstance(v.const, EmptyLit):
        return sv_int(0)
    if k is KVal:
        V = val_sort()
        t = v.term
        sized = z3.Or(V.is_vlist(t), V.is_vtuple(t), V.is_vdict(t), V.is_vstr(t))
        eng.type_ob(st, sized, "sized", node)
        lst = SV(KList(KVal), z3.If(V.is_vlist(t), V.lr(t), V.tr(t)))
        dct = SV(KDict(KStr, KVal), V.dr(t))
        return SV(KInt, z3.If(V.is_vstr(t), z3.Length(V.s(t)),
                              z3.If(V.is_vdict(t), eng.dict_size(st, dct), eng.list_len(st, lst))))
    raise Unsupported("len of %s" % k)


def b_isinstance(eng, st, args, kwargs, node):
    _use("isinstance")
    v, c = args
    import collections.abc as cabc
    import numbers
    import inspect
    classes = []
    if c.kind is KConst and inspect.isclass(c.const):
        classes = [c.const]
    elif isinstance(c.kind, KTuple):
        classes = [i.const for i in eng.tuple_items(c)]
    else:
        h = eng.reg.specfuncs.get("isinstance_symbolic")
        if h is not None:
            return h(eng, st, v, c)
        raise Unsupported("isinstance with symbolic class")
    k = v.kind
    res = []
    for cls in classes:
        res.append(_isinst(eng, st, v, cls))
    return SV(KBool, z3.Or(res) if len(res) > 1 else res[0])


def _isinst(eng, st, v, cls):
    import collections.abc as cabc
    import numbers
    k = v.kind
    T, Fa = z3.BoolVal(True), z3.BoolVal(False)
    if k is KConst and isinstance(v.const, PyExc):
        return z3.BoolVal(issubclass(v.const.cls, cls))
    if k is KVal:
        V = val_sort()
        t = v.term
        if cls is int:
            return z3.Or(V.is_vint(t), V.is_vbool(t))
        if cls is float:
            return V.is_vflt(t)
        if cls is bool:
            return V.is_vbool(t)
        if cls is str:
            return V.is_vstr(t)
        if cls in (list,):
            return V.is_vlist(t)
        if cls in (tuple,):
            return V.is_vtuple(t)
        if cls is dict:
            return V.is_vdict(t)
        if cls is cabc.Sequence:
            return z3.Or(V.is_vlist(t), V.is_vtuple(t), V.is_vstr(t))
        if cls is numbers.Real:
            return z3.Or(V.is_vint(t), V.is_vflt(t), V.is_vbool(t))
        return z3.And(V.is_vobj(t), uf("val_isinstance_" + cls.__name__, z3.IntSort(), z3.BoolSort())(V.o(t)))
    if isinstance(k, KOpt):
        O = sort_of(k)
        inner = _isinst(eng, st, SV(k.inner, O.v(v.term)), cls)
        return z3.And(O.is_some(v.term), inner)
    if k is KNone:
        return Fa
    if k is KInt:
        return z3.BoolVal(cls in (int, numbers.Real, numbers.Integral, numbers.Number))
    if k is KBool:
        return z3.BoolVal(cls in (int, bool, numbers.Real, numbers.Integral, numbers.Number))
    if k is KFloat:
        return z3.BoolVal(cls in (float, numbers.Real, numbers.Number))
    if k is KStr:
        return z3.BoolVal(cls in (str, cabc.Sequence))
    if isinstance(k, KEnum):
        return z3.BoolVal(issubclass(k.cls, cls))
    if isinstance(k, KList):
        isseq = cls in (cabc.Sequence, cabc.Iterable, cabc.Container, cabc.Collection)
        if isseq:
            return v.term != 0
        if cls is list:
            return z3.And(v.term != 0, z3.Not(eng.is_tuple(st, v)))
        if cls is tuple:
            return z3.And(v.term != 0, eng.is_tuple(st, v))
        return Fa
    if isinstance(k, KDict):
        return z3.And(v.term != 0, z3.BoolVal(cls in (dict, cabc.Mapping, cabc.Container)))
    if isinstance(k, KTuple):
        return z3.BoolVal(cls in (tuple, cabc.Sequence))
    if isinstance(k, KRef):
        real = eng.class_by_name(k.cls)
        if real is not None:
            if issubclass(real, cls):
                return v.term != 0
            if not issubclass(cls, real):
                import inspect as _i
                if _i.isabstract(cls) or _i.isabstract(real) or cls.__name__.startswith("Base"):
                    # unrelated abstract bases (mixins): decided by the object's dynamic class
                    return z3.And(v.term != 0, uf("dyn_isinstance_" + cls.__name__, z3.IntSort(), z3.BoolSort())(v.term))
                return Fa
            # downcast test: dynamic class of the object (ghost class tag)
            return z3.And(v.term != 0, eng.dyn_isinstance(st, v, cls))
        return Fa
    if k is KConst:
        if isinstance(v.const, EmptyLit):
            return z3.BoolVal((v.const.what == "list" and cls in (list, cabc.Sequence)) or (v.const.what == "dict" and cls is dict))
        return z3.BoolVal(isinstance(v.const, cls))
    raise Unsupported("isinstance on %s" % k)


def _float_of_str_ok(s):
    return uf("str_is_float_literal", z3.StringSort(), z3.BoolSort())(s)


def _float_of_str(s):
    return uf("str_to_float", z3.StringSort(), F())(s)


def b_float(eng, st, args, kwargs, node):
    """float(x): table of DESIGN 3.5. None/list/dict/object -> TypeError; non-numeric str -> ValueError;
    numeric str -> its value; int -> exact (|int| > 1.8e308 -> OverflowError: modelled by the
    uninterpreted predicate int_overflows_float)."""
    _use("float")
    (v,) = args
    k = v.kind
    if k is KFloat:
        return v
    if k is KInt or k is KBool or isinstance(k, KEnum):
        x = eng.coerce(st, v, KInt)
        if k is KInt and not eng.spec_mode and eng.reg.rt_helpers.get("model_int_overflow"):
            ov = z3.Or(x.term > INT_FLOAT_LIMIT - 1, x.term < -INT_FLOAT_LIMIT + 1)
            if st.branch(ov, "float-overflow"):
                eng.raise_(OverflowError, node)
        return eng.coerce(st, x, KFloat)
    if k is KStr:
        lit = z3.simplify(v.term)
        if z3.is_string_value(lit) and lit.as_string().strip().lower().lstrip("+-") in ("inf", "infinity", "nan"):
            return SV(KFloat, f_const(float(lit.as_string())))
        if not eng.spec_mode and not st.branch(_float_of_str_ok(v.term), "float(str)"):
            eng.raise_(ValueError, node)
        return SV(KFloat, _float_of_str(v.term))
    if isinstance(k, KOpt):
        if not eng.spec_mode and st.branch(sort_of(k).is_none(v.term), "float(None)"):
            eng.raise_(TypeError, node)
        return b_float(eng, st, [SV(k.inner, sort_of(k).v(v.term))], kwargs, node)
    if k is KNone or is_refkind(k):
        if eng.spec_mode:
            return SV(KFloat, st.fresh("undef", F()))
        eng.raise_(TypeError, node)
    if k is KVal:
        V = val_sort()
        t = v.term
        if eng.spec_mode:
            return SV(KFloat, val_to_float_term(t))
        if st.branch(z3.Or(V.is_vflt(t), V.is_vint(t), V.is_vbool(t)), "float(num)"):
            if st.branch(V.is_vint(t), "float(int)"):
                big = z3.Or(V.i(t) > INT_FLOAT_LIMIT - 1, V.i(t) < -INT_FLOAT_LIMIT + 1)
                if st.branch(big, "float-overflow"):
                    eng.raise_(OverflowError, node)
            return SV(KFloat, val_to_float_term(t))
        if st.branch(V.is_vstr(t), "float(str)"):
            if not st.branch(_float_of_str_ok(V.s(t)), "float(str)-ok"):
                eng.raise_(ValueError, node)
            return SV(KFloat, _float_of_str(V.s(t)))
        eng.raise_(TypeError, node)
    raise Unsupported("float() of %s" % k)


def val_to_float_term(t):
    V = val_sort()
    return z3.If(V.is_vint(t), f_fin(z3.ToReal(V.i(t))),
                 z3.If(V.is_vbool(t), f_fin(z3.If(V.b(t), z3.RealVal(1), z3.RealVal(0))),
                       z3.If(V.is_vstr(t), _float_of_str(V.s(t)), V.f(t))))


def b_int(eng, st, args, kwargs, node):
    _use("int")
    (v,) = args
    k = v.kind
    if k is KInt or k is KBool or isinstance(k, KEnum):
        return eng.coerce(st, v, KInt)
    if k is KFloat:
        if not eng.spec_mode:
            if st.branch(z3.Not(f_is_fin(v.term)), "int(nonfinite)"):
                if st.branch(f_is_nan(v.term), "int(nan)"):
                    eng.raise_(ValueError, node)
                eng.raise_(OverflowError, node)
        r = f_r(v.term)
        # truncation toward zero
        return SV(KInt, z3.If(r >= 0, z3.ToInt(r), -z3.ToInt(-r)))
    if k is KStr:
        ok = uf("str_is_int_literal", z3.StringSort(), z3.BoolSort())(v.term)
        if not eng.spec_mode and not st.branch(ok, "int(str)"):
            eng.raise_(ValueError, node)
        if not eng.spec_mode:
            # a string int() accepts is also accepted by float(), with the same value (overflow to inf not modelled)
            st.assume(z3.And(_float_of_str_ok(v.term), _float_of_str(v.term) == f_fin(z3.ToReal(z3.StrToInt(v.term)))))
        return SV(KInt, z3.StrToInt(v.term))
    if k is KVal:
        V = val_sort()
        t = v.term
        if eng.spec_mode or st.branch(V.is_vint(t), "int(int)"):
            return SV(KInt, V.i(t))
        if st.branch(V.is_vflt(t), "int(float)"):
            return b_int(eng, st, [SV(KFloat, V.f(t))], kwargs, node)
        if st.branch(V.is_vstr(t), "int(str)"):
            return b_int(eng, st, [SV(KStr, V.s(t))], kwargs, node)
        if st.branch(V.is_vbool(t), "int(bool)"):
            return SV(KInt, z3.If(V.b(t), 1, 0))
        eng.raise_(TypeError, node)
    raise Unsupported("int() of %s" % k)


def b_str(eng, st, args, kwargs, node):
    _use("str")
    if args and args[0].kind is KStr:
        return args[0]
    if args and args[0].kind is KInt:
        return SV(KStr, z3.IntToStr(args[0].term)) if False else SV(KStr, uf("int_to_str", z3.IntSort(), z3.StringSort())(args[0].term))
    return SV(KStr, st.fresh("str", z3.StringSort()))


def b_bool(eng, st, args, kwargs, node):
    return SV(KBool, eng.truth(st, args[0]))


def b_abs(eng, st, args, kwargs, node):
    _use("abs")
    (v,) = args
    if v.kind is KInt:
        return SV(KInt, z3.If(v.term >= 0, v.term, -v.term))
    if v.kind is KFloat:
        Fs = F()
        t = v.term
        return SV(KFloat, z3.If(Fs.is_fin(t), Fs.fin(z3.If(Fs.r(t) >= 0, Fs.r(t), -Fs.r(t))),
                                z3.If(Fs.is_nan(t), Fs.nan, Fs.pinf)))
    if isinstance(v.kind, KOpt) and v.kind.inner in (KFloat, KInt):
        # abs(None) raises TypeError
        if not eng.spec_mode and st.branch(sort_of(v.kind).is_none(v.term), "abs(None)"):
            eng.raise_(TypeError, node)
        return b_abs(eng, st, [SV(v.kind.inner, sort_of(v.kind).v(v.term))], kwargs, node)
    raise Unsupported("abs of %s" % v.kind)


def b_round(eng, st, args, kwargs, node):
    _use("round")
    v = args[0]
    if len(args) > 1:
        raise Unsupported("round with ndigits")
    if v.kind is KInt:
        return v
    if v.kind is KFloat:
        if not eng.spec_mode and st.branch(z3.Not(f_is_fin(v.term)), "round(nonfinite)"):
            eng.raise_(ValueError, node)
        r = f_r(v.term)
        fl = z3.ToInt(r)
        frac = r - z3.ToReal(fl)
        # banker's rounding
        res = z3.If(frac < 0.5, fl, z3.If(frac > 0.5, fl + 1, z3.If(fl % 2 == 0, fl, fl + 1)))
        return SV(KInt, res)
    raise Unsupported("round of %s" % v.kind)


def b_math_isnan(eng, st, args, kwargs, node):
    """math.isnan(x): real argument -> bool; str/None/list/object -> TypeError; huge int -> OverflowError."""
    _use("math.isnan")
    (v,) = args
    k = v.kind
    if k is KFloat:
        return SV(KBool, f_is_nan(v.term))
    if k is KInt or k is KBool:
        return SV(KBool, z3.BoolVal(False))
    if isinstance(k, KOpt):
        if not eng.spec_mode and st.branch(sort_of(k).is_none(v.term), "isnan(None)"):
            eng.raise_(TypeError, node)
        return b_math_isnan(eng, st, [SV(k.inner, sort_of(k).v(v.term))], kwargs, node)
    if k is KVal:
        V = val_sort()
        t = v.term
        if eng.spec_mode:
            return SV(KBool, z3.And(V.is_vflt(t), f_is_nan(V.f(t))))
        if st.branch(V.is_vflt(t), "isnan(float)"):
            return SV(KBool, f_is_nan(V.f(t)))
        if st.branch(V.is_vint(t), "isnan(int)"):
            big = z3.Or(V.i(t) > INT_FLOAT_LIMIT - 1, V.i(t) < -INT_FLOAT_LIMIT + 1)
            if st.branch(big, "isnan-overflow"):
                eng.raise_(OverflowError, node)
            return SV(KBool, z3.BoolVal(False))
        if st.branch(V.is_vbool(t), "isnan(bool)"):
            return SV(KBool, z3.BoolVal(False))
        eng.raise_(TypeError, node)
    if eng.spec_mode:
        return SV(KBool, z3.BoolVal(False))
    eng.raise_(TypeError, node)


def b_math_isinf(eng, st, args, kwargs, node):
    (v,) = args
    v = eng.coerce(st, v, KFloat, node)
    return SV(KBool, z3.Or(F().is_pinf(v.term), F().is_ninf(v.term)))


def b_np_isnan(eng, st, args, kwargs, node):
    _use("np.isnan")
    (v,) = args
    v = eng.coerce(st, v, KFloat, node)
    return SV(KBool, f_is_nan(v.term))


def b_now(eng, st, args, kwargs, node):
    _use("datetime.now")
    o = eng.new_object(st, "datetime")
    return o


def b_copy(eng, st, args, kwargs, node):
    _use("copy.copy")
    (v,) = args
    k = v.kind
    if isinstance(k, KList):
        eng.check_container_guard(st, v, node, False)
        return eng.copy_list(st, v)
    if isinstance(k, KDict):
        eng.check_container_guard(st, v, node, False)
        return eng.copy_dict(st, v)
    if isinstance(k, KRef):
        return eng.copy_object(st, v)
    if k in (KInt, KFloat, KStr, KBool, KNone) or isinstance(k, (KTuple, KEnum)):
        return v
    raise Unsupported("copy.copy of %s" % k)


def b_deepcopy(eng, st, args, kwargs, node):
    """copy.deepcopy(x): a fresh object graph, deep-equal to x, disjoint from everything allocated
    before.  Implemented per schema class via the registered spec function `deepcopy:<Class>` or
    generically for containers of scalars."""
    _use("copy.deepcopy")
    (v,) = args
    return eng.deepcopy(st, v, node)


def b_list(eng, st, args, kwargs, node):
    _use("list")
    if not args:
        return SV(KConst, None, const=EmptyLit("list"))
    (v,) = args
    k = v.kind
    if isinstance(k, KList):
        eng.check_container_guard(st, v, node, False)
        out = eng.copy_list(st, SV(KList(k.elem, ""), v.term) if False else v)
        _fj = z3.Int("fs_j")
        eng.assume(st, qforall([_fj], filter_src(out.term, _fj) == filter_src(v.term, _fj), patterns=[filter_src(out.term, _fj)]))
        out = SV(KList(k.elem, ""), out.term) if k.region == "keyseq" else out
        if k.region == "keyseq":
            # move the copy into the plain list heap
            plain = eng.new_list(st, KList(k.elem), eng.list_len(st, v))
            _, e_src = eng.lnames(k)
            _, e_dst = eng.lnames(plain.kind)
            st.heap[e_dst] = z3.Store(eng.harr(st, e_dst), plain.term, eng.harr(st, e_src)[v.term])
            out = plain
        eng.set_is_tuple(st, out, False)
        return out
    if isinstance(k, KTuple):
        return eng.coerce(st, v, KList(k.items[0] if k.items else KVal), node)
    if k is KConst and isinstance(v.const, tuple) and v.const and v.const[0] == "seq":
        return seq_to_list(eng, st, v, node)
    if k is KConst and isinstance(v.const, tuple) and v.const and v.const[0] == "genexp":
        return comprehension(eng, st, v.const[1], "list", frame=v.const[2])
    if isinstance(k, KDict):
        ks = eng.dict_keyseq(st, v)
        return b_list(eng, st, [ks], kwargs, node)
    if isinstance(k, KSet):
        return b_list(eng, st, [eng.set_keyseq(st, v)], kwargs, node)       # duplicate-free enumeration, order unspecified
    if k is KVal:
        l = eng.coerce(st, v, KList(KVal), node)
        out = eng.copy_list(st, l)
        eng.set_is_tuple(st, out, False)
        return out
    raise Unsupported("list() of %s" % k)


def seq_to_list(eng, st, v, node):
    _, n, getter, ek = v.const[:4]
    out = eng.new_list(st, KList(ek), n)
    _, e = eng.lnames(out.kind)
    arr = st.fresh("seql", z3.ArraySort(z3.IntSort(), sort_of(ek)))
    i = z3.Int("seq_i")
    body = getter(i)
    eng.assume(st, qforall([i], z3.Implies(z3.And(0 <= i, i < n), arr[i] == eng.coerce(st, body, ek).term), patterns=[arr[i]]))
    st.heap[e] = z3.Store(eng.harr(st, e), out.term, arr)
    return out


def b_tuple(eng, st, args, kwargs, node):
    _use("tuple")
    if not args:
        return SV(KTuple([]), None, items=[])
    out = b_list(eng, st, args, kwargs, node)
    if isinstance(out.kind, KList):
        eng.set_is_tuple(st, out, True)
    return out


def b_set(eng, st, args, kwargs, node):
    _use("set")
    if not args:
        return SV(KConst, None, const=EmptyLit("set"))
    (v,) = args
    k = v.kind
    if isinstance(k, KList):
        s = SV(KSet(k.elem), eng.alloc(st))
        h, n = eng.snames(s.kind)
        ha, na = eng.harr(st, h), eng.harr(st, n)
        mem = st.fresh("setof", z3.ArraySort(sort_of(k.elem), z3.BoolSort()))
        x = z3.Const("so_x", sort_of(k.elem))
        i = z3.Int("so_i")
        _, e = eng.lnames(k)
        ea = eng.harr(st, e)[v.term]
        ln = eng.list_len(st, v)
        wit = st.fresh("setwit", z3.ArraySort(sort_of(k.elem), z3.IntSort()))
        eng.assume(st, qforall([i], z3.Implies(z3.And(0 <= i, i < ln), mem[ea[i]]), patterns=[ea[i]]))
        eng.assume(st, qforall([x], z3.Implies(mem[x], z3.And(0 <= wit[x], wit[x] < ln, ea[wit[x]] == x)), patterns=[mem[x]]))
        cnt = st.fresh("setn", z3.IntSort())
        eng.assume(st, z3.And(cnt >= 0, cnt <= ln, z3.Implies(ln > 0, cnt > 0)))
        st.heap[h] = z3.Store(ha, s.term, mem)
        st.heap[n] = z3.Store(na, s.term, cnt)
        return s
    if isinstance(k, KDict):
        # set(d) / set(d.keys()): the membership row IS the dict's key row, the size its size
        s = SV(KSet(k.k), eng.alloc(st))
        h, n = eng.snames(s.kind)
        dh, _, dn = eng.dnames(k)
        st.heap[h] = z3.Store(eng.harr(st, h), s.term, eng.harr(st, dh)[v.term])
        st.heap[n] = z3.Store(eng.harr(st, n), s.term, eng.harr(st, dn)[v.term])
        return s
    if isinstance(k, KSet):
        s = SV(k, eng.alloc(st))
        h, n = eng.snames(k)
        st.heap[h] = z3.Store(eng.harr(st, h), s.term, eng.harr(st, h)[v.term])
        st.heap[n] = z3.Store(eng.harr(st, n), s.term, eng.harr(st, n)[v.term])
        return s
    if k is KConst and isinstance(v.const, tuple) and v.const and v.const[0] == "seq":
        if len(v.const) > 4 and v.const[4][0] == "range":
            # set(range(lo, hi)): membership is the interval itself
            _, lo, hi = v.const[4]
            s = SV(KSet(KInt), eng.alloc(st))
            h, n = eng.snames(s.kind)
            mem = st.fresh("rangeset", z3.ArraySort(z3.IntSort(), z3.BoolSort()))
            x = z3.Int("rs_x")
            eng.assume(st, qforall([x], mem[x] == z3.And(lo <= x, x < hi), patterns=[mem[x], idx_query(st, x)]))
            st.heap[h] = z3.Store(eng.harr(st, h), s.term, mem)
            st.heap[n] = z3.Store(eng.harr(st, n), s.term, v.const[1])
            return s
        return b_set(eng, st, [seq_to_list(eng, st, v, node)], kwargs, node)
    raise Unsupported("set() of %s" % k)


def set_binop(eng, st, op, a, b, node, into=None):
    """a & b, a | b, a - b on sets of the same element kind: a fresh set (or, for the augmented forms, the left operand
    itself updated in place) whose membership row is characterised pointwise; its size is only known to be 0 exactly when
    no element is a member, and bounded by the operands' sizes."""
    _use("set-algebra")
    if not (isinstance(a.kind, KSet) and isinstance(b.kind, KSet) and a.kind.elem == b.kind.elem):
        raise Unsupported("set operation on %s / %s" % (a.kind, b.kind))
    k = a.kind
    h, n = eng.snames(k)
    hb, nb = eng.snames(b.kind)
    ra, rb = eng.harr(st, h)[a.term], eng.harr(st, hb)[b.term]
    na_, nb_ = eng.harr(st, n)[a.term], eng.harr(st, nb)[b.term]
    x = z3.Const("sb_x", sort_of(k.elem))
    mem = st.fresh("setop", z3.ArraySort(sort_of(k.elem), z3.BoolSort()))
    if isinstance(op, ast.BitAnd):
        body, bound = z3.And(ra[x], rb[x]), [lambda c: c <= na_, lambda c: c <= nb_]
    elif isinstance(op, ast.BitOr):
        body, bound = z3.Or(ra[x], rb[x]), [lambda c: c <= na_ + nb_, lambda c: c >= na_, lambda c: c >= nb_]
    elif isinstance(op, ast.Sub):
        body, bound = z3.And(ra[x], z3.Not(rb[x])), [lambda c: c <= na_]
    else:
        raise Unsupported("set operator %s" % type(op).__name__)
    eng.assume(st, qforall([x], mem[x] == body, patterns=[mem[x], ra[x], rb[x]]))
    cnt = st.fresh("setopn", z3.IntSort())
    eng.assume(st, z3.And([cnt >= 0] + [f(cnt) for f in bound]))
    eng.assume(st, (cnt == 0) == qforall([x], z3.Not(mem[x]), patterns=[mem[x]]))
    out = into if into is not None else SV(k, eng.alloc(st))
    st.heap[h] = z3.Store(eng.harr(st, h), out.term, mem)
    st.heap[n] = z3.Store(eng.harr(st, n), out.term, cnt)
    return out


def b_dict(eng, st, args, kwargs, node):
    if not args and not kwargs:
        return SV(KConst, None, const=EmptyLit("dict"))
    if len(args) == 1 and isinstance(args[0].kind, KDict):
        return eng.copy_dict(st, args[0])
    raise Unsupported("dict() call")


def b_minmax(eng, st, args, kwargs, node, is_max):
    _use("max/min")
    if len(args) >= 2 and not kwargs:
        acc = args[0]
        for b in args[1:]:
            a2, b2 = eng.unify(st, acc, b, node)
            if a2.kind is KInt:
                c = (b2.term > a2.term) if is_max else (b2.term < a2.term)
            elif a2.kind is KFloat:
                c = f_lt(a2.term, b2.term) if is_max else f_lt(b2.term, a2.term)
            else:
                raise Unsupported("max/min on %s" % a2.kind)
            acc = SV(a2.kind, z3.If(c, b2.term, a2.term))
        return acc
    if len(args) == 1 and not kwargs and isinstance(args[0].kind, (KDict, KList)):
        v = args[0]
        ks = eng.dict_keyseq(st, v) if isinstance(v.kind, KDict) else v
        ek = ks.kind.elem
        if ek in (KInt, KFloat):
            n = eng.list_len(st, ks)
            if not eng.spec_mode and not st.branch(n > 0, "max-empty"):
                eng.raise_(ValueError, node)
            r = st.fresh("mx", sort_of(ek))
            j, i = st.fresh("mxj", z3.IntSort()), z3.Int("mx_i")
            e_i = eng.list_get(st, ks, i).term
            if ek is KInt:
                dom = (e_i <= r) if is_max else (e_i >= r)
            else:
                dom = z3.Not(f_lt(r, e_i)) if is_max else z3.Not(f_lt(e_i, r))
            eng.assume(st, z3.And(0 <= j, j < n, eng.list_get(st, ks, j).term == r))
            eng.assume(st, qforall([i], z3.Implies(z3.And(0 <= i, i < n), dom), patterns=[e_i]))
            return SV(ek, r)
    if len(args) == 1 and set(kwargs) == {"key"} and isinstance(args[0].kind, KList):
        # max/min(list, key=f): an element no other element's key beats (which of several is unspecified here;
        # CPython takes the first).  Keys int or float (NaN keys: comparisons false, CPython-specific result not modelled).
        v = args[0]
        n = eng.list_len(st, v)
        if not eng.spec_mode and not st.branch(n > 0, "max-empty"):
            eng.raise_(ValueError, node)
        w, i = st.fresh("mxw", z3.IntSort()), z3.Int("mxk_i")

        def key_of(sv):
            eng.spec_mode += 1
            try:
                return eng.call_value(st, kwargs["key"], [sv], {}, node)
            finally:
                eng.spec_mode -= 1
        e_i, e_w = eng.list_get(st, v, i), eng.list_get(st, v, w)
        k_i, k_w = key_of(e_i), key_of(e_w)
        k_i, k_w = eng.unify(st, k_i, k_w, node)
        if isinstance(k_i.kind, KOpt) or k_i.kind is KVal:
            k_i, k_w = eng.coerce(st, k_i, KFloat, node), eng.coerce(st, k_w, KFloat, node)
        if k_i.kind is KInt:
            dom = (k_i.term <= k_w.term) if is_max else (k_i.term >= k_w.term)
        elif k_i.kind is KFloat:
            dom = z3.Not(f_lt(k_w.term, k_i.term)) if is_max else z3.Not(f_lt(k_i.term, k_w.term))
        else:
            raise Unsupported("max/min key of kind %s" % k_i.kind)
        eng.assume(st, z3.And(0 <= w, w < n))
        eng.assume(st, qforall([i], z3.Implies(z3.And(0 <= i, i < n), dom), patterns=[e_i.term]))
        return e_w
    h = eng.reg.specfuncs.get("minmax_seq")
    if h is not None:
        return h(eng, st, args, kwargs, node, is_max)
    raise Unsupported("max/min over a sequence (line %s)" % getattr(node, "lineno", "?"))


def b_anyall(eng, st, args, kwargs, node, is_any):
    _use("any/all")
    (v,) = args
    if v.kind is KConst and isinstance(v.const, tuple) and v.const[0] == "genexp":
        gen, frame = v.const[1], v.const[2]
        if len(gen.generators) != 1:
            raise Unsupported("nested generator")
        g = gen.generators[0]
        src = eng.eval(st, g.iter)
        n, getter = eng.as_sequence(st, src, node)
        i = st.fresh("qi", z3.IntSort())
        fr = eng.frame(st)
        saved = dict(fr.env)
        eng.spec_mode += 1
        try:
            eng.assign_pure(st, g.target, getter(i))
            conds = [eng.truth(st, eng.eval(st, c)) for c in g.ifs]
            body = eng.truth(st, eng.eval(st, gen.elt))
        finally:
            eng.spec_mode -= 1
            fr.env = saved
        rng = z3.And([z3.And(0 <= i, i < n)] + conds)
        if is_any:
            return SV(KBool, z3.Exists([i], z3.And(rng, body)))
        return SV(KBool, qforall([i], z3.Implies(rng, body)))
    if isinstance(v.kind, KList):
        i = st.fresh("qi", z3.IntSort())
        n = eng.list_len(st, v)
        body = eng.truth(st, eng.list_get(st, v, i))
        if is_any:
            return SV(KBool, z3.Exists([i], z3.And(0 <= i, i < n, body)))
        return SV(KBool, qforall([i], z3.Implies(z3.And(0 <= i, i < n), body)))
    raise Unsupported("any/all over %s" % v.kind)


def count_less(row, n, x):
    """|{i in [0,n) : row[i] < x}| for an int row (library-level mathematical function; facts about it are emitted by
    list.sort and by the contracts that use it)."""
    return uf("count_less", row.sort(), z3.IntSort(), z3.IntSort(), z3.IntSort())(row, n, x)


def count_lt_f(row, n, x):
    """|{i in [0,n) : row[i] < x}| for a float row; defining equations: count(row, 0, x) = 0,
    count(row, k+1, x) = count(row, k, x) + (1 if row[k] < x else 0)."""
    return uf("count_lt_f", row.sort(), z3.IntSort(), F(), z3.IntSort())(row, n, x)


def count_gt_f(row, n, x):
    return uf("count_gt_f", row.sort(), z3.IntSort(), F(), z3.IntSort())(row, n, x)


def rank_in_set(has, x):
    """|{k : has[k] and k < x}| for a finite int set given by its membership row."""
    return uf("rank_in_set", has.sort(), z3.IntSort(), z3.IntSort())(has, x)


def filter_src(lst_term, j):
    """Source index of the j-th element of a list built by a filtered comprehension / filter() (defined by that construction;
    carried over by list(...) copies; unconstrained for any other list)."""
    return uf("filter_src", z3.IntSort(), z3.IntSort(), z3.IntSort())(lst_term, j)


def idx_query(st, j):
    """Identically true; a trigger term (see the filtered comprehension)."""
    f = uf("idx_query", z3.IntSort(), z3.BoolSort())
    if not st.ghost.get("idx_query_axiom"):
        st.ghost["idx_query_axiom"] = True
        a = z3.Int("iq_j")
        st.assume(qforall([a], f(a), patterns=[f(a)]), quantified=True)
    return f(j)


def all_distinct(row, n):
    return uf("all_distinct", row.sort(), z3.IntSort(), z3.BoolSort())(row, n)


def sorted_pos(lst_term, key_term):
    """Library witness: the position in sorted(...)'s result of (an) element with this key."""
    return uf("sorted_pos_" + str(key_term.sort()), z3.IntSort(), key_term.sort(), z3.IntSort())(lst_term, key_term)


def b_sorted(eng, st, args, kwargs, node):
    """sorted(iterable, key=f): a fresh list that is an ordered permutation of the input: every result element is an
    input element (perm), every input element occurs in the result at position sorted_pos(result, key) (named witness),
    and keys are non-decreasing.  Keys: int or float.  `reverse` unsupported."""
    _use("sorted")
    if "reverse" in kwargs:
        raise Unsupported("sorted(reverse=...)")
    n, getter = eng.as_sequence(st, args[0], node)
    keyf = kwargs.get("key")
    i, j = z3.Int("srt_i"), z3.Int("srt_j")

    def key_of(sv):
        if keyf is None:
            return sv
        eng.spec_mode += 1
        try:
            return eng.call_value(st, keyf, [sv], {}, node)
        finally:
            eng.spec_mode -= 1
    e_i = getter(i)
    ek = e_i.kind
    out = eng.new_list(st, KList(ek), n)
    _, e_ = eng.lnames(out.kind)
    arr = st.fresh("sorted", z3.ArraySort(z3.IntSort(), sort_of(ek)))
    perm = st.fresh("sortperm", z3.ArraySort(z3.IntSort(), z3.IntSort()))
    st.heap[e_] = z3.Store(eng.harr(st, e_), out.term, arr)
    src_at_perm = getter(perm[j])
    k_res = key_of(SV(ek, arr[j]))
    k_res2 = key_of(SV(ek, arr[i]))
    k_src = key_of(e_i)
    if k_res.kind is KInt:
        le = k_res2.term <= k_res.term
    elif k_res.kind is KFloat:
        le = z3.Not(f_lt(k_res.term, k_res2.term))
    else:
        raise Unsupported("sorted with key kind %s" % k_res.kind)
    inv = st.fresh("sortinv", z3.ArraySort(z3.IntSort(), z3.IntSort()))
    eng.assume(st, qforall([j], z3.Implies(z3.And(0 <= j, j < n), z3.And(0 <= perm[j], perm[j] < n, arr[j] == src_at_perm.term,
                                                                  inv[perm[j]] == j)), patterns=[arr[j]]))
    eng.assume(st, qforall([i, j], z3.Implies(z3.And(0 <= i, i < j, j < n), le), patterns=[z3.MultiPattern(arr[i], arr[j])]))
    sp = sorted_pos(out.term, k_src.term)
    trig = [e_i.term] if e_i.term is not None else None
    eng.assume(st, qforall([i], z3.Implies(z3.And(0 <= i, i < n), z3.And(0 <= sp, sp < n, key_of(SV(ek, arr[sp])).term == k_src.term)), patterns=trig))
    eng.set_is_tuple(st, out, False)
    st.ghost["last_sorted"] = out
    st.ghost["last_sorted_heap"] = dict(st.heap)
    return out


def b_range(eng, st, args, kwargs, node):
    _use("range")
    xs = [eng.coerce(st, a, KInt, node).term for a in args]
    if len(xs) == 1:
        lo, hi, step = z3.IntVal(0), xs[0], z3.IntVal(1)
    elif len(xs) == 2:
        lo, hi, step = xs[0], xs[1], z3.IntVal(1)
    else:
        lo, hi, step = xs
    step_s = z3.simplify(step)
    if z3.is_int_value(step_s) and step_s.as_long() == 1:
        n = z3.If(hi > lo, hi - lo, 0)
        return SV(KConst, None, const=("seq", n, lambda i: SV(KInt, lo + i), KInt, ("range", lo, hi)))
    if not eng.spec_mode and not st.branch(step > 0, "range-step>0"):
        raise Unsupported("range with non-positive step")
    n = z3.If(hi > lo, (hi - lo + step - 1) / step, 0)
    return SV(KConst, None, const=("seq", n, lambda i: SV(KInt, lo + i * step), KInt))


def b_enumerate(eng, st, args, kwargs, node):
    _use("enumerate")
    src = args[0]
    start = args[1] if len(args) > 1 else kwargs.get("start", sv_int(0))
    start = eng.coerce(st, start, KInt, node)
    n, getter = eng.as_sequence(st, src, node)

    def get(i):
        it = getter(i)
        return SV(KTuple([KInt, it.kind]), None, items=[SV(KInt, start.term + i), it])
    return SV(KConst, None, const=("seq", n, get, None))


def b_zip(eng, st, args, kwargs, node):
    """zip(a, b, ...): tuples up to the shortest argument (strict= unsupported)."""
    _use("zip")
    if kwargs:
        raise Unsupported("zip(strict=...)")
    seqs = [eng.as_sequence(st, a, node) for a in args]
    n = seqs[0][0]
    for m, _ in seqs[1:]:
        n = z3.If(m < n, m, n)

    def get(i):
        items = [g(i) for _, g in seqs]
        return SV(KTuple([it.kind for it in items]), None, items=items)
    return SV(KConst, None, const=("seq", z3.simplify(n), get, None))


def b_filter(eng, st, args, kwargs, node):
    """filter(f, iterable): the filtered comprehension [x for x in iterable if f(x)] (f evaluated without exception paths)."""
    _use("filter")
    if len(node.args) != 2 or kwargs:
        raise Unsupported("filter signature")
    var = ast.Name(id="__filter_x", ctx=ast.Load())
    if isinstance(node.args[0], ast.Constant) and node.args[0].value is None:
        cond = var
    else:
        cond = ast.Call(func=node.args[0], args=[var], keywords=[])
    comp = ast.ListComp(elt=var, generators=[ast.comprehension(target=ast.Name(id="__filter_x", ctx=ast.Store()), iter=node.args[1],
                                                                  ifs=[cond], is_async=0)])
    ast.copy_location(comp, node)
    ast.fix_missing_locations(comp)
    return comprehension(eng, st, comp, "list")


def b_reversed(eng, st, args, kwargs, node):
    _use("reversed")
    n, getter = eng.as_sequence(st, args[0], node)
    return SV(KConst, None, const=("seq", n, lambda i: getter(n - 1 - i), None))


# --------------------------------------------------------------------------------------------------
# methods
def m_list_append(eng, st, recv, args, kwargs, node):
    _use("list.append")
    eng.check_container_guard(st, recv, node, True)
    eng.list_append(st, recv, args[0], node)
    return NONE


def m_dict_get(eng, st, recv, args, kwargs, node):
    _use("dict.get")
    eng.check_container_guard(st, recv, node, False)
    key = eng.coerce_key(st, args[0], recv.kind.k, node)
    default = args[1] if len(args) > 1 else NONE
    has = eng.dict_has(st, recv, key)
    val = eng.dict_get(st, recv, key)
    if eng.spec_mode:
        a, b = eng.unify(st, val, default, node)
        return SV(a.kind, z3.If(has, a.term, b.term))
    if val.kind is KVal:
        # dynamic values: no path split, the result is a conditional value
        try:
            d = eng.box(st, default)
            return SV(KVal, z3.If(has, val.term, d.term))
        except Unsupported:
            pass
    if st.branch(has, "dict.get"):
        return val
    return default


def m_dict_pop(eng, st, recv, args, kwargs, node):
    _use("dict.pop")
    eng.check_container_guard(st, recv, node, True)
    key = eng.coerce_key(st, args[0], recv.kind.k, node)
    has = eng.dict_has(st, recv, key)
    if st.branch(has, "dict.pop"):
        val = eng.dict_get(st, recv, key)
        eng.dict_del(st, recv, key)
        return val
    if len(args) > 1:
        return args[1]
    eng.raise_(KeyError, node)


def m_dict_keys(eng, st, recv, args, kwargs, node):
    return recv


def m_dict_values(eng, st, recv, args, kwargs, node):
    _use("dict.values")
    eng.check_container_guard(st, recv, node, False)
    ks = eng.dict_keyseq(st, recv)
    n = eng.list_len(st, ks)
    return SV(KConst, None, const=("seq", n, lambda i: eng.dict_get(st, recv, eng.list_get(st, ks, i)), recv.kind.v))


def m_dict_items(eng, st, recv, args, kwargs, node):
    _use("dict.items")
    eng.check_container_guard(st, recv, node, False)
    ks = eng.dict_keyseq(st, recv)
    n = eng.list_len(st, ks)

    def get(i):
        k = eng.list_get(st, ks, i)
        v = eng.dict_get(st, recv, k)
        return SV(KTuple([k.kind, v.kind]), None, items=[k, v])
    return SV(KConst, None, const=("seq", n, get, None))


def m_dict_update(eng, st, recv, args, kwargs, node):
    _use("dict.update")
    eng.check_container_guard(st, recv, node, True)
    eng.dict_update(st, recv, args[0], node)
    return NONE


def m_set_add(eng, st, recv, args, kwargs, node):
    _use("set.add")
    eng.check_container_guard(st, recv, node, True)
    eng.set_add(st, recv, eng.coerce(st, args[0], recv.kind.elem, node))
    return NONE


def m_set_discard(eng, st, recv, args, kwargs, node):
    eng.check_container_guard(st, recv, node, True)
    eng.set_discard(st, recv, eng.coerce(st, args[0], recv.kind.elem, node))
    return NONE


def m_set_remove(eng, st, recv, args, kwargs, node):
    eng.check_container_guard(st, recv, node, True)
    k = eng.coerce(st, args[0], recv.kind.elem, node)
    if not st.branch(eng.set_has(st, recv, k), "set.remove"):
        eng.raise_(KeyError, node)
    eng.set_discard(st, recv, k)
    return NONE


def m_val_get(eng, st, recv, args, kwargs, node):
    d = eng.coerce(st, recv, KDict(KStr, KVal), node)
    return m_dict_get(eng, st, d, args, kwargs, node)


def m_val_items(eng, st, recv, args, kwargs, node):
    d = eng.coerce(st, recv, KDict(KStr, KVal), node)
    return m_dict_items(eng, st, d, args, kwargs, node)


# --------------------------------------------------------------------------------------------------
# comprehensions
def _peeled_triggers(term, var):
    """Extra E-matching triggers for an element term a[var] whose array a is a chain of stores: the same read on each
    array underneath the stores (instances are harmless, the axiom itself is unchanged)."""
    out = []
    t = z3.simplify(term)
    if z3.is_select(t) and z3.eq(t.arg(1), var):
        a = t.arg(0)
        while z3.is_store(a):
            a = a.arg(0)
            out.append(z3.Select(a, var))
    return out


def _mentions(term, var):
    seen, todo = set(), [term]
    while todo:
        t = todo.pop()
        if t.get_id() in seen:
            continue
        seen.add(t.get_id())
        if z3.eq(t, var):
            return True
        todo.extend(t.children())
    return False


def comprehension(eng, st, node, what, frame=None):
    """[elt for x in src if c]: result characterised by quantified axioms (DESIGN 3.2): without a
    filter, len and pointwise map; with a filter, a strictly increasing source-index map and its
    inverse.  Element and filter expressions are evaluated in pure mode (no exception paths)."""
    _use("comprehension")
    if len(node.generators) != 1:
        raise Unsupported("nested comprehension (line %s)" % node.lineno)
    g = node.generators[0]
    src = eng.eval(st, g.iter)
    n, getter = eng.as_sequence(st, src, node)
    fr = eng.frame(st)
    saved = dict(fr.env)
    j = st.fresh("cj", z3.IntSort())

    def pure_at(idx):
        eng.spec_mode += 1
        try:
            eng.assign_pure(st, g.target, getter(idx))
            conds = [eng.truth(st, eng.eval(st, c)) for c in g.ifs]
            if what == "dict":
                elt = (eng.eval(st, node.key), eng.eval(st, node.value))
            else:
                elt = eng.eval(st, node.elt)
            return conds, elt
        finally:
            eng.spec_mode -= 1
            fr.env = dict(saved)

    if what == "list":
        conds, elt = pure_at(j)
        ek = elt.kind
        if isinstance(ek, (KOpt,)) or ek is KConst or ek is KNone:
            ek = KVal
        out = eng.new_list(st, KList(ek))
        n_, e_ = eng.lnames(out.kind)
        arr = st.fresh("comp", z3.ArraySort(z3.IntSort(), sort_of(ek)))
        eltc = eng.coerce(st, elt, ek, node)
        if not g.ifs:
            st.heap[n_] = z3.Store(eng.harr(st, n_), out.term, n)
            src_j = getter(j)
            trig = [arr[j]] + ([src_j.term] if src_j.term is not None and src_j.kind is not KConst else [])
            if isinstance(src_j.kind, KTuple) and src_j.term is None:
                # zip/enumerate/items sources: every component that depends on the index is an alternative trigger
                for it in (src_j.items or []):
                    if it.term is not None and it.kind is not KConst and not z3.is_int_value(z3.simplify(it.term)) \
                            and not z3.eq(it.term, j) and _mentions(it.term, j):
                        trig.append(it.term)
            eng.assume(st, qforall([j], z3.Implies(z3.And(0 <= j, j < n), arr[j] == eltc.term), patterns=trig))
        else:
            m = st.fresh("compn", z3.IntSort())
            srcidx = st.fresh("compsrc", z3.ArraySort(z3.IntSort(), z3.IntSort()))
            pos = st.fresh("comppos", z3.ArraySort(z3.IntSort(), z3.IntSort()))
            conds2, elt2 = pure_at(srcidx[j])
            elt2 = eng.coerce(st, elt2, ek, node)
            j2 = z3.Int("cj2")
            st.heap[n_] = z3.Store(eng.harr(st, n_), out.term, m)
            eng.assume(st, z3.And(0 <= m, m <= n))
            eng.assume(st, qforall([j], z3.Implies(z3.And(0 <= j, j < m),
                       z3.And(0 <= srcidx[j], srcidx[j] < n, z3.And(conds2), arr[j] == elt2.term, pos[srcidx[j]] == j,
                              # the source index as a function of (result list, position): lets contracts name the witness
                              filter_src(out.term, j) == srcidx[j])),
                       patterns=[arr[j]]))
            if eng.reg.rt_helpers.get("comp_monotone_full"):
                eng.assume(st, qforall([j, j2], z3.Implies(z3.And(0 <= j, j < j2, j2 < m), srcidx[j] < srcidx[j2]),
                           patterns=[z3.MultiPattern(srcidx[j], srcidx[j2])]))
            # (order preservation of the filter is only emitted on request: the all-pairs form floods E-matching with one
            # instance per pair of source-index terms; no current contract needs it)
            conds3, elt3 = pure_at(j)
            elt3 = eng.coerce(st, elt3, ek, node)
            src_j = getter(j)
            trig = [pos[j]] + ([src_j.term] if src_j.term is not None else [])
            if src_j.term is not None:
                trig += _peeled_triggers(src_j.term, j)
            fwd = z3.Implies(z3.And(0 <= j, j < n, z3.And(conds3)), z3.And(0 <= pos[j], pos[j] < m, srcidx[pos[j]] == j))
            eng.assume(st, qforall([j], fwd, patterns=trig))
            # where a selected source element ends up in the result -- only on request (idx_query(j), identically true, is a
            # trigger term contracts put next to an index they ask about): stating it for every known source term would let
            # this axiom and the previous one feed each other new terms forever
            fwdq = z3.Implies(z3.And(0 <= j, j < n, z3.And(conds3)), z3.And(0 <= pos[j], pos[j] < m, arr[pos[j]] == elt3.term))
            eng.assume(st, qforall([j], z3.Implies(idx_query(st, j), fwdq), patterns=[idx_query(st, j)]))
            fwd = z3.And(fwd, fwdq)
            # ground instances at the indices the source list was explicitly written at (append / item assignment)
            if src_j.term is not None:
                t = z3.simplify(src_j.term)
                a = t.arg(0) if z3.is_select(t) else None
                seen = 0
                while a is not None and z3.is_store(a) and seen < 4:
                    eng.assume(st, z3.substitute(fwd, (j, a.arg(1))))
                    a = a.arg(0)
                    seen += 1
            st.ghost.setdefault("comp", {})[out.term.get_id()] = (srcidx, pos, m)
        st.heap[e_] = z3.Store(eng.harr(st, e_), out.term, arr)
        eng.set_is_tuple(st, out, False)
        # ghost: a comprehension `[f(x) for x in src]` without filter remembers its source list (used by the
        # serialisation model of the journal file backend)
        if not g.ifs and isinstance(src.kind, KList) and isinstance(node.elt, ast.Call) and node.elt.args \
                and isinstance(node.elt.args[0], ast.Name) and isinstance(g.target, ast.Name) and node.elt.args[0].id == g.target.id:
            st.ghost.setdefault("comp_src", {})[out.term.get_id()] = src
        return out
    if what == "dict":
        conds, (kx, vx) = pure_at(j)
        if g.ifs:
            # {k: v for k, v in d.items() if cond}: identity map with a filter -- pointwise characterisation
            tg = g.target
            ident = (isinstance(tg, ast.Tuple) and len(tg.elts) == 2 and all(isinstance(x, ast.Name) for x in tg.elts)
                     and isinstance(node.key, ast.Name) and isinstance(node.value, ast.Name)
                     and node.key.id == tg.elts[0].id and node.value.id == tg.elts[1].id
                     and isinstance(g.iter, ast.Call) and isinstance(g.iter.func, ast.Attribute) and g.iter.func.attr == "items")
            if not ident:
                raise Unsupported("filtered dict comprehension")
            srcd = eng.eval(st, g.iter.func.value)
            if not isinstance(srcd.kind, KDict):
                raise Unsupported("filtered dict comprehension over %s" % srcd.kind)
            out = eng.new_dict(st, KDict(srcd.kind.k, srcd.kind.v))
            h, v, sz = eng.dnames(out.kind)
            hs, vs, szs = eng.dnames(srcd.kind)
            kk = z3.Const("fdc_k", sort_of(srcd.kind.k))
            hsrc, vsrc = eng.harr(st, hs)[srcd.term], eng.harr(st, vs)[srcd.term]
            eng.spec_mode += 1
            try:
                fr.env[tg.elts[0].id] = SV(srcd.kind.k, kk)
                fr.env[tg.elts[1].id] = SV(srcd.kind.v, vsrc[kk])
                cond = z3.And([eng.truth(st, eng.eval(st, c)) for c in g.ifs])
            finally:
                eng.spec_mode -= 1
                fr.env = dict(saved)
            mem = st.fresh("fdch", z3.ArraySort(sort_of(srcd.kind.k), z3.BoolSort()))
            eng.assume(st, qforall([kk], mem[kk] == z3.And(hsrc[kk], cond), patterns=[mem[kk], hsrc[kk]]))
            cnt = st.fresh("fdcn", z3.IntSort())
            eng.assume(st, z3.And(cnt >= 0, cnt <= eng.harr(st, szs)[srcd.term]))
            eng.assume(st, (cnt == 0) == qforall([kk], z3.Not(mem[kk]), patterns=[mem[kk]]))
            st.heap[h] = z3.Store(eng.harr(st, h), out.term, mem)
            st.heap[v] = z3.Store(eng.harr(st, v), out.term, vsrc)
            st.heap[sz] = z3.Store(eng.harr(st, sz), out.term, cnt)
            return out
        vk = vx.kind
        if isinstance(vk, KOpt) or vk is KConst or vk is KNone:
            vk = KVal
        out = eng.new_dict(st, KDict(kx.kind, vk))
        h, v, sz = eng.dnames(out.kind)
        mem = st.fresh("dch", z3.ArraySort(sort_of(kx.kind), z3.BoolSort()))
        val = st.fresh("dcv", z3.ArraySort(sort_of(kx.kind), sort_of(vk)))
        wit = st.fresh("dcw", z3.ArraySort(sort_of(kx.kind), z3.IntSort()))
        vxc = eng.coerce(st, vx, vk, node)
        kk = z3.Const("dc_k", sort_of(kx.kind))
        # keys of the source are distinct when iterating a dict: last-wins is then irrelevant
        eng.assume(st, qforall([j], z3.Implies(z3.And(0 <= j, j < n), z3.And(mem[kx.term], wit[kx.term] == j)), patterns=[mem[kx.term]]) if False else z3.BoolVal(True))
        _, (kw, vw) = pure_at(wit[kk])
        vwc = eng.coerce(st, vw, vk, node)
        eng.assume(st, qforall([j], z3.Implies(z3.And(0 <= j, j < n), mem[kx.term]), patterns=[kx.term, mem[kx.term]]))
        eng.assume(st, qforall([kk], z3.Implies(mem[kk], z3.And(0 <= wit[kk], wit[kk] < n, kw.term == kk, val[kk] == vwc.term)), patterns=[mem[kk]]))
        cnt = st.fresh("dcn", z3.IntSort())
        eng.assume(st, z3.And(cnt >= 0, cnt <= n))
        eng.assume(st, (cnt == 0) == qforall([kk], z3.Not(mem[kk]), patterns=[mem[kk]]))
        st.heap[h] = z3.Store(eng.harr(st, h), out.term, mem)
        st.heap[v] = z3.Store(eng.harr(st, v), out.term, val)
        st.heap[sz] = z3.Store(eng.harr(st, sz), out.term, cnt)
        return out
    raise Unsupported("%s comprehension" % what)


# --------------------------------------------------------------------------------------------------
# numpy-lite / math (scalar)
def b_np_clip(eng, st, args, kwargs, node):
    """np.clip(x, lo, hi) on scalars: order facts only (valid for IEEE doubles): NaN passes through."""
    _use("np.clip")
    x, lo, hi = [eng.coerce(st, a, KFloat, node).term for a in args[:3]]
    r = z3.If(f_is_nan(x), x, z3.If(f_lt(x, lo), lo, z3.If(f_lt(hi, x), hi, x)))
    return SV(KFloat, r)


def b_np_round(eng, st, args, kwargs, node):
    """np.round(x): round-half-even to an integral float."""
    _use("np.round")
    x = eng.coerce(st, args[0], KFloat, node).term
    r = f_r(x)
    fl = z3.ToInt(r)
    frac = r - z3.ToReal(fl)
    res = z3.If(frac < 0.5, fl, z3.If(frac > 0.5, fl + 1, z3.If(fl % 2 == 0, fl, fl + 1)))
    return SV(KFloat, z3.If(f_is_fin(x), f_fin(z3.ToReal(res)), x))


def nextafter_down(x):
    return uf("nextafter_down", F(), F())(x)


def b_np_nextafter(eng, st, args, kwargs, node):
    """np.nextafter(x, y) with y < x: the largest double below x -- uninterpreted, with the order
    fact nextafter_down(x) < x (granularity facts are stated as assumptions where needed)."""
    _use("np.nextafter")
    x = eng.coerce(st, args[0], KFloat, node).term
    y = eng.coerce(st, args[1], KFloat, node).term
    if not eng.spec_mode and not st.branch(f_lt(y, x), "nextafter-direction"):
        raise Unsupported("np.nextafter upwards")
    r = nextafter_down(x)
    eng.assume(st, z3.Implies(f_is_fin(x), z3.And(f_is_fin(r), f_lt(r, x))))
    return SV(KFloat, r)


def b_math_exp(eng, st, args, kwargs, node):
    _use("math.exp")
    x = eng.coerce(st, args[0], KFloat, node).term
    r = uf("math_exp", F(), F())(x)
    eng.assume(st, z3.Implies(f_is_fin(x), z3.And(f_is_fin(r), f_r(r) > 0)))
    return SV(KFloat, r)


def b_math_log(eng, st, args, kwargs, node):
    _use("math.log")
    x = eng.coerce(st, args[0], KFloat, node).term
    if not eng.spec_mode and not st.branch(z3.And(f_is_fin(x), f_r(x) > 0), "log-domain"):
        eng.raise_(ValueError, node)
    r = uf("math_log", F(), F())(x)
    eng.assume(st, f_is_fin(r))
    return SV(KFloat, r)


# --------------------------------------------------------------------------------------------------
def _crc32(eng, st, sv):
    t = uf("crc32", z3.StringSort(), z3.IntSort())(eng.coerce(st, sv, KStr).term)
    st.assume(t >= 0)
    return t


def m_str_format(eng, st, recv, args, kwargs, node):
    """str.format: an uninterpreted but DETERMINISTIC function of the template and the (boxed) arguments."""
    if kwargs or len(args) > 3:
        return SV(KStr, st.fresh("fmt", z3.StringSort()))
    vs = []
    for a in args:
        try:
            vs.append(eng.box(st, a).term)
        except Unsupported:
            return SV(KStr, st.fresh("fmt", z3.StringSort()))
    f = uf("str_format_%d" % len(vs), z3.StringSort(), *([val_sort()] * len(vs) + [z3.StringSort()]))
    return SV(KStr, f(recv.term, *vs))


def b_reduce(eng, st, args, kwargs, node):
    """functools.reduce(lambda acc, x: ..., iterable, init): executed as the loop it is, with the invariant given in the
    contract under loops['reduce'] (accumulator named as the lambda's first parameter, index _i)."""
    _use("functools.reduce")
    from .interp import Closure, SpecCtx
    f, it, init = args[0], args[1], args[2]
    if not (f.kind is KConst and isinstance(f.const, Closure)):
        raise Unsupported("reduce with a non-lambda function")
    lam = f.const.node
    acc_name, x_name = [a.arg for a in lam.args.args]
    fr = eng.frame(st)
    c = fr.contract
    spec = c.loops.get("reduce") if c is not None else None
    if spec is None:
        raise Unsupported("functools.reduce without a loop spec 'reduce' (line %s)" % getattr(node, "lineno", "?"))
    n, getter = eng.as_sequence(st, it, node)
    fnctx = getattr(st, "fn_ctx", None)
    ctx = SpecCtx(fnctx.pre_heap, fnctx.pre_env, pre_nref=fnctx.pre_nref)
    saved = dict(fr.env)
    q = fr.fi.qualname if fr.fi else "?"

    def check(phase):
        for k, inv in enumerate(spec.invariant):
            st.oblige("%s:reduce:%s/%d" % (q, phase, k), eng.spec_eval(st, inv, ctx), kind=phase,
                      where="line %s" % getattr(node, "lineno", "?"), info={"clause": inv if isinstance(inv, str) else "inv%d" % k})
    fr.env["_n"] = SV(KInt, n)
    fr.env["_i"] = sv_int(0)
    fr.env[acc_name] = init
    check("inv-entry")
    choice = st.decide(2, "reduce")
    i = st.fresh("rit", z3.IntSort())
    st.assume(i >= 0)
    acc = SV(init.kind, st.fresh("racc", sort_of(init.kind)))
    fr.env["_i"] = SV(KInt, i)
    fr.env[acc_name] = acc
    for inv in spec.invariant:
        eng.assume(st, eng.spec_eval(st, inv, ctx))
    if choice == 0:
        st.assume(i < n)
        if not st.feasible():
            raise PathCut()
        fr.env[x_name] = getter(i)
        new_acc = eng.eval(st, lam.body)
        fr.env[acc_name] = eng.coerce(st, new_acc, init.kind, node)
        fr.env["_i"] = SV(KInt, i + 1)
        check("inv-preserve")
        raise PathCut()
    st.assume(i >= n)
    if not st.feasible():
        raise PathCut()
    for k in ("_i", "_n", acc_name, x_name):
        if k in saved:
            fr.env[k] = saved[k]
        else:
            fr.env.pop(k, None)
    fr.env["_reduce_n"] = SV(KInt, n)
    return acc


def m_list_sort(eng, st, recv, args, kwargs, node):
    """list.sort() in place (no key/reverse): the contents become an ordered permutation of the old contents."""
    _use("list.sort")
    if args or kwargs:
        raise Unsupported("list.sort with arguments")
    eng.check_container_guard(st, recv, node, True)
    k = recv.kind
    n = eng.list_len(st, recv)
    _, e_ = eng.lnames(k)
    old = z3.simplify(eng.harr(st, e_)[recv.term])
    arr = st.fresh("sorted", z3.ArraySort(z3.IntSort(), sort_of(k.elem)))
    perm = st.fresh("sortperm", z3.ArraySort(z3.IntSort(), z3.IntSort()))
    inv = st.fresh("sortinv", z3.ArraySort(z3.IntSort(), z3.IntSort()))
    i, j = z3.Int("ls_i"), z3.Int("ls_j")
    if k.elem is KInt:
        le = arr[i] <= arr[j]
    elif k.elem is KFloat:
        le = z3.Not(f_lt(arr[j], arr[i]))
    else:
        raise Unsupported("list.sort of %s" % k)
    eng.assume(st, qforall([j], z3.Implies(z3.And(0 <= j, j < n), z3.And(0 <= perm[j], perm[j] < n, arr[j] == old[perm[j]], inv[perm[j]] == j)), patterns=[arr[j]]))
    eng.assume(st, qforall([i], z3.Implies(z3.And(0 <= i, i < n), z3.And(0 <= inv[i], inv[i] < n, perm[inv[i]] == i, arr[inv[i]] == old[i])), patterns=[old[i]]))
    eng.assume(st, qforall([i, j], z3.Implies(z3.And(0 <= i, i < j, j < n), le), patterns=[z3.MultiPattern(arr[i], arr[j])]))
    if k.elem is KInt:
        # rank fact of sorting a duplicate-free list: the j-th element of the result has exactly j old elements below it
        # (count_less(row, n, x) = |{i < n : row[i] < x}|, a mathematical function of the old contents)
        old_s = z3.simplify(old)
        eng.assume(st, z3.Implies(all_distinct(old_s, n), qforall([j], z3.Implies(z3.And(0 <= j, j < n), count_less(old_s, n, arr[j]) == j),
                                                                  patterns=[arr[j]])))
    if k.elem is KFloat:
        # order-statistic facts of sorting a NaN-free float list (count_lt/count_gt(row, n, x) = number of entries
        # below/above x): the j-th output has at least j+1 inputs <= it and at least n-j inputs >= it
        old_s = old
        x = z3.Const("ls_x", F())
        nonan = qforall([i], z3.Implies(z3.And(0 <= i, i < n), z3.Not(f_is_nan(old_s[i]))), patterns=[old_s[i]])
        clt, cgt = count_lt_f(old_s, n, x), count_gt_f(old_s, n, x)
        rng = z3.And(0 <= j, j < n, z3.Not(f_is_nan(x)))
        eng.assume(st, z3.Implies(nonan, z3.And(
            qforall([j, x], z3.Implies(rng, z3.If(f_lt(arr[j], x), clt >= j + 1, clt <= j)), patterns=[z3.MultiPattern(arr[j], clt)]),
            qforall([j, x], z3.Implies(rng, z3.If(f_lt(x, arr[j]), cgt >= n - j, cgt <= n - 1 - j)), patterns=[z3.MultiPattern(arr[j], cgt)]))))
    st.heap[e_] = z3.Store(eng.harr(st, e_), recv.term, arr)
    st.ghost["last_sorted"] = recv
    st.ghost["last_sorted_heap"] = dict(st.heap)
    return NONE


def b_np_asarray(eng, st, args, kwargs, node):
    """np.asarray / np.array of a Python list of numbers (optionally dtype=float): a fresh 1-D array = list of floats
    (ints converted exactly)."""
    _use("np.asarray")
    v = args[0]
    if v.kind is KConst and isinstance(v.const, tuple) and v.const and v.const[0] == "genexp":
        v = comprehension(eng, st, v.const[1], "list", frame=v.const[2])
    if not isinstance(v.kind, KList):
        raise Unsupported("np.asarray of %s" % v.kind)
    if v.kind.elem is KFloat or ("dtype" not in kwargs and v.kind.elem is KInt):
        return eng.copy_list(st, SV(KList(v.kind.elem), v.term) if v.kind.region else v)
    if v.kind.elem is KInt:
        n = eng.list_len(st, v)
        out = eng.new_list(st, KList(KFloat), n)
        _, e_src = eng.lnames(v.kind)
        _, e_dst = eng.lnames(out.kind)
        arr = st.fresh("asarr", z3.ArraySort(z3.IntSort(), F()))
        i = z3.Int("asa_i")
        eng.assume(st, qforall([i], arr[i] == f_fin(z3.ToReal(eng.harr(st, e_src)[v.term][i])), patterns=[arr[i]]))
        st.heap[e_dst] = z3.Store(eng.harr(st, e_dst), out.term, arr)
        return out
    raise Unsupported("np.asarray of %s" % v.kind)


def b_np_nanext(eng, st, args, kwargs, node, is_max):
    """np.nanmin / np.nanmax of a 1-D float array: NaN if every entry is NaN (numpy warns), otherwise the value of a
    non-NaN entry that no non-NaN entry beats.  Order facts only: valid for IEEE doubles."""
    _use("np.nanmin/nanmax")
    v = args[0]
    if not (isinstance(v.kind, KList) and v.kind.elem is KFloat):
        raise Unsupported("np.nanmin/nanmax of %s" % v.kind)
    n = eng.list_len(st, v)
    if not eng.spec_mode and not st.branch(n > 0, "nanext-empty"):
        eng.raise_(ValueError, node)
    r = st.fresh("nanmax" if is_max else "nanmin", F())
    i, w = z3.Int("ne_i"), st.fresh("ne_w", z3.IntSort())
    e = eng.list_get(st, v, i).term
    allnan = qforall([i], z3.Implies(z3.And(0 <= i, i < n), f_is_nan(e)), patterns=[e])
    dom = z3.Not(f_lt(r, e)) if is_max else z3.Not(f_lt(e, r))
    eng.assume(st, z3.If(allnan, f_is_nan(r), z3.And(
        z3.Not(f_is_nan(r)), 0 <= w, w < n, eng.list_get(st, v, w).term == r,
        qforall([i], z3.Implies(z3.And(0 <= i, i < n, z3.Not(f_is_nan(e))), dom), patterns=[e]))))
    return SV(KFloat, r)


def b_np_nanpercentile(eng, st, args, kwargs, node):
    """np.nanpercentile(a, q), 0 <= q <= 100: NaN if every entry is NaN, otherwise a value between the smallest and the
    largest non-NaN entry (interpolation is not modelled: order facts only)."""
    _use("np.nanpercentile")
    v = args[0]
    if not (isinstance(v.kind, KList) and v.kind.elem is KFloat):
        raise Unsupported("np.nanpercentile of %s" % v.kind)
    n = eng.list_len(st, v)
    r = st.fresh("nanpct", F())
    i = z3.Int("np_i")
    lo, hi = st.fresh("np_lo", z3.IntSort()), st.fresh("np_hi", z3.IntSort())
    e = eng.list_get(st, v, i).term
    allnan = qforall([i], z3.Implies(z3.And(0 <= i, i < n), f_is_nan(e)), patterns=[e])
    elo, ehi = eng.list_get(st, v, lo).term, eng.list_get(st, v, hi).term
    eng.assume(st, z3.If(z3.Or(n == 0, allnan), f_is_nan(r), z3.And(
        z3.Not(f_is_nan(r)), 0 <= lo, lo < n, 0 <= hi, hi < n, z3.Not(f_is_nan(elo)), z3.Not(f_is_nan(ehi)),
        z3.Not(f_lt(r, elo)), z3.Not(f_lt(ehi, r)))))
    return SV(KFloat, r)
