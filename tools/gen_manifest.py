"""Regenerate MANIFEST.json from props.py (claimed checks) + the not_applicable table below."""
import json, os, sys
HERE = os.path.dirname(os.path.dirname(os.path.abspath(__file__)))
sys.path.insert(0, HERE)
import props

TEXT = {
 "C01": ("proof", "5-C01", "Every obligation generated from the real source of InMemoryStorage's methods against behaviour-case contracts taken from the documented storage contract (return value, exception class, whole post-view, representation invariant R1-R3/Rsep) is discharged by z3 for all inputs and all pre-states satisfying the invariant; finite histories follow by induction over calls.",
         "in-memory and journal backends proved; RDB(sqlite) and cached RDB only by a bounded differential stand-in against the proved in-memory storage (labelled bounded, not proved); gRPC/Redis assumed; library contracts in pyvc/lib.py trusted; see evidence.assumptions"),
 "C03": ("proof", "5-C03", "Ghost lock-set obligations: every read/write of a field of the storage object, and of every mutable container reachable from it, lies inside `with self._lock` (one obligation per access, decided by the symbolic executor's held-lock set on every path). With the sequential contracts of C01 this gives atomicity of each call by the standard mutex argument (assumed meta-theorem).",
         "schedules are not explored; the mutex meta-theorem is assumed; only InMemoryStorage so far"),
 "C04": ("proof", "5-C04", "Compare-and-set contract of set_trial_state_values (RUNNING succeeds only from WAITING: behaviour case `lost` returns False and changes nothing) and the WAITING-cursor invariant R4, discharged for all inputs/pre-states; the journal replay handler and JournalStorage.set_trial_state_values carry the same compare-and-set cases. At the Study level, against the abstract storage contract: Study._pop_waiting_trial_id returns None having changed nothing, or the id of exactly the one trial that this call moved WAITING -> RUNNING (a raising claim leaves every trial as it was); Study.ask (default usage) returns a Trial whose id is either newly created RUNNING or claimed by this very call, every other trial unchanged; Trial._suggest returns the fixed (enqueued) parameter value.",
         "atomicity via C03; RDB CAS assumed; Study.ask proved for fixed_distributions=None only; schedules not explored"),
 "C12": ("proof", "5-C12", "Invariant R5 (best_trial_id is None iff no COMPLETE trial; otherwise it names a COMPLETE trial no other COMPLETE trial strictly beats in the study's direction, ±inf included) is preserved by every mutating method, and get_best_trial's postcondition follows from it. BaseStorage.get_best_trial (the generic scan used by journal/cached/gRPC storages) returns a COMPLETE current trial no COMPLETE trial beats, and Study.best_trial returns a deep copy of such a trial or, in the constraint fallback, of a feasible trial no feasible COMPLETE trial beats, computed from the storage's CURRENT trials (all discharged by z3 against an abstract storage contract).",
         "COMPLETE values are one non-NaN float per objective (precondition); RDB ranking SQL not covered; _get_feasible_trials is an assumed contract (feasibility predicate uninterpreted); Pareto front (best_trials) only via the bounded lattice stand-in"),
 "C20": ("proof", "5-C20", "Frame obligations generated automatically for every heap array a setter's contract does not list in `modifies`: every FrozenTrial object and every dict/list hanging off one that was allocated before the call is unchanged afterwards (copy-on-write discipline), for all inputs and pre-states. Study.best_trial returns a fresh deep copy (object and all five attribute dicts fresh); _tell_with_warning and Trial.__init__/_suggest never write to a trial object that existed before the call; journal replay handlers replace, never mutate, shared trial objects.",
         "in-memory and journal backends; nested JSON values treated as immutable; RDB/cached/gRPC getters not covered"),
}
TECH = "contract-based deductive verification: VCs generated from the real Python AST by symbolic execution (pyvc), discharged by z3 / cvc5"

def main():
    allp = [json.loads(l) for l in open(os.path.join(HERE, "properties.jsonl"))]
    na_reason = json.load(open(os.path.join(HERE, "tools", "not_applicable.json")))
    checks, na = [], []
    for p in allp:
        pid = p["id"]
        if pid in props.PROPS:
            pr = props.PROPS[pid]
            cat, ref, text, note = TEXT.get(pid) or ("proof", "5-" + pid, pr["claim"], pr["note"])
            checks.append({
                "property_id": pid, "quick_cmd": "./check %s quick" % pid, "thorough_cmd": "./check %s thorough" % pid,
                "evidence_file": "evidence/%s.json" % pid, "replay_cmd_template": "./check %s --replay {path}" % pid,
                "engine": "pyvc", "level_claimed": {"category": pr.get("level", cat), "text": text, "design_ref": ref},
                "level_note": note, "technique": pr.get("technique", TECH)})
        else:
            na.append({"property_id": pid, "reason": na_reason.get(pid, "check not built yet (work in progress; see DESIGN.md section 5)")})
    m = {"version": 1, "setup_cmd": "./setup.sh",
         "hooks": {"guard": "OPTUNA_VERIF", "enable": "none needed: contracts are sidecar files under /verif/contracts and the engine only reads /repo's source; the guard name is reserved and unused",
                   "baseline_off_cmd": "cd /repo && /venv/bin/python -m pytest -ra -q -p no:cacheprovider --timeout=900 --continue-on-collection-errors",
                   "source_commits": json.load(open(os.path.join(HERE, "tools", "source_commits.json"))), "add_only": True},
         "engines": [{"name": "pyvc", "path": "pyvc/", "serves_properties": sorted(props.PROPS),
                      "kind_free_text": "own VC generator: symbolic execution of the real Python AST (re-read from /repo on every run) against sidecar contracts; obligations discharged by z3 (E-matching, then MBQI), cvc5 on unknown"}],
         "checks": checks, "not_applicable": na,
         "notes": "exit codes of ./check: 0 held, 1 violation (VIOLATION line), 2 undecided, 3 checker failure"}
    json.dump(m, open(os.path.join(HERE, "MANIFEST.json"), "w"), indent=1)
    print("manifest: %d checks, %d not applicable" % (len(checks), len(na)))

main()
