"""Contracts for the exhaustive samplers (C14) and the id-independence of sampler memory (C09)."""
import z3

from pyvc.contracts import Registry, case, loop
from pyvc.kinds import *  # noqa
from pyvc.state import SV
from contracts import distributions, study as _study

R = Registry()
R.merge(distributions.R)
R.merge(_study.R)
BF = "optuna/samplers/_brute_force.py"

# --- C14: the candidate list of a finite integer / categorical domain is the domain, each point once ----------------
R.schema("CategoricalDistribution", dict(R.schemas.get("CategoricalDistribution", {}), choices="list[Any]"))
R.spec(BF, "_enumerate_candidates", variant="int", props=["C14"], types={"param_distribution": "IntDistribution"},
       returns_kind="list[int]",
       requires=["param_distribution.step >= 1", "param_distribution.low <= param_distribution.high"],
       cases=[case("ok", ensures=[
           # exactly the grid low, low+step, ... <= high, in order, each once
           "len(result) == (param_distribution.high - param_distribution.low) // param_distribution.step + 1",
           "forall(lambda i: implies(0 <= i and i < len(result), result[i] == param_distribution.low + i * param_distribution.step), trigger=result[i])",
       ])])
R.spec(BF, "_enumerate_candidates", variant="cat", props=["C14"], types={"param_distribution": "CategoricalDistribution"},
       returns_kind="list[int]",
       cases=[case("ok", ensures=[
           "len(result) == len(param_distribution.choices)",
           "forall(lambda i: implies(0 <= i and i < len(result), result[i] == i), trigger=result[i])"])])


# --- C09: what samplers/pruners remember about trials must not depend on storage-assigned trial ids ------------------
GA = "optuna/samplers/_ga/_base.py"
import optuna.samplers._ga._base as _ga  # noqa: E402
R.classes.update({"BaseGASampler": _ga.BaseGASampler})
R.schema("BaseGASampler", {"_population_size": "int | None"})
I = z3.IntSort()


def _remember_attrs(eng, st, env):
    pass


R.spec("optuna/storages/_base.py", "BaseStorage.get_study_system_attrs", trusted=True, returns_kind="dict[str, Any]",
       cases=[case("ok", ensures=["fresh(result)", "remember_study_attrs(self, study_id, result)"])], modifies=["D:*:dict<str,val>"],
       note="assumed: returns some dict (its content is whatever was stored; the contract below speaks about it through a ghost)")
R.spec("optuna/storages/_base.py", "BaseStorage.set_study_system_attr", trusted=True, types={"value": "Any"},
       cases=[case("ok")], note="assumed (effect on later reads not needed here)")
R.spec(GA, "BaseGASampler._get_parent_cache_key_prefix", trusted=True, returns_kind="str", cases=[case("ok", returns="'GA:parent:'")],
       note="class-level constant string")
R.spec(GA, "BaseGASampler.select_parent", trusted=True, types={"study": "Study"}, returns_kind="list[FrozenTrial]",
       cases=[case("raises", when="nondet()", raises="Exception"), case("ok", ensures=["fresh(result)"])], modifies=["L:*:list<ref:FrozenTrial>", "G:is_tuple"],
       note="abstract hook")
R.spec("optuna/study/study.py", "Study._get_trials", trusted=True, types={"states": "list[TrialState] | None"}, returns_kind="list[FrozenTrial]",
       requires=["states is None"],
       cases=[case("ok", ensures=["fresh(result)", "listed_by_number(self, result)"])], modifies=["L:*:list<ref:FrozenTrial>", "G:is_tuple"],
       note="assumed (C01): all trials of the study ordered by number, result[k].number == k, each a current trial")


@R.specfunc()
def remember_study_attrs(eng, st, storage, sid, d):
    """Ghost handle on the returned dict + record schema of parent-cache entries (what get_parent_population itself writes:
    `[trial._trial_id for trial in parents]`): list entries hold non-negative ints."""
    st.ghost["study_attrs"] = d
    V = val_sort()
    k = z3.String("rs_k")
    i = z3.Int("rs_i")
    v = eng.dict_get(st, d, SV(KStr, k)).term
    lst = SV(KList(KVal), V.lr(v))
    e = eng.list_get(st, lst, i).term
    _schema = (qforall([k, i], z3.Implies(z3.And(eng.dict_has(st, d, SV(KStr, k)), V.is_vlist(v), 0 <= i, i < eng.list_len(st, lst)),
                                                z3.And(V.is_vint(e), V.i(e) >= 0,
                                                       # ... and each is the storage id of a current trial of the study (trials are
                                                       # never removed from a live study)
                                                       _study._as_trial(storage.term, sid.term, _trial_of_id(storage.term, sid.term, V.i(e))),
                                                       _trial_of_id(storage.term, sid.term, V.i(e)) > 0,
                                                       eng.get_field(st, SV(KRef("FrozenTrial"), _trial_of_id(storage.term, sid.term, V.i(e))), "_trial_id").term == V.i(e))),
                                patterns=[e]))
    # parent-cache entries are lists (or None)
    g = z3.Int("rs_g")
    kg = SV(KStr, z3.Concat(z3.StringVal("GA:parent:"), uf("int_to_str", z3.IntSort(), z3.StringSort())(g)))
    vg = eng.dict_get(st, d, kg).term
    sch2 = qforall([g], z3.Implies(eng.dict_has(st, d, kg), z3.Or(V.is_vnone(vg), V.is_vlist(vg))), patterns=[eng.dict_has(st, d, kg)])
    return SV(KBool, z3.And(_schema, sch2))


def _trial_of_id(storage, sid, tid):
    return uf("trial_of_id", I, I, I, I)(storage, sid, tid)


@R.specfunc()
def cached_parents_by_id(eng, st, self_sv, study, generation, result):
    """When the study's system attrs hold a parent cache entry for `generation` (a list of ints), result[i] is the current
    trial of the study whose STORAGE ID (`_trial_id`) is the i-th cached id -- the ids are what the cache stores."""
    d = st.ghost.get("study_attrs")
    if d is None:
        return SV(KBool, z3.BoolVal(True))
    storage = eng.get_field(st, study, "_storage")
    sid = eng.get_field(st, study, "_study_id")
    V = val_sort()
    key = SV(KStr, z3.Concat(z3.StringVal("GA:parent:"), uf("int_to_str", z3.IntSort(), z3.StringSort())(generation.term)))
    v = eng.dict_get(st, d, key).term
    ids = SV(KList(KVal), V.lr(v))
    i = z3.Int("cp_i")
    e = eng.list_get(st, ids, i).term
    r = eng.list_get(st, result, i)
    hit = z3.And(eng.dict_has(st, d, key), z3.Not(V.is_vnone(v)))
    return SV(KBool, z3.Implies(hit, z3.And(eng.list_len(st, result) == eng.list_len(st, ids),
                                            qforall([i], z3.Implies(z3.And(0 <= i, i < eng.list_len(st, ids)),
                                                                    z3.And(_study._as_trial(storage.term, sid.term, r.term),
                                                                           eng.get_field(st, r, "_trial_id").term == V.i(e))), patterns=[r.term]))))


@R.specfunc()
def listed_by_number(eng, st, study, trials):
    storage = eng.get_field(st, study, "_storage")
    sid = eng.get_field(st, study, "_study_id")
    k = z3.Int("ln_k")
    t = eng.list_get(st, trials, k)
    x = z3.Int("ln_t")
    xv = SV(KRef("FrozenTrial"), x)
    xn = eng.get_field(st, xv, "_number").term
    return SV(KBool, z3.And(
        qforall([k], z3.Implies(z3.And(0 <= k, k < eng.list_len(st, trials)),
                                z3.And(eng.get_field(st, t, "_number").term == k, _study._as_trial(storage.term, sid.term, t.term))), patterns=[t.term]),
        # ... and every current trial is listed, at the position of its number
        qforall([x], z3.Implies(_study._as_trial(storage.term, sid.term, x),
                                z3.And(0 <= xn, xn < eng.list_len(st, trials), eng.list_get(st, trials, xn).term == x)),
                patterns=[_study._as_trial(storage.term, sid.term, x)])))


@R.specfunc()
def ids_are_numbers(eng, st, study):
    """Restriction under which the parent cache is correct: every current trial's storage id equals its number (true on a fresh
    single-study in-memory storage only)."""
    storage = eng.get_field(st, study, "_storage")
    sid = eng.get_field(st, study, "_study_id")
    t = z3.Int("ian_t")
    tv = SV(KRef("FrozenTrial"), t)
    return SV(KBool, qforall([t], z3.Implies(_study._as_trial(storage.term, sid.term, t),
                                             eng.get_field(st, tv, "_trial_id").term == eng.get_field(st, tv, "_number").term),
                             patterns=[_study._as_trial(storage.term, sid.term, t)]))


@R.specfunc()
def cache_entry_wf(eng, st):
    """Record schema of the cache entry (what get_parent_population itself writes): a list of ints."""
    return SV(KBool, z3.BoolVal(True))


R.spec(GA, "BaseGASampler.get_parent_population", props=["C09"], types={"study": "Study"}, returns_kind="list[FrozenTrial]",
       requires=["generation >= 0"],
       cases=[case("gen0", when="generation == 0", ensures=["len(result) == 0"]),
              case("ok", any_outcome=True, ensures_return=[
                  # what comes back from the cache are the trials whose ids were cached -- on EVERY storage, whatever its ids
                  "cached_parents_by_id(self, study, generation, result)"])],
       modifies=["L:*", "D:*:dict<str,val>", "G:is_tuple"])

# the same contract under the restriction R' = "every trial's storage id equals its number": proved; without it the clause
# fails (F6, known finding: the cache stores ids but is read back by position in the number-ordered list)
R.spec(GA, "BaseGASampler.get_parent_population", variant="ids-are-numbers", props=["C09"], types={"study": "Study"},
       returns_kind="list[FrozenTrial]",
       requires=["generation >= 0", "ids_are_numbers(study)"],
       cases=[case("gen0", when="generation == 0", ensures=["len(result) == 0"]),
              case("ok", any_outcome=True, ensures_return=["cached_parents_by_id(self, study, generation, result)"])],
       modifies=["L:*", "D:*:dict<str,val>", "G:is_tuple"])


# --- C14, grid sampler: the ids still to be visited ---------------------------------------------------------------------------------
GR = "optuna/samplers/_grid.py"
import optuna.samplers._grid as _grid  # noqa: E402
R.classes.update({"GridSampler": _grid.GridSampler})
R.schema("GridSampler", {"_n_min_trials": "int"})
R.spec(GR, "GridSampler._same_search_space", trusted=True, types={"search_space": "Any"}, returns_kind="bool",
       cases=[case("ok", returns="same_space(self, search_space)")], modifies=[],
       note="pure comparison of two grids (uninterpreted)")
R.spec("optuna/trial/_frozen.py", "FrozenTrial.system_attrs", inline=True)
R.spec("optuna/trial/_state.py", "TrialState.is_finished", inline=True)


@R.specfunc()
def same_space(eng, st, sampler, space):
    return SV(KBool, uf("grid_same_space", I, val_sort(), z3.BoolSort())(sampler.term, eng.coerce(st, space, KVal).term))


R.spec("optuna/storages/_base.py", "BaseStorage.get_all_trials", trusted=True, variant="grid", types={"states": "Any"},
       returns_kind="list[FrozenTrial]",
       cases=[case("missing", when="nondet()", raises="KeyError"),
              case("ok", ensures=["fresh(result)", "grid_attrs_wf(result)"])],
       note="assumed: the study's trials; record schema of the sampler's own attributes: grid_id is an int")


def _gattr(eng, st, t, name):
    d = eng.get_field(st, t, "_system_attrs")
    key = SV(KStr, z3.StringVal(name))
    return eng.dict_has(st, d, key), eng.dict_get(st, d, key).term


@R.specfunc()
def grid_attrs_wf(eng, st, trials):
    V = val_sort()
    i = z3.Int("ga_i")
    t = eng.list_get(st, trials, i)
    has, v = _gattr(eng, st, t, "grid_id")
    has2, _ = _gattr(eng, st, t, "search_space")
    return SV(KBool, qforall([i], z3.Implies(z3.And(0 <= i, i < eng.list_len(st, trials)),
                                             z3.And(t.term > 0, z3.Implies(has, z3.And(V.is_vint(v), has2)))), patterns=[t.term]))


def _counted(eng, st, self_sv, t):
    """The trial carries a grid id of THIS sampler's grid."""
    has, _ = _gattr(eng, st, t, "grid_id")
    _, sp = _gattr(eng, st, t, "search_space")
    return z3.And(has, uf("grid_same_space", I, val_sort(), z3.BoolSort())(self_sv.term, sp))


@R.specfunc()
def grid_ids_ok(eng, st, self_sv, result, part=None):
    """Every returned id is a grid index in range that no FINISHED trial of this grid carries; and if nothing is returned,
    every grid index is carried by some finished trial of the listed ones (so stopping is not premature)."""
    trials = st.ghost.get("grid_trials")
    if trials is None:
        return SV(KBool, z3.BoolVal(False))
    V = val_sort()
    n = eng.get_field(st, self_sv, "_n_min_trials").term
    j, i, g = z3.Int("gi_j"), z3.Int("gi_i"), z3.Int("gi_g")
    e = eng.list_get(st, result, j).term
    t = eng.list_get(st, trials, i)
    _, gid = _gattr(eng, st, t, "grid_id")
    stt = eng.get_field(st, t, "state").term
    fin_with = lambda x: z3.And(0 <= i, i < eng.list_len(st, trials), _counted(eng, st, self_sv, t), stt != 0, stt != 4, V.i(gid) == x)
    a = qforall([j], z3.Implies(z3.And(0 <= j, j < eng.list_len(st, result)),
                                z3.And(0 <= e, e < n, z3.Not(z3.Exists([i], fin_with(e))))), patterns=[e])
    from pyvc import lib
    b = z3.Implies(eng.list_len(st, result) == 0,
                   qforall([g], z3.Implies(z3.And(lib.idx_query(st, g), 0 <= g, g < n), z3.Exists([i], fin_with(g))), patterns=[lib.idx_query(st, g)]))
    return SV(KBool, {"a": a, "b": b}.get(part, z3.And(a, b)))


@R.specfunc()
def grid_ids_in_range_unfinished(eng, st, self_sv, result):
    return grid_ids_ok(eng, st, self_sv, result, "a")


@R.specfunc()
def grid_empty_means_done(eng, st, self_sv, result):
    return grid_ids_ok(eng, st, self_sv, result, "b")


@R.specfunc()
def remember_grid_trials(eng, st, trials):
    st.ghost["grid_trials"] = trials
    return SV(KBool, z3.BoolVal(True))


R.contracts[("optuna/storages/_base.py", "BaseStorage.get_all_trials#grid")].cases[1].ensures.append("remember_grid_trials(result)")

R.spec(GR, "GridSampler._get_unvisited_grid_ids", props=["C14"], types={"study": "Study"}, returns_kind="list[int]",
       requires=["self._n_min_trials >= 0"],
       locals={"visited_grids": "list[int]", "running_grids": "list[int]", "unvisited_grids": "set[int]"},
       cases=[case("any", any_outcome=True, ensures_return=["grid_ids_in_range_unfinished(self, result)", "grid_empty_means_done(self, result)"])],
       call_variants={"BaseStorage.get_all_trials": "grid"},
       loops={0: loop(index="_i", invariant=["0 <= _i and _i <= len(_seq)", "fresh(visited_grids) and fresh(running_grids)",
                                             "visited_inv(self, _seq, _i, visited_grids)"],
                      locals={"visited_grids": "list[int]", "running_grids": "list[int]"}, modifies=["L:*:list<int>", "G:is_tuple"])},
       modifies=["L:*", "S:*", "G:is_tuple"])


@R.specfunc()
def visited_inv(eng, st, self_sv, trials, upto, visited):
    """visited_grids holds exactly the grid ids of the finished trials of this grid among the first `upto` listed trials."""
    V = val_sort()
    i, j = z3.Int("vi_i"), z3.Int("vi_j")
    t = eng.list_get(st, trials, i)
    _, gid = _gattr(eng, st, t, "grid_id")
    stt = eng.get_field(st, t, "state").term
    fin_i = z3.And(0 <= i, i < upto.term, _counted(eng, st, self_sv, t), stt != 0, stt != 4)
    e = eng.list_get(st, visited, j).term
    return SV(KBool, z3.And(
        qforall([j], z3.Implies(z3.And(0 <= j, j < eng.list_len(st, visited)), z3.Exists([i], z3.And(fin_i, V.i(gid) == e))), patterns=[e]),
        qforall([i], z3.Implies(fin_i, z3.Exists([j], z3.And(0 <= j, j < eng.list_len(st, visited), e == V.i(gid)))), patterns=[t.term])))
