"""Contracts for the trial queue at the Study level (C04): Study._pop_waiting_trial_id claims at most one WAITING trial through
the storage's compare-and-set and returns exactly the id it won."""
import z3

from pyvc.contracts import Registry, case, loop
from pyvc.kinds import *  # noqa
from pyvc.state import SV
from contracts import storage_model

R = Registry()
R.merge(storage_model.R)
SY = "optuna/study/study.py"
I = z3.IntSort()

R.spec("optuna/storages/_base.py", "BaseStorage.get_all_trials", trusted=True, variant="queue",
       types={"states": "Any"}, returns_kind="list[FrozenTrial]",
       cases=[case("missing", when="nondet()", raises="KeyError"),
              case("ok", ensures=["fresh(result)",
                                  "forall(lambda i: implies(0 <= i and i < len(result), result[i] is not None), trigger=result[i])"])],
       note="assumed: returns some list of trial snapshots (which ones is irrelevant here: every claim goes through the storage's "
            "compare-and-set, whose contract decides)")


@R.specfunc()
def claimed_exactly(eng, st, storage, tid):
    """g_state changed at `tid` only: it was WAITING and is RUNNING now."""
    ctx = eng.spec_stack[-1]
    d = eng.get_field(st, storage, "g_state")
    h, v, n = eng.dnames(d.kind)
    hn, vn = eng.harr(st, h)[d.term], eng.harr(st, v)[d.term]
    ho = ctx.pre_heap.get(h, st.heap0.get(h))[d.term]
    vo = ctx.pre_heap.get(v, st.heap0.get(v))[d.term]
    k = z3.Int("ce_k")
    t = sort_of(tid.kind).v(tid.term) if isinstance(tid.kind, KOpt) else tid.term
    return SV(KBool, z3.And(ho[t], hn[t], vo[t] == 4, vn[t] == 0,
                            qforall([k], z3.And(hn[k] == ho[k], z3.Implies(k != t, vn[k] == vo[k])), patterns=[hn[k], vn[k]])))


@R.specfunc()
def states_unchanged(eng, st, storage):
    ctx = eng.spec_stack[-1]
    d = eng.get_field(st, storage, "g_state")
    h, v, n = eng.dnames(d.kind)
    hn, vn = eng.harr(st, h)[d.term], eng.harr(st, v)[d.term]
    ho = ctx.pre_heap.get(h, st.heap0.get(h))[d.term]
    vo = ctx.pre_heap.get(v, st.heap0.get(v))[d.term]
    k = z3.Int("su_k")
    return SV(KBool, qforall([k], z3.And(hn[k] == ho[k], vn[k] == vo[k]), patterns=[hn[k], vn[k]]))


R.spec(SY, "Study._pop_waiting_trial_id", props=["C04"], returns_kind="int | None",
       cases=[case("any", any_outcome=True, ensures_raise=[
           # an exception (KeyError of a deleted study, UpdateFinishedTrialError of a trial finished meanwhile) leaves every
           # trial as it was: a claim that raised did not succeed
           "states_unchanged(self._storage)"],
           ensures_return=[
           # no trial claimed: nothing changed; a trial claimed: exactly that one went WAITING -> RUNNING, by this call
           "implies(result is None, states_unchanged(self._storage))",
           "implies(result is not None, claimed_exactly(self._storage, result))"])],
       loops={0: loop(index="_i", invariant=["0 <= _i", "states_unchanged(self._storage)",
                                             "forall(lambda i: implies(0 <= i and i < len(_seq), _seq[i] is not None), trigger=_seq[i])"],
                      modifies=storage_model.AS_MOD)},
       call_variants={"BaseStorage.get_all_trials": "queue"},
       modifies=storage_model.AS_MOD + ["L:*:list<ref:FrozenTrial>", "G:is_tuple"])


# --- Study.ask (default usage: no fixed distributions): replaces, for that usage, the ASSUMED contract of storage_model ----------
from contracts import trial as _trial  # noqa: E402
R.merge(_trial.R)

R.spec("optuna/storages/_base.py", "BaseStorage.create_new_trial", trusted=True, types={"template_trial": "FrozenTrial | None"},
       returns_kind="int", requires=["template_trial is None"],
       cases=[case("missing", when="nondet()", raises="KeyError", ensures=["states_unchanged(self)"]),
              case("ok", ensures=["created_running(self, result)"])],
       modifies=storage_model.AS_MOD,
       note="assumed AS contract (proved for InMemoryStorage under C01): a new trial id, RUNNING, nothing else changes")


@R.specfunc()
def created_running(eng, st, storage, tid):
    ctx = eng.spec_stack[-1]
    d = eng.get_field(st, storage, "g_state")
    h, v, n = eng.dnames(d.kind)
    hn, vn = eng.harr(st, h)[d.term], eng.harr(st, v)[d.term]
    ho = ctx.pre_heap.get(h, st.heap0.get(h))[d.term]
    vo = ctx.pre_heap.get(v, st.heap0.get(v))[d.term]
    k = z3.Int("cr_k")
    t = tid.term
    return SV(KBool, z3.And(z3.Not(ho[t]), hn[t], vn[t] == 0,
                            qforall([k], z3.Implies(k != t, z3.And(hn[k] == ho[k], vn[k] == vo[k])), patterns=[hn[k], vn[k]])))


@R.specfunc()
def asked_ok(eng, st, self_sv, result):
    """The returned Trial's id names a RUNNING trial that is either new or was WAITING and was claimed by this very call;
    every other trial is exactly as before."""
    storage = eng.get_field(st, self_sv, "_storage")
    tid = eng.get_field(st, result, "_trial_id")
    a = R.specfuncs["created_running"](eng, st, storage, tid).term
    b = R.specfuncs["claimed_exactly"](eng, st, storage, tid).term
    return SV(KBool, z3.Or(a, b))


R.spec(SY, "Study.ask", variant="proved", props=["C04", "C02"], types={"fixed_distributions": "Any"}, returns_kind="Trial",
       requires=["fixed_distributions is None"],
       cases=[case("any", any_outcome=True,
                   ensures_return=["asked_ok(self, result)", "result.study is self and result.storage is self._storage"])],
       call_variants={"BaseStorage.get_all_trials": "queue"},
       loops={0: loop(unroll_max=1)},
       modifies=storage_model.AS_MOD + ["F:_ThreadLocalStudyAttribute.cached_all_trials", "F:Trial.*", "F:FrozenTrial.*", "D:*", "L:*", "G:is_tuple"])


@R.specfunc()
def converted(eng, st, d):
    t = uf("converted_distribution", I, I)(d.term)
    st.assume(z3.And(t > 0, t < st.nref0))
    return SV(KRef("BaseDistribution"), t)


R.spec("optuna/distributions.py", "_convert_old_distribution_to_new_distribution", trusted=True, types={"distribution": "BaseDistribution"},
       returns_kind="BaseDistribution", cases=[case("ok", returns="converted(distribution)")],
       note="deprecated-distribution shim: some distribution, a function of its argument")
