"""Contracts for optuna/search_space/intersection.py and group_decomposed.py (C17)."""
import z3

from pyvc.contracts import Registry, case, loop
from pyvc.kinds import *  # noqa
from pyvc.state import SV
from contracts import storage_model

R = Registry()
R.merge(storage_model.R)
IS = "optuna/search_space/intersection.py"
I = z3.IntSort()
S = z3.StringSort()


# distribution equality (BaseDistribution.__eq__: same class and same attribute dict) is an equivalence relation on
# distribution objects; nothing else about it is needed
def _deq(a, b):
    return uf("dist_eq", I, I, z3.BoolSort())(a, b)


def _deq_axioms(st):
    x, y, z = z3.Ints("de_x de_y de_z")
    if not st.ghost.get("deq_axioms"):
        st.ghost["deq_axioms"] = True
        st.assume(z3.And(qforall([x], _deq(x, x), patterns=[_deq(x, x)]),
                         qforall([x, y], _deq(x, y) == _deq(y, x), patterns=[_deq(x, y)]),
                         qforall([x, y, z], z3.Implies(z3.And(_deq(x, y), _deq(y, z)), _deq(x, z)), patterns=[z3.MultiPattern(_deq(x, y), _deq(y, z))])),
                  quantified=True)


@R.specfunc("__eq__:BaseDistribution")
def dist_eq(eng, st, a, b):
    _deq_axioms(st)
    return z3.And(a.term != 0, b.term != 0, _deq(a.term, b.term))


def _dists(eng, st, t):
    return eng.get_field(st, t, "_distributions")


def _state(eng, st, t):
    return eng.get_field(st, t, "state").term


# TrialState: RUNNING=0 COMPLETE=1 PRUNED=2 FAIL=3 WAITING=4
def _contributes(state, include_pruned):
    """Finished trials whose distributions are intersected."""
    return z3.Or(state == 1, z3.And(include_pruned, state == 2))


def _pending(state):
    """Trials that may still finish and contribute later."""
    return z3.Or(state == 0, state == 4)


def _acc(i):
    return uf("accounted", I, z3.BoolSort())(i)


@R.specfunc()
def sorted_numbers(eng, st, trials):
    i, j = z3.Int("sn_i"), z3.Int("sn_j")
    n = eng.list_len(st, trials)
    ti, tj = eng.list_get(st, trials, i), eng.list_get(st, trials, j)
    ni, nj = eng.get_field(st, ti, "_number").term, eng.get_field(st, tj, "_number").term
    return SV(KBool, z3.And(qforall([i, j], z3.Implies(z3.And(0 <= i, i < j, j < n), ni < nj), patterns=[z3.MultiPattern(ti.term, tj.term)]),
                            qforall([i], z3.Implies(z3.And(0 <= i, i < n), z3.And(ni >= 0, ti.term != 0)), patterns=[ti.term])))


def _covers(eng, st, ss, trials, include_pruned, member):
    """ss (a dict, not None) is the intersection of the distributions of the trials selected by member(i, state):
    (a) every entry of ss occurs with an equal distribution in every selected trial;
    (b) a name missing from ss is missing from, or mapped to a different distribution by, some selected trial --
        relative to the distribution of the witness trial cover_w2(name)."""
    n = eng.list_len(st, trials)
    i = z3.Int("cv_i")
    nm = z3.String("cv_name")
    t = eng.list_get(st, trials, i)
    d = _dists(eng, st, t)
    key = SV(KStr, nm)
    sel = z3.And(0 <= i, i < n, member(i, _state(eng, st, t)))
    has_ss, has_t = eng.dict_has(st, ss, key), eng.dict_has(st, d, key)
    a = qforall([i, nm], z3.Implies(z3.And(sel, has_ss), z3.And(has_t, _deq(eng.dict_get(st, d, key).term, eng.dict_get(st, ss, key).term))),
                patterns=[z3.MultiPattern(t.term, has_ss)])
    return a


@R.specfunc()
def ss_sound_acc(eng, st, ss, trials, include_pruned):
    """Every entry of the cached search space agrees with every already-accounted trial."""
    return SV(KBool, _covers(eng, st, ss, trials, include_pruned.term, lambda i, s: _acc(i)))


@R.specfunc()
def ss_sound_all(eng, st, ss, trials, include_pruned):
    """Every entry of the search space occurs, with an equal distribution, in EVERY finished trial of interest."""
    return SV(KBool, _covers(eng, st, ss, trials, include_pruned.term, lambda i, s: _contributes(s, include_pruned.term)))


@R.specfunc()
def acc_ok(eng, st, trials, include_pruned, cached):
    """Ghost set `accounted` (indices into trials): only finished trials of interest; contains every such trial below the
    cursor; and no trial below the cursor is still pending."""
    n = eng.list_len(st, trials)
    i = z3.Int("ao_i")
    t = eng.list_get(st, trials, i)
    s = _state(eng, st, t)
    num = eng.get_field(st, t, "_number").term
    rng = z3.And(0 <= i, i < n)
    return SV(KBool, z3.And(
        qforall([i], z3.Implies(_acc(i), z3.And(rng, _contributes(s, include_pruned.term))), patterns=[_acc(i)]),
        qforall([i], z3.Implies(z3.And(rng, num < cached.term), z3.And(z3.Not(_pending(s)), z3.Implies(_contributes(s, include_pruned.term), _acc(i)))),
                patterns=[t.term])))


@R.specfunc()
def some_acc(eng, st):
    i = z3.Int("sa_i")
    return SV(KBool, z3.Exists([i], _acc(i)))


@R.specfunc()
def some_contributes(eng, st, trials, include_pruned):
    n = eng.list_len(st, trials)
    i = z3.Int("sc_i")
    t = eng.list_get(st, trials, i)
    return SV(KBool, z3.Exists([i], z3.And(0 <= i, i < n, _contributes(_state(eng, st, t), include_pruned.term))))


@R.specfunc()
def cursor_ok(eng, st, trials, cursor):
    """No trial numbered below the cursor is still WAITING or RUNNING (so nothing below it can change the result later)."""
    n = eng.list_len(st, trials)
    i = z3.Int("co_i")
    t = eng.list_get(st, trials, i)
    return SV(KBool, qforall([i], z3.Implies(z3.And(0 <= i, i < n, eng.get_field(st, t, "_number").term < cursor.term),
                                             z3.Not(_pending(_state(eng, st, t)))), patterns=[t.term]))


@R.specfunc()
def subdict_of(eng, st, a, b):
    """Every entry of dict a is an entry (same object) of dict b."""
    nm = z3.String("sd_name")
    key = SV(KStr, nm)
    ha, hb = eng.dict_has(st, a, key), eng.dict_has(st, b, key)
    return SV(KBool, qforall([nm], z3.Implies(ha, z3.And(hb, eng.dict_get(st, a, key).term == eng.dict_get(st, b, key).term)), patterns=[ha]))


R.spec("optuna/trial/_state.py", "TrialState.is_finished", inline=True)
R.spec("optuna/trial/_frozen.py", "FrozenTrial.distributions", inline=True)
R.spec("optuna/trial/_frozen.py", "FrozenTrial.number", inline=True)



def _interesting(state, include_pruned):
    return z3.Or(state == 0, state == 1, state == 4, z3.And(include_pruned, state == 2))


@R.specfunc()
def scan_inv(eng, st, trials, m, nc, ss, old_ss, include_pruned, cached, part=None):
    """Loop invariant of the reverse scan; indices >= m have been visited (none of them triggered the break)."""
    _deq_axioms(st)
    n = eng.list_len(st, trials)
    ip = include_pruned.term
    j = z3.Int("si_j")
    nm = z3.String("si_name")
    t = eng.list_get(st, trials, j)
    s = _state(eng, st, t)
    num = eng.get_field(st, t, "_number").term
    vis = z3.And(m.term <= j, j < n)
    key = SV(KStr, nm)
    d = _dists(eng, st, t)
    ssd = SV(ss.kind.inner, ss.kind.sort.v(ss.term)) if isinstance(ss.kind, KOpt) else ss
    ss_none = eng.is_none(st, ss)
    i3 = z3.Implies(nc.term == -1, qforall([j], z3.Implies(vis, z3.Not(_interesting(s, ip))), patterns=[t.term]))
    i4 = z3.Implies(nc.term != -1, qforall([j], z3.Implies(z3.And(vis, _pending(s)), nc.term <= num), patterns=[t.term]))
    jj = z3.Int("si_jj")
    tj = eng.list_get(st, trials, jj)
    none_iff = ss_none == z3.And(z3.Not(z3.Exists([jj], _acc(jj))),
                                 qforall([j], z3.Implies(vis, z3.Not(_contributes(s, ip))), patterns=[t.term]))
    has_ss, has_t = eng.dict_has(st, ssd, key), eng.dict_has(st, d, key)
    sound = z3.Implies(z3.Not(ss_none), qforall([j, nm], z3.Implies(
        z3.And(0 <= j, j < n, z3.Or(_acc(j), z3.And(vis, _contributes(s, ip))), has_ss),
        z3.And(has_t, _deq(eng.dict_get(st, d, key).term, eng.dict_get(st, ssd, key).term))), patterns=[z3.MultiPattern(t.term, has_ss)]))
    return SV(KBool, {"i3": i3, "i4": i4, "none_iff": none_iff, "sound": sound}[part] if part else z3.And(i3, i4, none_iff, sound))


for _p in ("i3", "i4", "none_iff", "sound"):
    def _mk(_p=_p):
        def f(eng, st, trials, m, nc, ss, old_ss, include_pruned, cached):
            return scan_inv(eng, st, trials, m, nc, ss, old_ss, include_pruned, cached, _p)
        f.__name__ = "scan_" + _p
        return f
    R.specfuncs["scan_" + _p] = _mk()



def _complete(eng, st, ss, trials, selected):
    """A name missing from ss is missing from a selected trial, or two selected trials disagree on its distribution."""
    _deq_axioms(st)
    n = eng.list_len(st, trials)
    a, b = z3.Int("cp_a"), z3.Int("cp_b")
    nm = z3.String("cp_name")
    key = SV(KStr, nm)
    ssd = SV(ss.kind.inner, ss.kind.sort.v(ss.term)) if isinstance(ss.kind, KOpt) else ss
    ta, tb = eng.list_get(st, trials, a), eng.list_get(st, trials, b)
    da, db = _dists(eng, st, ta), _dists(eng, st, tb)
    sel_a = z3.And(0 <= a, a < n, selected(a, _state(eng, st, ta)))
    sel_b = z3.And(0 <= b, b < n, selected(b, _state(eng, st, tb)))
    ha, hb = eng.dict_has(st, da, key), eng.dict_has(st, db, key)
    has_ss = eng.dict_has(st, ssd, key)
    wit = z3.Exists([a, b], z3.And(sel_a, sel_b, z3.Or(z3.Not(ha), z3.And(ha, hb, z3.Not(_deq(eng.dict_get(st, da, key).term, eng.dict_get(st, db, key).term))))))
    return qforall([nm], z3.Implies(z3.Not(has_ss), wit), patterns=[has_ss])


@R.specfunc()
def ss_complete_acc(eng, st, ss, trials, include_pruned):
    return SV(KBool, _complete(eng, st, ss, trials, lambda i, s: _acc(i)))


@R.specfunc()
def ss_complete_all(eng, st, ss, trials, include_pruned):
    return SV(KBool, _complete(eng, st, ss, trials, lambda i, s: _contributes(s, include_pruned.term)))


@R.specfunc()
def scan_complete(eng, st, trials, m, ss, include_pruned):
    n = eng.list_len(st, trials)
    return SV(KBool, z3.Implies(z3.Not(eng.is_none(st, ss)),
                                _complete(eng, st, ss, trials, lambda i, s: z3.Or(_acc(i), z3.And(m.term <= i, i < n, _contributes(s, include_pruned.term))))))


R.spec(IS, "_calculate", props=["C17"],
       types={"trials": "list[FrozenTrial]", "search_space": "dict[str, BaseDistribution] | None"},
       locals={"search_space": "dict[str, BaseDistribution] | None", "states_of_interest": "list[TrialState]"},
       requires=["sorted_numbers(trials)", "cached_trial_number >= -1",
                 "acc_ok(trials, include_pruned, cached_trial_number)",
                 "(search_space is None) == (not some_acc())",
                 "implies(search_space is not None, ss_sound_acc(search_space, trials, include_pruned))",
                 "implies(search_space is not None, ss_complete_acc(search_space, trials, include_pruned))"],
       cases=[case("ok", ensures=[
           # equals the from-scratch intersection (soundness half): None iff no finished trial of interest, otherwise every
           # entry occurs with an equal distribution in EVERY finished trial of interest of the current list
           "(result[0] is None) == (not some_contributes(trials, include_pruned))",
           "implies(result[0] is not None, ss_sound_all(result[0], trials, include_pruned))",
           # ... completeness half: a name that is missing is missing from, or disputed between, finished trials of interest
           "implies(result[0] is not None, ss_complete_all(result[0], trials, include_pruned))",
           # the new cursor never skips a trial that may still finish
           "result[1] >= -1 and cursor_ok(trials, result[1])",
           # once established it never grows
           "implies(old(search_space) is not None, result[0] is not None and subdict_of(result[0], old(search_space)))",
       ])],
       loops={0: loop(index="_i", invariant=[
           "0 <= _i and _i <= len(trials)", "next_cached_trial_number >= -1",
           "scan_i3(trials, len(trials) - _i, next_cached_trial_number, search_space, old(search_space), include_pruned, cached_trial_number)",
           "scan_i4(trials, len(trials) - _i, next_cached_trial_number, search_space, old(search_space), include_pruned, cached_trial_number)",
           "scan_none_iff(trials, len(trials) - _i, next_cached_trial_number, search_space, old(search_space), include_pruned, cached_trial_number)",
           "scan_sound(trials, len(trials) - _i, next_cached_trial_number, search_space, old(search_space), include_pruned, cached_trial_number)",
           "implies(old(search_space) is not None, search_space is not None and subdict_of(search_space, old(search_space)))",
           "only_fresh_modified()",
           "scan_complete(trials, len(trials) - _i, search_space, include_pruned)",
       ], locals={"search_space": "dict[str, BaseDistribution] | None", "next_cached_trial_number": "int"},
           modifies=["D:*:dict<str,ref:BaseDistribution>", "D:*:dict<str,ref:BaseDistribution>@td"])},
       ensures_all=["only_fresh_modified()"],
       modifies=["D:*:dict<str,ref:BaseDistribution>", "D:*:dict<str,ref:BaseDistribution>@td", "L:*:list<enum:TrialState>", "G:is_tuple"])


# --- group decomposition ------------------------------------------------------------------------------------------
GD = "optuna/search_space/group_decomposed.py"
import optuna.search_space.group_decomposed as _gd  # noqa: E402
R.classes.update({"_SearchSpaceGroup": _gd._SearchSpaceGroup, "_GroupDecomposedSearchSpace": _gd._GroupDecomposedSearchSpace})
R.schema("_SearchSpaceGroup", {"_search_spaces": "list[dict[str, BaseDistribution]]"})

R.spec(GD, "_SearchSpaceGroup.add_distributions", props=["C17"],
       types={"distributions": "dict[str, BaseDistribution]"},
       cases=[case("ok", ensures=["True"])],
       loops={0: loop(index="_i", invariant=["0 <= _i"])},
       modifies=["*"])
