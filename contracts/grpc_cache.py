"""Contracts for optuna/storages/_grpc/client.py: GrpcClientCache (C08, second client-side cache).

What is stated (per function, all inputs): `_add_trial_to_cache` files the trial under its number, keeps an unfinished trial in
the re-fetch set and leaves the watermark alone, and for a finished trial raises the watermark to at least its id and drops
it from the re-fetch set -- nothing else changes; `_read_trials_from_remote_storage` asks the server for exactly (the study's
re-fetch set, ids above its watermark), files every trial of the reply, forgets the study when the server says NOT_FOUND
(KeyError), and leaves the cache alone on any other RPC error.  The multi-client view argument (evolving backend, K1-K3) is
proved for `_CachedStorage` in contracts/cached.py; it is NOT repeated for this class."""
import z3

from pyvc.contracts import Registry, case, loop
from pyvc.kinds import *  # noqa
from pyvc.state import SV, PyExc, PyRaise

R = Registry()
F = "optuna/storages/_grpc/client.py"

import optuna  # noqa: E402
import optuna.storages._grpc.client as _cl  # noqa: E402
R.classes.update({"GrpcClientCache": _cl.GrpcClientCache, "GrpcClientCacheEntry": _cl.GrpcClientCacheEntry,
                  "FrozenTrial": optuna.trial.FrozenTrial, "TrialState": optuna.trial.TrialState})
R.schema("FrozenTrial", {
    "_number": "int", "state": "TrialState", "_values": "list[float] | None",
    "_datetime_start": "ref[datetime] | None", "datetime_complete": "ref[datetime] | None",
    "_params": "dict[str, Any] @ tp", "_distributions": "dict[str, BaseDistribution] @ td",
    "_user_attrs": "dict[str, Any] @ tu", "_system_attrs": "dict[str, Any] @ ts",
    "intermediate_values": "dict[int, float] @ ti", "_trial_id": "int"})
R.schema("GrpcClientCache", {"studies": "dict[int, GrpcClientCacheEntry] @ gst", "grpc_client": "ref[StorageServiceStub]", "lock": "ref[Lock]"})
R.schema("GrpcClientCacheEntry", {"trials": "dict[int, FrozenTrial] @ gtr", "unfinished_trial_ids": "set[int] @ gun",
                                  "last_finished_trial_id": "int"})
R.schema("GetTrialsReply", {"trials": "list[ref[TrialProto]]"})
R.guarded["GrpcClientCache"] = {"lock": "lock", "fields": ["studies"]}
R.guard_stop |= {"FrozenTrial", "StorageServiceStub", "Lock", "GetTrialsReply", "TrialProto", "GetTrialsRequest"}
I = z3.IntSort()
R.spec(F, "GrpcClientCacheEntry.__init__", inline=True)
R.spec("optuna/trial/_state.py", "TrialState.is_finished", inline=True)
R.spec("optuna/trial/_frozen.py", "FrozenTrial.number", inline=True)


# --- library model: the protobuf request, the stub call, the reply ---------------------------------------------------------
def _request(eng, st, args, kwargs, node):
    """api_pb2.GetTrialsRequest(study_id=, included_trial_ids=, trial_id_greater_than=): an opaque message; what was asked
    for is remembered as ghost (a snapshot of the id set's membership row at construction time, as protobuf copies it)."""
    inc = kwargs["included_trial_ids"]
    h, _ = eng.snames(inc.kind)
    st.ghost["grpc_req"] = {"study_id": kwargs["study_id"], "included_row": eng.harr(st, h)[inc.term], "gt": kwargs["trial_id_greater_than"]}
    return eng.new_object(st, "GetTrialsRequest")


def _get_trials_rpc(eng, st, recv, args, kwargs, node):
    """stub.GetTrials(req): a reply with some list of trial messages, or grpc.RpcError (NOT_FOUND / any other code)."""
    import grpc
    c = st.decide(3, "rpc@%s" % getattr(node, "lineno", "?"))
    st.ghost["grpc_calls"] = st.ghost.get("grpc_calls", 0) + 1
    if c == 1:
        e = PyExc(grpc.RpcError, where="GetTrials: NOT_FOUND")
        e.attrs = {"code": SV(KConst, None, const=grpc.StatusCode.NOT_FOUND)}
        st.ghost["grpc_outcome"] = "not_found"
        raise PyRaise(e)
    if c == 2:
        e = PyExc(grpc.RpcError, where="GetTrials: other status")
        e.attrs = {"code": SV(KConst, None, const=grpc.StatusCode.UNAVAILABLE)}
        st.ghost["grpc_outcome"] = "error"
        raise PyRaise(e)
    res = eng.new_object(st, "GetTrialsReply")
    n = st.fresh("ntrials", I)
    st.assume(n >= 0)
    lst = eng.new_list(st, KList(KRef("TrialProto")), n)
    eng.set_field(st, res, "trials", lst)
    st.ghost["grpc_outcome"] = "ok"
    st.ghost["grpc_reply"] = lst
    return res


def _register_lib():
    from optuna.storages._grpc.auto_generated import api_pb2
    R.rt_helpers.setdefault("builtins", {})[api_pb2.GetTrialsRequest] = _request
    R.rt_helpers.setdefault("methods", {})[("StorageServiceStub", "GetTrials")] = _get_trials_rpc


_register_lib()


def _proto_trial(p):
    return uf("proto_trial", I, I)(p)


R.spec("optuna/storages/_grpc/servicer.py", "_from_proto_trial", trusted=True, types={"trial": "ref[TrialProto]"}, returns_kind="FrozenTrial",
       cases=[case("ok", ensures=["result is decoded(trial)", "result._number >= 0"])], modifies=[],
       note="assumed: decoding a trial message is a deterministic function of the message and yields a well-formed FrozenTrial")


@R.specfunc()
def decoded(eng, st, p):
    t = _proto_trial(p.term)
    st.assume(z3.And(t > 0, t < st.nref))
    return SV(KRef("FrozenTrial"), t)


class GC:
    def __init__(self, eng, st, s):
        self.e, self.st = eng, st
        self.studies = eng.get_field(st, s, "studies")

    def has(self, sid):
        return self.e.dict_has(self.st, self.studies, SV(KInt, sid))

    def entry(self, sid):
        return self.e.dict_get(self.st, self.studies, SV(KInt, sid))

    def f(self, sid, name):
        return self.e.get_field(self.st, self.entry(sid), name)


@R.specfunc()
def G_wf(eng, st, self_sv):
    """Entries are distinct objects owning distinct containers."""
    g = GC(eng, st, self_sv)
    a, b = z3.Int("gw_a"), z3.Int("gw_b")
    return SV(KBool, z3.And(
        qforall([a], z3.Implies(g.has(a), z3.And(g.entry(a).term > 0, g.f(a, "trials").term > 0, g.f(a, "unfinished_trial_ids").term > 0)),
                patterns=[g.has(a)]),
        qforall([a, b], z3.Implies(z3.And(g.has(a), g.has(b), a != b), z3.And(
            g.entry(a).term != g.entry(b).term, g.f(a, "trials").term != g.f(b, "trials").term,
            g.f(a, "unfinished_trial_ids").term != g.f(b, "unfinished_trial_ids").term)), patterns=[z3.MultiPattern(g.has(a), g.has(b))])))


def _old(eng, st, f):
    ctx = eng.spec_stack[-1]
    saved = st.heap
    st.heap = dict(ctx.pre_heap)
    try:
        return f()
    finally:
        st.heap = saved


@R.specfunc()
def added(eng, st, self_sv, sid, trial):
    """Exact effect of filing `trial` for study sid (relative to the pre-state)."""
    g = GC(eng, st, self_sv)
    s = sid.term
    num = eng.get_field(st, trial, "_number").term
    tid = eng.get_field(st, trial, "_trial_id").term
    stt = eng.get_field(st, trial, "state").term
    finished = z3.And(stt != 0, stt != 4)
    tr_now = g.f(s, "trials")
    un_now = g.f(s, "unfinished_trial_ids")
    wm_now = g.f(s, "last_finished_trial_id").term
    tr_old, un_old, wm_old, ent_old = _old(eng, st, lambda: (GC(eng, st, self_sv).f(s, "trials"), GC(eng, st, self_sv).f(s, "unfinished_trial_ids"),
                                                            GC(eng, st, self_sv).f(s, "last_finished_trial_id").term, GC(eng, st, self_sv).entry(s)))
    k, x = z3.Int("ad_k"), z3.Int("ad_x")
    h_now = lambda d, key: eng.dict_has(st, d, SV(KInt, key))
    v_now = lambda d, key: eng.dict_get(st, d, SV(KInt, key)).term
    old_has = _old(eng, st, lambda: eng.dict_has(st, tr_old, SV(KInt, k)))
    old_val = _old(eng, st, lambda: eng.dict_get(st, tr_old, SV(KInt, k)).term)
    old_un = _old(eng, st, lambda: eng.set_has(st, un_old, SV(KInt, x)))
    return SV(KBool, z3.And(
        g.entry(s).term == ent_old.term, tr_now.term == tr_old.term, un_now.term == un_old.term,
        h_now(tr_now, num), v_now(tr_now, num) == trial.term,
        qforall([k], z3.Implies(k != num, z3.And(h_now(tr_now, k) == old_has, z3.Implies(old_has, v_now(tr_now, k) == old_val))), patterns=[h_now(tr_now, k)]),
        qforall([x], eng.set_has(st, un_now, SV(KInt, x)) == z3.If(x == tid, z3.Not(finished), old_un), patterns=[eng.set_has(st, un_now, SV(KInt, x))]),
        wm_now == z3.If(finished, z3.If(wm_old >= tid, wm_old, tid), wm_old)))


@R.specfunc()
def others_untouched(eng, st, self_sv, sid):
    """Entries of other studies, and the study table itself, are as before."""
    ctx = eng.spec_stack[-1]
    g = GC(eng, st, self_sv)
    a = z3.Int("ou_a")
    conj = []
    r = z3.Int("ou_r")
    studies_old = _old(eng, st, lambda: GC(eng, st, self_sv).studies)
    has_old = _old(eng, st, lambda: eng.dict_has(st, studies_old, SV(KInt, a)))
    ent_old = _old(eng, st, lambda: eng.dict_get(st, studies_old, SV(KInt, a)).term)
    conj.append(qforall([a], z3.And(g.has(a) == has_old, z3.Implies(has_old, g.entry(a).term == ent_old)), patterns=[g.has(a)]))
    # other studies' containers keep their contents (whole rows of the trial dict / id set, and the watermark)
    def rows(gc, x):
        tr, un = gc.f(x, "trials"), gc.f(x, "unfinished_trial_ids")
        dh, dv, dn = eng.dnames(tr.kind)
        sh, sn = eng.snames(un.kind)
        return (tr.term, un.term, gc.f(x, "last_finished_trial_id").term, eng.harr(st, dh)[tr.term], eng.harr(st, dv)[tr.term],
                eng.harr(st, dn)[tr.term], eng.harr(st, sh)[un.term], eng.harr(st, sn)[un.term])
    now = rows(g, a)
    old = _old(eng, st, lambda: rows(GC(eng, st, self_sv), a))
    conj.append(qforall([a], z3.Implies(z3.And(g.has(a), a != sid.term), z3.And([x == y for x, y in zip(now, old)])), patterns=[g.has(a)]))
    return SV(KBool, z3.And(conj))


G_MOD = ["D:*@gst", "D:*@gtr", "S:*@gun", "F:GrpcClientCacheEntry.*"]
R.spec(F, "GrpcClientCache._add_trial_to_cache", props=["C08"], types={"trial": "FrozenTrial"},
       requires=["G_wf(self)", "study_id in self.studies", "cached_numbers_ok(self)", "trial._number >= 0"],
       cases=[case("ok", ensures=["added(self, study_id, trial)", "others_untouched(self, study_id)", "G_wf(self)", "cached_numbers_ok(self)"])],
       modifies=G_MOD)


# --- the fetch ---------------------------------------------------------------------------------------------------------------
@R.specfunc()
def asked_for(eng, st, self_sv, sid):
    """The request sent was (study, the study's re-fetch set as it stood, its watermark as it stood)."""
    req = st.ghost.get("grpc_req")
    if req is None:
        # at a call site nothing was recorded (the ghost lives in the callee's own verification): no information
        own = bool(st.frames) and st.frames[0].fi is not None and st.frames[0].fi.qualname.endswith("_read_trials_from_remote_storage")
        return SV(KBool, z3.BoolVal(not own))
    def pre():
        g = GC(eng, st, self_sv)
        un = g.f(sid.term, "unfinished_trial_ids")
        sh, _ = eng.snames(un.kind)
        return g.has(sid.term), eng.harr(st, sh)[un.term], g.f(sid.term, "last_finished_trial_id").term
    had, row_old, wm_old = _old(eng, st, pre)
    x = z3.Int("af_x")
    return SV(KBool, z3.And(req["study_id"].term == sid.term,
                            z3.If(had, z3.And(qforall([x], req["included_row"][x] == row_old[x], patterns=[req["included_row"][x]]), req["gt"].term == wm_old),
                                  z3.And(qforall([x], z3.Not(req["included_row"][x]), patterns=[req["included_row"][x]]), req["gt"].term == -1))))


@R.specfunc()
def rpc_outcome(eng, st, what):
    w = what.const if what.kind is KConst else z3.simplify(what.term).as_string()
    own = bool(st.frames) and st.frames[0].fi is not None and st.frames[0].fi.qualname.endswith("_read_trials_from_remote_storage")
    if st.ghost.get("grpc_outcome") is None and not own:
        return SV(KBool, st.fresh("rpc_outcome_" + w, z3.BoolSort()))      # call site: unknown which outcome it was
    return SV(KBool, z3.BoolVal(st.ghost.get("grpc_outcome") == w))


@R.specfunc()
def reply_filed(eng, st, self_sv, sid, upto):
    """Every trial of the reply at a position < upto is filed under its number, unless a later one (below upto) carries
    the same number."""
    lst = st.ghost.get("grpc_reply")
    if lst is None:
        return SV(KBool, z3.BoolVal(True))
    g = GC(eng, st, self_sv)
    i, j = z3.Int("rf_i"), z3.Int("rf_j")
    ti = SV(KRef("FrozenTrial"), _proto_trial(eng.list_get(st, lst, i).term))
    tj = SV(KRef("FrozenTrial"), _proto_trial(eng.list_get(st, lst, j).term))
    num = lambda t: eng.get_field(st, t, "_number").term
    tr = g.f(sid.term, "trials")
    later = z3.Exists([j], z3.And(i < j, j < upto.term, num(tj) == num(ti)))
    return SV(KBool, qforall([i], z3.Implies(z3.And(0 <= i, i < upto.term),
                                             z3.And(eng.dict_has(st, tr, SV(KInt, num(ti))),
                                                    z3.Or(later, eng.dict_get(st, tr, SV(KInt, num(ti))).term == ti.term))),
                             patterns=[eng.list_get(st, lst, i).term]))


@R.specfunc()
def reply_len(eng, st):
    lst = st.ghost.get("grpc_reply")
    return SV(KInt, eng.list_len(st, lst) if lst is not None else z3.IntVal(0))


@R.specfunc()
def cache_as_before_except_entry(eng, st, self_sv, sid):
    """On an RPC error other than NOT_FOUND nothing but the (possibly just created, empty) entry of `sid` differs."""
    return R.specfuncs["others_untouched_except"](eng, st, self_sv, sid)


@R.specfunc()
def others_untouched_except(eng, st, self_sv, sid):
    g = GC(eng, st, self_sv)
    a = z3.Int("oe_a")
    studies_old = _old(eng, st, lambda: GC(eng, st, self_sv).studies)
    has_old = _old(eng, st, lambda: eng.dict_has(st, studies_old, SV(KInt, a)))
    ent_old = _old(eng, st, lambda: eng.dict_get(st, studies_old, SV(KInt, a)).term)
    return SV(KBool, qforall([a], z3.Implies(a != sid.term, z3.And(g.has(a) == has_old, z3.Implies(has_old, g.entry(a).term == ent_old))),
                             patterns=[g.has(a)]))


R.spec(F, "GrpcClientCache._read_trials_from_remote_storage", props=["C08"],
       requires=["G_wf(self)", "cached_numbers_ok(self)"],
       cases=[case("any", any_outcome=True, ensures=[
           "asked_for(self, study_id)", "others_untouched_except(self, study_id)", "G_wf(self)", "cached_numbers_ok(self)",
           # the server does not know the study: the cached entry is dropped (a study re-created under the same id starts clean)
           "implies(rpc_outcome('not_found'), study_id not in self.studies)",
           "implies(rpc_outcome('ok'), study_id in self.studies)",
           "implies(rpc_outcome('ok'), reply_filed(self, study_id, reply_len()))",
       ], ensures_return=["rpc_outcome('ok')", "study_id in self.studies"])],
       loops={0: loop(index="_i", invariant=[
           "G_wf(self)", "cached_numbers_ok(self)", "study_id in self.studies", "0 <= _i and _i <= reply_len()", "reply_filed(self, study_id, _i)", "others_untouched_except(self, study_id)",
           "asked_for(self, study_id)"], modifies=G_MOD)},
       modifies=G_MOD + ["L:*:list<ref:TrialProto>", "F:GetTrialsReply.*", "G:is_tuple"])


# --- get_all_trials / delete_study_cache -----------------------------------------------------------------------------------------
R.contracts[(F, "GrpcClientCache._read_trials_from_remote_storage")].no_self_inline = True
R.contracts[(F, "GrpcClientCache._add_trial_to_cache")].no_self_inline = False


@R.specfunc()
def served_from_cache(eng, st, self_sv, sid, lst, states):
    """Every element of the result is the trial cached under its own number for the study, its state is selected, and numbers
    strictly increase along the list."""
    g = GC(eng, st, self_sv)
    tr = g.f(sid.term, "trials")
    n = eng.list_len(st, lst)
    i, j = z3.Int("sc_i"), z3.Int("sc_j")
    e = eng.list_get(st, lst, i)
    e2 = eng.list_get(st, lst, j)
    num = lambda t: eng.get_field(st, t, "_number").term

    def sel(x):
        if states.kind is KNone:
            return z3.BoolVal(True)
        inner = eng.coerce(st, states, states.kind.inner) if isinstance(states.kind, KOpt) else states
        return z3.Or(eng.is_none(st, states), eng.contains(st, inner, eng.get_field(st, x, "state")))
    return SV(KBool, z3.And(
        lst.term > 0,
        qforall([i], z3.Implies(z3.And(0 <= i, i < n), z3.And(eng.dict_has(st, tr, SV(KInt, num(e))), eng.dict_get(st, tr, SV(KInt, num(e))).term == e.term, sel(e))),
                patterns=[e.term]),
        qforall([i, j], z3.Implies(z3.And(0 <= i, i < j, j < n), num(e) <= num(e2)), patterns=[z3.MultiPattern(e.term, e2.term)])))


R.spec(F, "GrpcClientCache.get_all_trials", props=["C08", "C03"], guarded_by="self.lock", types={"states": "list[TrialState] | None"},
       returns_kind="list[FrozenTrial]", locals={"trials": None},
       requires=["G_wf(self)", "cached_numbers_ok(self)"],
       cases=[case("any", any_outcome=True, ensures=["G_wf(self)"],
                   ensures_return=["fresh(result)", "study_id in self.studies", "served_from_cache(self, study_id, result, states)"])],
       modifies=G_MOD + ["L:*:list<ref:TrialProto>", "F:GetTrialsReply.*", "G:is_tuple", "L:*:list<ref:FrozenTrial>", "D:*:dict<int,ref:FrozenTrial>"])


@R.specfunc()
def cached_numbers_ok(eng, st, self_sv):
    """Representation invariant of the per-study trial dict: a trial is filed under its own number."""
    g = GC(eng, st, self_sv)
    s, n = z3.Int("cn_s"), z3.Int("cn_n")
    tr = g.f(s, "trials")
    t = eng.dict_get(st, tr, SV(KInt, n))
    return SV(KBool, qforall([s, n], z3.Implies(z3.And(g.has(s), eng.dict_has(st, tr, SV(KInt, n))),
                                                z3.And(t.term > 0, eng.get_field(st, t, "_number").term == n)), patterns=[t.term]))


R.spec(F, "GrpcClientCache.delete_study_cache", props=["C08", "C03"], guarded_by="self.lock",
       requires=["G_wf(self)"],
       cases=[case("ok", ensures=["study_id not in self.studies", "others_untouched_except(self, study_id)", "G_wf(self)"])],
       modifies=G_MOD)
