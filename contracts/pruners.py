"""Contracts for optuna/pruners/*.py (C16, C13)."""
import z3

from pyvc.contracts import Registry, case, loop, Contract
from pyvc.kinds import *  # noqa
from pyvc.state import SV
from contracts import storage_model

R = Registry()
R.merge(storage_model.R)
P = "optuna/pruners/"

import optuna  # noqa: E402
import optuna.pruners as _pr  # noqa: E402
R.classes.update({"ThresholdPruner": _pr.ThresholdPruner, "NopPruner": _pr.NopPruner, "PercentilePruner": _pr.PercentilePruner,
                  "MedianPruner": _pr.MedianPruner, "PatientPruner": _pr.PatientPruner, "HyperbandPruner": _pr.HyperbandPruner,
                  "SuccessiveHalvingPruner": _pr.SuccessiveHalvingPruner, "BasePruner": _pr.BasePruner})
R.schema("ThresholdPruner", {"_lower": "float", "_upper": "float", "_n_warmup_steps": "int", "_interval_steps": "int"})
R.schema("PercentilePruner", {"_percentile": "float", "_n_startup_trials": "int", "_n_warmup_steps": "int", "_interval_steps": "int",
                              "_n_min_trials": "int"})
R.schema("PatientPruner", {"_wrapped_pruner": "BasePruner | None", "_patience": "int", "_min_delta": "float"})
R.schema("HyperbandPruner", {"_pruners": "list[SuccessiveHalvingPruner]", "_n_brackets": "int | None",
                             "_total_trial_allocation_budget": "int", "_trial_allocation_budgets": "list[int]"})
I = z3.IntSort()


def _iv(eng, st, trial):
    return eng.get_field(st, trial, "intermediate_values")


@R.specfunc()
def first_in_interval(eng, st, step, steps, n_warmup, interval):
    """No OTHER reported step lies at or after the nearest pruning step at or before `step`
    (nearest = (step - warmup) // interval * interval + warmup)."""
    s, w, iv = step.term, n_warmup.term, interval.term
    fd = (s - w) / iv          # z3 integer division = floor for positive divisor
    nearest = fd * iv + w
    k = z3.Int("fi_k")
    has = eng.dict_has(st, steps, SV(KInt, k))
    return SV(KBool, qforall([k], z3.Implies(z3.And(has, k != s), k < nearest), patterns=[has]))


PCT = P + "_percentile.py"
R.spec(PCT, "_is_first_in_interval_step", props=["C16"],
       types={"intermediate_steps": "dict[int, float] @ ti"},
       requires=["interval_steps >= 1", "n_warmup_steps >= 0", "step >= n_warmup_steps"],
       cases=[case("ok", returns="first_in_interval(step, intermediate_steps, n_warmup_steps, interval_steps)")],
       returns_kind="bool",
       loops={"reduce": loop(invariant=[
           "second_last_step >= -1", "0 <= _i and _i <= _n",
           "seen_below(intermediate_steps, _i, step, second_last_step)",
       ])})


@R.specfunc()
def seen_below(eng, st, steps, upto, step, acc):
    """acc = max of the keys enumerated so far other than `step`, or -1."""
    ks = eng.dict_keyseq(st, steps)
    j = z3.Int("sb_j")
    e = eng.list_get(st, ks, j).term
    a = qforall([j], z3.Implies(z3.And(0 <= j, j < upto.term, e != step.term), e <= acc.term), patterns=[e])
    b = z3.Or(acc.term == -1, z3.And(eng.dict_has(st, steps, acc), acc.term != step.term))
    return SV(KBool, z3.And(a, b))


R.spec("optuna/trial/_frozen.py", "FrozenTrial.last_step", inline=True)

TH = P + "_threshold.py"
R.spec(TH, "ThresholdPruner.prune", props=["C16", "C13"], types={"study": "Study", "trial": "FrozenTrial"},
       requires=["self._interval_steps >= 1", "self._n_warmup_steps >= 0", "steps_nonneg(trial)"],
       cases=[case("ok", returns=(
           # prunes exactly when the checked value is NaN or outside its bounds (and the gate is open)
           "len(trial.intermediate_values) > 0 and last_step_of(trial) >= self._n_warmup_steps and "
           "first_in_interval(last_step_of(trial), trial.intermediate_values, self._n_warmup_steps, self._interval_steps) and "
           "(math_isnan(trial.intermediate_values[last_step_of(trial)]) or "
           "trial.intermediate_values[last_step_of(trial)] < self._lower or trial.intermediate_values[last_step_of(trial)] > self._upper)"))],
       returns_kind="bool")
R.spec(P + "_nop.py", "NopPruner.prune", props=["C16"], types={"study": "Study", "trial": "FrozenTrial"},
       cases=[case("ok", returns="False")], returns_kind="bool")


@R.specfunc()
def steps_nonneg(eng, st, trial):
    d = _iv(eng, st, trial)
    k = z3.Int("sn_k")
    has = eng.dict_has(st, d, SV(KInt, k))
    return SV(KBool, qforall([k], z3.Implies(has, k >= 0), patterns=[has]))


@R.specfunc()
def last_step_of(eng, st, trial):
    """The maximum reported step (defined when there is one)."""
    d = _iv(eng, st, trial)
    t = uf("last_step_of", I, I)(d.term)
    k = z3.Int("ls_k")
    has = eng.dict_has(st, d, SV(KInt, k))
    st.assume(z3.Implies(eng.dict_size(st, d) > 0, z3.And(eng.dict_has(st, d, SV(KInt, t)),
                                                           qforall([k], z3.Implies(has, k <= t), patterns=[has]))), quantified=True)
    return SV(KInt, t)


@R.specfunc()
def math_isnan(eng, st, x):
    return SV(KBool, f_is_nan(eng.coerce(st, x, KFloat).term))


# --- percentile / median pruner ---------------------------------------------------------------------------
R.spec("optuna/study/study.py", "Study.get_trials", trusted=True, returns_kind="list[FrozenTrial]",
       types={"states": "list[TrialState] | None"},
       cases=[case("ok", ensures=["fresh(result)", "forall(lambda i: implies(0 <= i and i < len(result), "
                                  "states is None or result[i].state in states), trigger=result[i])"])],
       note="assumed (AS): get_trials(states=S) returns exactly the trials whose state is in S")
R.spec("optuna/study/study.py", "Study.direction", trusted=True, returns_kind="StudyDirection",
       cases=[case("ok", returns="self._directions[0]")], note="single-objective study")


@R.specfunc()
def best_own(eng, st, trial, direction, v):
    """v is the best (direction-wise) non-NaN value the trial reported, or NaN if all are NaN."""
    d = _iv(eng, st, trial)
    k = z3.Int("bo_k")
    has = eng.dict_has(st, d, SV(KInt, k))
    val = eng.dict_get(st, d, SV(KInt, k)).term
    allnan = qforall([k], z3.Implies(has, f_is_nan(val)), patterns=[has])
    maxi = direction.term == 2
    beats = z3.If(maxi, f_lt(v.term, val), f_lt(val, v.term))
    return SV(KBool, z3.If(allnan, f_is_nan(v.term), z3.And(z3.Not(f_is_nan(v.term)),
                                                           qforall([k], z3.Implies(z3.And(has, z3.Not(f_is_nan(val))), z3.Not(beats)), patterns=[has]))))


R.spec(PCT, "_get_best_intermediate_result_over_steps", props=["C16", "C13"],
       types={"trial": "FrozenTrial"}, returns_kind="float",
       requires=["len(trial.intermediate_values) > 0"],
       cases=[case("ok", ensures=["best_own(trial, direction, result)"])])


@R.specfunc()
def others_at_step(eng, st, trials, step, p, direction):
    """p (non-NaN) lies between the smallest and the largest non-NaN value the given trials reported at `step`; so a
    value strictly better than all of them is strictly better than p."""
    n = eng.list_len(st, trials)
    i = z3.Int("oa_i")
    t = eng.list_get(st, trials, i)
    d = _iv(eng, st, t)
    has = eng.dict_has(st, d, step)
    val = eng.dict_get(st, d, step).term
    lo, hi = z3.Int("oa_lo"), z3.Int("oa_hi")

    def at(x):
        tt = eng.list_get(st, trials, x)
        dd = _iv(eng, st, tt)
        return eng.dict_has(st, dd, step), eng.dict_get(st, dd, step).term
    hlo, vlo = at(lo)
    hhi, vhi = at(hi)
    return SV(KBool, z3.Implies(z3.Not(f_is_nan(p.term)), z3.Exists([lo, hi], z3.And(
        0 <= lo, lo < n, 0 <= hi, hi < n, hlo, hhi, z3.Not(f_is_nan(vlo)), z3.Not(f_is_nan(vhi)),
        z3.Not(f_lt(p.term, vlo)), z3.Not(f_lt(vhi, p.term))))))


R.spec(PCT, "_get_percentile_intermediate_result_over_trials", props=["C16", "C13"],
       types={"completed_trials": "list[FrozenTrial]"}, returns_kind="float",
       locals={"intermediate_values": "list[float]"},
       requires=["0.0 <= percentile and percentile <= 100.0"],
       cases=[case("empty", when="len(completed_trials) == 0", raises="ValueError"),
              case("ok", ensures=["others_at_step(completed_trials, step, result, direction)"])])


@R.specfunc()
def strictly_best(eng, st, trial, trials, step, direction):
    """Every non-NaN value reported by `trial` is strictly better than every non-NaN value the other trials reported at `step`,
    and the trial has at least one non-NaN value."""
    d = _iv(eng, st, trial)
    k, i = z3.Int("sb_k"), z3.Int("sb_i")
    has = eng.dict_has(st, d, SV(KInt, k))
    val = eng.dict_get(st, d, SV(KInt, k)).term
    t = eng.list_get(st, trials, i)
    od = _iv(eng, st, t)
    ohas = eng.dict_has(st, od, step)
    oval = eng.dict_get(st, od, step).term
    maxi = direction.term == 2
    better = z3.If(maxi, f_lt(oval, val), f_lt(val, oval))
    n = eng.list_len(st, trials)
    some = z3.Exists([k], z3.And(has, z3.Not(f_is_nan(val))))
    return SV(KBool, z3.And(some, qforall([k, i], z3.Implies(z3.And(has, z3.Not(f_is_nan(val)), 0 <= i, i < n, ohas, z3.Not(f_is_nan(oval))), better),
                                          patterns=[z3.MultiPattern(has, ohas)])))


R.spec(PCT, "PercentilePruner.prune", props=["C16", "C13"], types={"study": "Study", "trial": "FrozenTrial"},
       requires=["self._interval_steps >= 1", "self._n_warmup_steps >= 0", "self._n_min_trials >= 1", "steps_nonneg(trial)",
                 "0.0 <= self._percentile and self._percentile <= 100.0", "len(study._directions) == 1"],
       returns_kind="bool",
       cases=[case("ok", ensures=[
           # never before the start-up trials, the warm-up steps, or off the interval grid
           "implies(result, len(trial.intermediate_values) > 0 and last_step_of(trial) >= self._n_warmup_steps and "
           "first_in_interval(last_step_of(trial), trial.intermediate_values, self._n_warmup_steps, self._interval_steps))",
           "implies(result, g_n_complete(study) >= 1 and g_n_complete(study) >= self._n_startup_trials)",
           # a trial that is strictly better than everything the completed trials reported at this step is never pruned
           "implies(len(trial.intermediate_values) > 0 and strictly_best(trial, g_complete(study), last_step_of(trial), study._directions[0]), not result)",
       ])],
       modifies=["L:*:list<float>", "G:is_tuple", "L:*:list<ref:FrozenTrial>", "L:*:list<enum:TrialState>"])


@R.specfunc()
def g_complete(eng, st, study):
    """Ghost: the list Study.get_trials(states=(COMPLETE,)) returned in this call."""
    return st.ghost.get("get_trials_result", SV(KList(KRef("FrozenTrial")), z3.IntVal(0)))


@R.specfunc()
def g_n_complete(eng, st, study):
    r = st.ghost.get("get_trials_result")
    return SV(KInt, eng.list_len(st, r) if r is not None else z3.IntVal(0))


def _remember_get_trials(eng, st, env):
    pass


_gt = R.contracts[("optuna/study/study.py", "Study.get_trials")]
