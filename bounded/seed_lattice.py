"""Bounded stand-in (labelled bounded, never counted as proved) for the whole-run part of C09 that no contract reaches:
the real code is run with a seeded sampler on a deterministic define-by-run objective, once as the reference (a fresh
InMemoryStorage, one optimize call) and then again for every configuration below; the oracle is the property itself
(identical sequence of (params, intermediate values, state, values)).

bound: samplers {Random, TPE, TPE multivariate+group, NSGA-II(pop 6), QMC, BruteForce, Grid} (seed = VERIF_SEED) x pruner
       Median(3 start-up) (TPE additionally with Hyperband; NSGA-II with Nop so that generations fill) x storages {in-memory, journal file, RDB sqlite, cached RDB
       sqlite} x {empty storage, storage already holding another study with 5 trials} x {one optimize call, split 9 + rest
       with the same sampler object; for the two sqlite storages the quick tier runs only the plain and the
       other-study+split combination} on a conditional objective with reports, pruning and a failing trial (24 trials; the
       finite variant for BruteForce/Grid);  PYTHONHASHSEED in {0, 1, 2} (fresh interpreters) for TPE multivariate+group and
       NSGA-II;  copy_study of the finished reference study in-memory -> journal -> sqlite -> in-memory, every trial field
       compared.  gRPC proxy not run."""
from __future__ import annotations

import json
import os
import subprocess
import sys
import tempfile

N = 24


def _objective(finite):
    import optuna

    def obj(t):
        kind = t.suggest_categorical("kind", ["svm", "forest"])
        if finite:
            a = t.suggest_int("a", 0, 2)
            v = (a - 1) ** 2 + (0.5 if kind == "svm" else 0.0)
            if kind == "svm":
                v += t.suggest_float("c", 0.0, 0.5, step=0.25)
            return v
        lr = t.suggest_float("learning_rate", 1e-4, 1.0, log=True)
        if kind == "svm":
            c = t.suggest_float("svm_c", 1e-3, 1e3, log=True)
            deg = t.suggest_int("svm_degree", 1, 6)
            val = (c - 3.0) ** 2 * 1e-4 + 0.1 * deg
        else:
            depth = t.suggest_int("forest_depth", 1, 20)
            frac = t.suggest_float("forest_max_features", 0.1, 1.0)
            val = abs(depth - 7) * 0.1 + (frac - 0.4) ** 2
        if t.number % 11 == 7:
            raise ValueError("planned failure")
        for s in range(4):
            t.report(val + (3 - s) * 0.3 * lr, s)
            if t.should_prune():
                raise optuna.TrialPruned()
        return val + (lr - 0.01) ** 2
    return obj


def _sampler(name, seed):
    import optuna
    S = optuna.samplers
    if name == "random":
        return S.RandomSampler(seed=seed)
    if name == "tpe" or name == "tpe+hyperband":
        return S.TPESampler(seed=seed, n_startup_trials=5)
    if name == "tpe-mv-group":
        return S.TPESampler(seed=seed, n_startup_trials=5, multivariate=True, group=True, warn_independent_sampling=False)
    if name == "nsga2":
        return S.NSGAIISampler(seed=seed, population_size=6)
    if name == "qmc":
        return S.QMCSampler(seed=seed, warn_independent_sampling=False)
    if name == "bruteforce":
        return S.BruteForceSampler(seed=seed)
    if name == "grid":
        return S.GridSampler({"kind": ["svm", "forest"], "a": [0, 1, 2], "c": [0.0, 0.25, 0.5]}, seed=seed)
    raise KeyError(name)


def _record(study):
    return [{"params": sorted((k, repr(v)) for k, v in t.params.items()), "iv": sorted(t.intermediate_values.items()),
             "state": t.state.name, "values": t.values} for t in study.trials]


def _run(sname, seed, storage, split):
    import optuna
    finite = sname in ("bruteforce", "grid")
    pruner = (optuna.pruners.HyperbandPruner(max_resource=4) if sname == "tpe+hyperband" else
              optuna.pruners.NopPruner() if sname == "nsga2" else optuna.pruners.MedianPruner(n_startup_trials=3))
    study = optuna.create_study(storage=storage, study_name="seeded", sampler=_sampler(sname, seed), pruner=pruner)
    obj = _objective(finite)
    if split:
        study.optimize(obj, n_trials=9, catch=(ValueError,))
        study.optimize(obj, n_trials=N - 9, catch=(ValueError,))
    else:
        study.optimize(obj, n_trials=N, catch=(ValueError,))
    ids_are_numbers = all(t._trial_id == t.number for t in study.get_trials(deepcopy=False))
    return _record(study), ids_are_numbers, study


def child():
    """Run in a fresh interpreter (PYTHONHASHSEED set by the parent): prints the record of one in-memory run."""
    from pyvc.frontend import setup_repo_path
    setup_repo_path()
    import warnings
    warnings.simplefilter("ignore")
    import optuna
    optuna.logging.set_verbosity(optuna.logging.ERROR)
    sname, seed = sys.argv[1], int(sys.argv[2])
    rec, _ok, _s = _run(sname, seed, optuna.storages.InMemoryStorage(), False)
    print("RESULT" + json.dumps(rec))


def run(pid, tier, seed):
    from pyvc.frontend import setup_repo_path
    setup_repo_path()
    import warnings
    warnings.simplefilter("ignore")
    import optuna
    from optuna.storages import InMemoryStorage, JournalStorage, RDBStorage
    from optuna.storages.journal import JournalFileBackend
    optuna.logging.set_verbosity(optuna.logging.ERROR)
    viol, samples = [], []
    evals, nontrivial = 0, 0

    per_class = {}

    def bad(what, **inp):
        # at most 3 reports per (sampler, ids-equal-numbers) class, so that the known finding F6 (NSGA-II where trial ids differ
        # from trial numbers) cannot crowd out a different violation
        key = (inp.get("sampler"), inp.get("ids_equal_numbers"))
        per_class[key] = per_class.get(key, 0) + 1
        if per_class[key] <= 3 and len(viol) < 40:
            viol.append({"what": what, "input": {k: repr(v) for k, v in inp.items()}})

    work = tempfile.mkdtemp(prefix="verif_seed_")
    counter = [0]

    def storage(kind):
        counter[0] += 1
        if kind == "inmem":
            return InMemoryStorage()
        if kind == "journal":
            return JournalStorage(JournalFileBackend(os.path.join(work, "j%d.log" % counter[0])))
        if kind == "rdb":
            return RDBStorage("sqlite:///" + os.path.join(work, "r%d.db" % counter[0]))
        if kind == "cached-rdb":
            return "sqlite:///" + os.path.join(work, "c%d.db" % counter[0])        # create_study wraps a URL in _CachedStorage
        raise KeyError(kind)

    def preload(st):
        other = optuna.create_study(storage=st, study_name="other", sampler=optuna.samplers.RandomSampler(seed=99))
        other.optimize(lambda t: t.suggest_float("x", 0, 1), n_trials=5)

    samplers = ["random", "tpe", "tpe+hyperband", "tpe-mv-group", "nsga2", "qmc", "bruteforce", "grid"]
    seeds = [seed] if tier == "quick" else [seed, seed + 1]
    try:
        for sname in samplers:
            for sd in seeds:
                try:
                    ref, _ok, ref_study = _run(sname, sd, InMemoryStorage(), False)
                except Exception as e:  # noqa: BLE001
                    bad("reference run raised", sampler=sname, seed=sd, error=e)
                    continue
                evals += 1
                again, _ok2, _s2 = _run(sname, sd, InMemoryStorage(), False)
                if again != ref:
                    bad("two identical seeded runs differ", sampler=sname, seed=sd)
                for kind in ("inmem", "journal", "rdb", "cached-rdb"):
                    for other in (False, True):
                        for split in (False, True):
                            if kind == "inmem" and not other and not split:
                                continue
                            if tier == "quick" and kind in ("rdb", "cached-rdb") and other != split:
                                continue                 # sqlite is slow: quick tier runs (plain) and (other study + split) only
                            evals += 1
                            nontrivial += 1
                            st = storage(kind)
                            ok = None
                            try:
                                if other:
                                    preload(st)
                                got, ok, _s = _run(sname, sd, st, split)
                                err = None
                            except Exception as e:  # noqa: BLE001
                                got, err = None, e
                            if got != ref:
                                k = None if got is None else next((i for i, (u, w) in enumerate(zip(got, ref)) if u != w), min(len(got), len(ref)))
                                if ok is None:          # the run raised: were ids equal to numbers in this storage?
                                    ok = (kind in ("inmem", "journal")) and not other
                                bad("seeded run differs from the reference run (fresh in-memory storage, one optimize call)",
                                    sampler=sname, seed=sd, storage=kind, other_study_in_storage=other, split_in_two_calls=split,
                                    first_diverging_trial=k, error=err, ids_equal_numbers=ok,
                                    got=(None if got is None or k is None or k >= len(got) else got[k]),
                                    reference=(None if k is None or k >= len(ref) else ref[k]))
                # copy_study round trip of the finished reference study
                if sname in ("tpe", "nsga2", "grid") and sd == seeds[0]:
                    evals += 1
                    nontrivial += 1
                    try:
                        chain = [ref_study._storage]
                        names = ["seeded"]
                        for i, kind in enumerate(("journal", "rdb", "inmem")):
                            st = storage(kind)
                            if kind == "rdb":
                                preload(st)                         # id offset in the destination
                            optuna.copy_study(from_study_name=names[-1], from_storage=chain[-1], to_storage=st, to_study_name="copy%d" % i)
                            chain.append(st)
                            names.append("copy%d" % i)
                        back = optuna.load_study(study_name=names[-1], storage=chain[-1])

                        def full(s):
                            return [(t.number, t.state, t.values, t.params, t.distributions, t.user_attrs, t.system_attrs,
                                     t.intermediate_values, t.datetime_start, t.datetime_complete) for t in s.trials]
                        if full(back) != full(ref_study) or back.directions != ref_study.directions or back.user_attrs != ref_study.user_attrs:
                            a, b = full(back), full(ref_study)
                            k = next((i for i, (u, w) in enumerate(zip(a, b)) if u != w), None)
                            bad("copy_study in-memory -> journal -> sqlite -> in-memory does not reproduce every trial field",
                                sampler=sname, seed=sd, first_differing_trial=k, got=(a[k] if k is not None else len(a)),
                                want=(b[k] if k is not None else len(b)))
                    except Exception as e:  # noqa: BLE001
                        bad("copy_study raised", sampler=sname, seed=sd, error=e)
        samples.append({"case": "TPE(seed) + MedianPruner: 24 trials (pruned, failed and complete ones) identical on in-memory, journal file, "
                                "sqlite and cached sqlite, with and without another study in the storage, one or two optimize calls"})

        # ---- string-hash independence: fresh interpreters that differ only in PYTHONHASHSEED ---------------------------------
        here = os.path.dirname(os.path.dirname(os.path.abspath(__file__)))
        for sname in ("tpe-mv-group", "nsga2"):
            outs = {}
            for hs in ("0", "1", "2"):
                evals += 1
                nontrivial += 1
                env = dict(os.environ, PYTHONHASHSEED=hs, PYTHONPATH=here + os.pathsep + os.environ.get("PYTHONPATH", ""))
                p = subprocess.run([sys.executable, "-c", "from bounded import seed_lattice; seed_lattice.child()", sname, str(seed)],
                                   env=env, capture_output=True, text=True, timeout=600, cwd=here)
                line = next((l for l in p.stdout.splitlines() if l.startswith("RESULT")), None)
                if line is None:
                    bad("child interpreter failed", sampler=sname, hashseed=hs, stderr=p.stderr[-400:])
                    continue
                outs[hs] = json.loads(line[6:])
            vals = list(outs.items())
            for hs, rec in vals[1:]:
                if rec != vals[0][1]:
                    k = next((i for i, (u, w) in enumerate(zip(rec, vals[0][1])) if u != w), None)
                    bad("the same seeded run differs between interpreters that differ only in PYTHONHASHSEED", sampler=sname, seed=seed,
                        hashseeds=(vals[0][0], hs), first_diverging_trial=k)
                    break
        samples.append({"case": "TPE multivariate+group with a conditional space: identical under PYTHONHASHSEED 0, 1, 2"})
    finally:
        import shutil
        shutil.rmtree(work, ignore_errors=True)
    return {"name": "bounded.seed_lattice", "function": "whole seeded runs: optuna/study/_optimize.py, samplers, pruners, storages; optuna/study/study.py copy_study",
            "bound": __doc__.split("bound:")[1].strip(), "evaluations": evals, "distinct_nontrivial": nontrivial,
            "rule": "every listed (sampler x storage x other-study x split | sampler x hash seed | copy chain) is run and compared with the reference run",
            "exhaustive": True, "samples": samples, "violations": viol}
